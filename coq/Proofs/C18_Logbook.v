(* Lemmas about the Logbook / Statistics model (Model/C18_Logbook.v). *)
From Coq Require Import List ZArith Bool Lia ZifyBool Sorting.Sorted Permutation.
From DV Require Import Base.PyList Base.C18_Lists Model.C18_Logbook.
Import ListNotations.
Local Open Scope Z_scope.

(* ------------------------------------------------------------------------- *)
(* induction over the chapter tree                                            *)
(* ------------------------------------------------------------------------- *)
Section LbInd.
  Variable P : lb -> Prop.
  Hypothesis H : forall rs bf cs h g, Forall (fun kc => P (snd kc)) cs -> P (LB rs bf cs h g).
  Fixpoint lb_ind' (l : lb) : P l :=
    match l with
    | LB rs bf cs h g =>
        H rs bf cs h g
          ((fix go (cl : list (name * lb)) : Forall (fun kc => P (snd kc)) cl :=
              match cl with
              | [] => Forall_nil _
              | kc :: r => Forall_cons kc (lb_ind' (snd kc)) (go r)
              end) cs)
    end.
End LbInd.

(* ------------------------------------------------------------------------- *)
(* dictionaries                                                               *)
(* ------------------------------------------------------------------------- *)
Section DictLemmas.
  Context {V : Type}.
  Implicit Types (d : list (name * V)).

  Lemma lookup_dict_set_eq k v d : lookup k (dict_set k v d) = Some v.
  Proof.
    induction d as [|[k' v'] r IH]; cbn; [now rewrite Z.eqb_refl|].
    destruct (k =? k') eqn:E; cbn; rewrite E; auto.
  Qed.

  Lemma lookup_dict_set_neq k k' v d : k' <> k -> lookup k' (dict_set k v d) = lookup k' d.
  Proof.
    intro N. induction d as [|[k0 v0] r IH]; cbn.
    - destruct (k' =? k) eqn:E; auto. lia.
    - destruct (k =? k0) eqn:E; cbn; [|now rewrite IH].
      destruct (k' =? k0) eqn:E2; auto. lia.
  Qed.

  Lemma lookup_None k d : lookup k d = None <-> ~ In k (map fst d).
  Proof.
    induction d as [|[k' v'] r IH]; cbn; [tauto|].
    destruct (k =? k') eqn:E.
    - split; [discriminate|]. intro N. exfalso. apply N. left. lia.
    - rewrite IH. split; intro N; [intros [E2|E2]; [lia|auto]|tauto].
  Qed.

  Lemma lookup_Some_In k v d : lookup k d = Some v -> In (k, v) d.
  Proof.
    induction d as [|[k' v'] r IH]; cbn; [discriminate|].
    destruct (k =? k') eqn:E; [|auto]. intro H; injection H as ->. left. f_equal. lia.
  Qed.

  Lemma In_lookup k v d : NoDup (map fst d) -> In (k, v) d -> lookup k d = Some v.
  Proof.
    induction d as [|[k' v'] r IH]; cbn; [tauto|]. intros ND [E|H].
    - injection E as -> ->. now rewrite Z.eqb_refl.
    - inversion ND as [|? ? N ND']; subst. destruct (k =? k') eqn:E; auto.
      exfalso. apply N. assert (k = k') by lia. subst. apply (in_map fst) in H. exact H.
  Qed.

  Lemma dict_set_names k v d :
    map fst (dict_set k v d) = if existsb (Z.eqb k) (map fst d) then map fst d else map fst d ++ [k].
  Proof.
    induction d as [|[k' v'] r IH]; cbn; auto.
    destruct (k =? k') eqn:E; cbn; auto. rewrite IH. destruct (existsb _ _); auto.
  Qed.

  Lemma dict_set_In_names k v d k' :
    In k' (map fst (dict_set k v d)) <-> k' = k \/ In k' (map fst d).
  Proof.
    rewrite dict_set_names. destruct (existsb (Z.eqb k) (map fst d)) eqn:E.
    - split; auto. intros [->|H]; auto. apply existsb_exists in E as (x & Hx & E). assert (k = x) by lia. now subst.
    - rewrite in_app_iff. cbn. split; [intros [H|[H|[]]]; auto|intros [->|H]; auto].
  Qed.

  Lemma dict_set_NoDup k v d : NoDup (map fst d) -> NoDup (map fst (dict_set k v d)).
  Proof.
    intro ND. rewrite dict_set_names. destruct (existsb (Z.eqb k) (map fst d)) eqn:E; auto.
    apply NoDup_app_last; auto.
    intro H. assert (existsb (Z.eqb k) (map fst d) = true); [|congruence].
    apply existsb_exists. exists k. split; auto. apply Z.eqb_refl.
  Qed.
End DictLemmas.

(* ------------------------------------------------------------------------- *)
(* record: fuel, totality, what each chapter receives                          *)
(* ------------------------------------------------------------------------- *)
Fixpoint maxd (d : dict) : nat :=
  match d with [] => O | (_, x) :: r => Nat.max (vdepth x) (maxd r) end.

Lemma vdepth_dict d : vdepth (VDict d) = S (maxd d).
Proof.
  reflexivity.
Qed.

Lemma ddepth_maxd d : ddepth d = S (maxd d).
Proof. apply vdepth_dict. Qed.

Lemma maxd_In k v d : In (k, v) d -> (vdepth v <= maxd d)%nat.
Proof.
  induction d as [|[k' x] r IH]; cbn; [tauto|]. intros [E|H]; [injection E as -> ->; lia|].
  specialize (IH H). lia.
Qed.

Lemma maxd_dict_set_int k z d : (maxd (dict_set k (VInt z) d) <= maxd d)%nat.
Proof.
  induction d as [|[k' x] r IH]; cbn; [lia|]. destruct (k =? k'); cbn; lia.
Qed.

Lemma maxd_update_inject d e : (maxd (dict_update d (inject e)) <= maxd d)%nat.
Proof.
  unfold dict_update. revert d. induction e as [|[k z] r IH]; intro d; cbn; [lia|].
  etransitivity; [apply IH|]. apply maxd_dict_set_int.
Qed.

Lemma sub_depth k d e infos :
  In (k, VDict d) infos -> (ddepth (dict_update d (inject e)) < ddepth infos)%nat.
Proof.
  intro H. rewrite !ddepth_maxd. apply maxd_In in H. rewrite vdepth_dict in H.
  pose proof (maxd_update_inject d e). lia.
Qed.

Lemma record_loop_total f items cs :
  (forall k d c, In (k, VDict d) items -> exists c', f d c = Some c') ->
  exists cs', record_loop f items cs = Some cs'.
Proof.
  revert cs; induction items as [|[k [z|d]] r IH]; intros cs H; cbn.
  - eauto.
  - apply IH. intros; eapply H; right; eauto.
  - destruct (H k d (chapter_of k cs)) as [c' E]; [now left|]. rewrite E.
    apply IH. intros; eapply H; right; eauto.
Qed.

Lemma lb_record_total fuel uid infos l :
  (ddepth infos < fuel)%nat ->
  exists l', lb_record fuel uid infos l = Some l' /\
    recs l' = recs l ++ [(uid, scalars infos)] /\ buff l' = buff l /\ hdr l' = hdr l /\ logh l' = logh l.
Proof.
  revert infos l; induction fuel as [|f IH]; intros infos l Hf; [lia|]. cbn [lb_record].
  destruct (record_loop_total
              (fun (d : dict) (c : lb) => lb_record f uid (dict_update d (inject (scalars infos))) c) infos (chs l)) as [cs' E].
  { intros k d c Hin. destruct (IH (dict_update d (inject (scalars infos))) c) as (c' & E & _); eauto.
    pose proof (sub_depth k d (scalars infos) infos Hin). lia. }
  rewrite E. eexists; repeat split.
Qed.

(* what the loop leaves in self.chapters *)
Lemma record_loop_spec f items : forall cs cs',
  NoDup (map fst items) -> record_loop f items cs = Some cs' ->
  (forall k, lookup k cs' = match lookup k items with
                            | Some (VDict d) => f d (chapter_of k cs)
                            | _ => lookup k cs
                            end) /\
  (forall k, In k (map fst cs') <-> In k (map fst cs) \/ exists d, In (k, VDict d) items) /\
  (NoDup (map fst cs) -> NoDup (map fst cs')).
Proof.
  induction items as [|[k0 [z|d]] r IH]; intros cs cs' ND E; cbn in E.
  - injection E as <-. repeat split; auto. intros [H|(d & [])]; auto.
  - inversion ND as [|? ? N ND']; subst. destruct (IH _ _ ND' E) as (L & I & D).
    repeat split; auto.
    + intro k. cbn. destruct (k =? k0) eqn:Ek.
      * assert (k = k0) by lia. subst. rewrite L.
        assert (lookup k0 r = None) as -> by (now apply lookup_None). reflexivity.
      * apply L.
    + intro H. apply I in H as [H|(d & H)]; auto. right. exists d. now right.
    + intros [H|(d & [H|H])]; apply I; auto; [discriminate|eauto].
  - inversion ND as [|? ? N ND']; subst.
    destruct (f d (chapter_of k0 cs)) as [c'|] eqn:Ec; [|discriminate].
    destruct (IH _ _ ND' E) as (L & I & D).
    repeat split.
    + intro k. cbn. destruct (k =? k0) eqn:Ek.
      * assert (k = k0) by lia. subst. rewrite L.
        assert (lookup k0 r = None) as -> by (now apply lookup_None).
        now rewrite lookup_dict_set_eq.
      * rewrite L. unfold chapter_of. rewrite !lookup_dict_set_neq by lia. reflexivity.
    + intro H. apply I in H as [H|(d2 & H)].
      * apply dict_set_In_names in H as [->|H]; auto. right. exists d. now left.
      * right. exists d2. now right.
    + intros [H|(d2 & [H|H])]; apply I.
      * left. apply dict_set_In_names. auto.
      * injection H as -> ->. left. apply dict_set_In_names. auto.
      * right. eauto.
    + intro H. apply D. now apply dict_set_NoDup.
Qed.

(* ------------------------------------------------------------------------- *)
(* chapter-name trees, the uniformity hypothesis, alignment                    *)
(* ------------------------------------------------------------------------- *)
(* the chapter names of a logbook, recursively (shape is defined in the model file) *)
Fixpoint tree_of (l : lb) : shape :=
  match l with LB _ _ cs _ _ => Sh (map (fun kc => (fst kc, tree_of (snd kc))) cs) end.

(* same names at every level, in any order *)
Inductive shape_eqv : shape -> shape -> Prop :=
| SE a b :
    NoDup (map fst a) -> NoDup (map fst b) ->
    (forall k, In k (map fst a) <-> In k (map fst b)) ->
    (forall k x y, In (k, x) a -> In (k, y) b -> shape_eqv x y) ->
    shape_eqv (Sh a) (Sh b).

(* record( **infos ) feeds exactly the chapters of the tree s, at every level: the keys of infos are
   distinct (it is a dict), its dictionary-valued keys are the names of s, and each dictionary -- once
   the scalar fields of infos are merged in, as record() does -- feeds the sub-tree of that name *)
Inductive has_shape : dict -> shape -> Prop :=
| HS infos sub :
    NoDup (map fst infos) -> NoDup (map fst sub) ->
    (forall k, In k (map fst sub) <-> exists d, In (k, VDict d) infos) ->
    (forall k d s, In (k, VDict d) infos -> In (k, s) sub ->
                   has_shape (dict_update d (inject (scalars infos))) s) ->
    has_shape infos (Sh sub).

Definition fresh (l : lb) : Prop := recs l = [] /\ chs l = [].
Definition shaped (l : lb) (s : shape) : Prop := fresh l \/ shape_eqv (tree_of l) s.

(* every field of the logbook's entry for record u is in the chapter's entry for u *)
Definition flows (rs rc : list (nat * entry)) : Prop :=
  forall u e e', In (u, e) rs -> In (u, e') rc -> forall k z, lookup k e = Some z -> lookup k e' = Some z.

(* aligned n l: every chapter, recursively, holds exactly the records (uids) of its logbook, in the
   same order, and has received their scalar fields; chapter names are distinct; all uids < n *)
Inductive aligned (n : nat) : lb -> Prop :=
| Aligned rs bf cs h g :
    NoDup (map fst cs) ->
    (forall u, In u (map fst rs) -> (u < n)%nat) ->
    Forall (fun kc => aligned n (snd kc) /\ ids (snd kc) = map fst rs /\ flows rs (recs (snd kc))) cs ->
    aligned n (LB rs bf cs h g).

Lemma aligned_new n : aligned n new_lb.
Proof. constructor; [constructor|intros u []|constructor]. Qed.

Lemma aligned_mono n m l : aligned n l -> (n <= m)%nat -> aligned m l.
Proof.
  intros H Hle. induction l as [rs bf cs h g IH] using lb_ind'.
  inversion H as [? ? ? ? ? ND Hlt F]; subst. constructor; auto.
  - intros u Hu. specialize (Hlt u Hu). lia.
  - rewrite Forall_forall in *. intros kc Hkc. destruct (F kc Hkc) as (A & B & C). auto.
Qed.

Lemma aligned_chapter n l k c :
  aligned n l -> In (k, c) (chs l) -> aligned n c /\ ids c = ids l /\ flows (recs l) (recs c).
Proof.
  intros H Hin. inversion H as [? ? ? ? ? ND Hlt F]; subst. rewrite Forall_forall in F.
  apply (F (k, c)). exact Hin.
Qed.

(* ---- scalar fields ---- *)
Lemma scalars_names_In k d : In k (map fst (scalars d)) -> In k (map fst d).
Proof.
  induction d as [|[k0 [z|d0]] r IH]; cbn; auto. intros [->|H]; auto.
Qed.

Lemma scalars_NoDup d : NoDup (map fst d) -> NoDup (map fst (scalars d)).
Proof.
  induction d as [|[k0 [z|d0]] r IH]; cbn; intro ND; auto; inversion ND; subst; auto.
  constructor; auto. intro H. apply scalars_names_In in H. auto.
Qed.

Lemma lookup_scalars d k :
  NoDup (map fst d) ->
  lookup k (scalars d) = match lookup k d with Some (VInt z) => Some z | _ => None end.
Proof.
  induction d as [|[k0 [z|d0]] r IH]; cbn; intro ND; auto; inversion ND as [|? ? N ND']; subst.
  - destruct (k =? k0); auto.
  - destruct (k =? k0) eqn:E; auto. assert (k = k0) by lia. subst.
    apply lookup_None. intro H. apply scalars_names_In in H. auto.
Qed.

Lemma lookup_update {V} (d u : list (name * V)) k :
  NoDup (map fst u) ->
  lookup k (dict_update d u) = match lookup k u with Some v => Some v | None => lookup k d end.
Proof.
  unfold dict_update. revert d; induction u as [|[k0 v0] r IH]; intros d ND; cbn; auto.
  inversion ND as [|? ? N ND']; subst. rewrite IH by auto.
  destruct (k =? k0) eqn:E.
  - assert (k = k0) by lia. subst.
    assert (lookup k0 r = None) as -> by (now apply lookup_None). apply lookup_dict_set_eq.
  - destruct (lookup k r); auto. apply lookup_dict_set_neq. lia.
Qed.

Lemma update_NoDup {V} (d u : list (name * V)) : NoDup (map fst d) -> NoDup (map fst (dict_update d u)).
Proof.
  unfold dict_update. revert d; induction u as [|[k0 v0] r IH]; intros d ND; cbn; auto.
  apply IH. now apply dict_set_NoDup.
Qed.

Lemma inject_names e : map fst (inject e) = map fst e.
Proof. unfold inject. rewrite map_map. reflexivity. Qed.

Lemma lookup_inject e k : lookup k (inject e) = option_map VInt (lookup k e).
Proof. induction e as [|[k0 z] r IH]; cbn; auto. destruct (k =? k0); auto. Qed.

(* the entry a chapter receives: the record's scalar fields win, then the dictionary's own *)
Lemma lookup_chapter_entry d e k :
  NoDup (map fst d) -> NoDup (map fst e) ->
  lookup k (scalars (dict_update d (inject e))) =
  match lookup k e with
  | Some z => Some z
  | None => match lookup k d with Some (VInt z) => Some z | _ => None end
  end.
Proof.
  intros NDd NDe. rewrite lookup_scalars by (now apply update_NoDup).
  rewrite lookup_update by (now rewrite inject_names). rewrite lookup_inject.
  destruct (lookup k e); reflexivity.
Qed.

Lemma tree_of_names l : map fst (let 'Sh s := tree_of l in s) = map fst (chs l).
Proof. destruct l; cbn. rewrite map_map. reflexivity. Qed.

(* ---- record keeps a uniformly fed logbook aligned ---- *)
Lemma lb_record_inv fuel uid infos l l' :
  lb_record fuel uid infos l = Some l' ->
  exists f cs', fuel = S f /\
    record_loop (fun (d : dict) (c : lb) => lb_record f uid (dict_update d (inject (scalars infos))) c) infos (chs l) = Some cs' /\
    l' = LB (recs l ++ [(uid, scalars infos)]) (buff l) cs' (hdr l) (logh l).
Proof.
  destruct fuel as [|f]; [discriminate|]. cbn [lb_record].
  destruct (record_loop _ infos (chs l)) as [cs'|] eqn:E; [|discriminate].
  intro H; injection H as <-. eauto.
Qed.

Lemma record_aligned : forall fuel uid infos l s,
  (ddepth infos < fuel)%nat -> has_shape infos s -> shaped l s -> aligned uid l ->
  exists l', lb_record fuel uid infos l = Some l' /\
    shape_eqv (tree_of l') s /\ aligned (S uid) l' /\
    recs l' = recs l ++ [(uid, scalars infos)] /\ buff l' = buff l /\ hdr l' = hdr l /\ logh l' = logh l.
Proof.
  induction fuel as [|f IH]; intros uid infos l s Hf HS Hsh Hal; [lia|].
  destruct (lb_record_total (S f) uid infos l Hf) as (l' & E & Hrecs & Hbuff & Hhdr & Hlogh).
  exists l'. split; [exact E|].
  apply lb_record_inv in E as (f' & cs' & Ef & EL & ->). injection Ef as <-.
  inversion HS as [? sub NDi NDs Hkeys Hsub]; subst.
  destruct l as [rs bf cs h g]. cbn [recs buff chs hdr logh] in *.
  inversion Hal as [? ? ? ? ? NDc Hlt Fall]; subst.
  rewrite Forall_forall in Fall.
  destruct (record_loop_spec _ _ _ _ NDi EL) as (L & I & D).
  set (A := scalars infos) in *.
  assert (NDA : NoDup (map fst A)) by (now apply scalars_NoDup).
  (* every chapter to be fed is, before the call, aligned with the logbook and of the right shape *)
  assert (Pre : forall k y, In (k, y) sub ->
            let c0 := chapter_of k cs in
            shaped c0 y /\ aligned uid c0 /\ ids c0 = map fst rs /\ flows rs (recs c0)).
  { intros k y Hy c0. destruct Hsh as [[Hr Hc]|Heq].
    - cbn in Hr, Hc. subst rs cs. subst c0. unfold chapter_of. cbn [lookup].
      split; [left; split; reflexivity|]. split; [apply aligned_new|]. split; [reflexivity|]. intros u e e' [].
    - inversion Heq as [a b NDa NDb Hn Hrec]; subst.
      assert (Hk : In k (map fst cs)).
      { specialize (Hn k). rewrite map_map in Hn. cbn in Hn. apply Hn. apply (in_map fst) in Hy. exact Hy. }
      destruct (lookup k cs) as [c|] eqn:El; [|apply lookup_None in El; tauto].
      subst c0. unfold chapter_of. rewrite El. apply lookup_Some_In in El.
      destruct (Fall _ El) as (Ha & Hi & Hf'). cbn in Ha, Hi, Hf'.
      repeat split; auto. right. apply (Hrec k); auto.
      apply in_map_iff. exists (k, c). split; auto. }
  (* what every chapter is after the call *)
  assert (Post : forall k c', In (k, c') cs' ->
            exists y d, In (k, y) sub /\ In (k, VDict d) infos /\
              shape_eqv (tree_of c') y /\ aligned (S uid) c' /\
              recs c' = recs (chapter_of k cs) ++ [(uid, scalars (dict_update d (inject A)))]).
  { intros k c' Hin.
    assert (Hk : In k (map fst sub)).
    { apply (in_map fst) in Hin. cbn in Hin. apply I in Hin as [Hin|Hin]; [|now apply Hkeys].
      destruct Hsh as [[Hr Hc]|Heq]; [cbn in Hc; subst cs; destruct Hin|].
      inversion Heq as [a b NDa NDb Hn Hrec]; subst. apply Hn. rewrite map_map. exact Hin. }
    apply in_map_iff in Hk as ([k' y] & Ek & Hy). cbn in Ek. subst k'.
    assert (Hd : exists d, In (k, VDict d) infos) by (apply Hkeys; apply (in_map fst) in Hy; exact Hy).
    destruct Hd as [d Hd]. exists y, d. split; auto. split; auto.
    assert (El : lookup k cs' = Some c') by (apply In_lookup; auto).
    rewrite L in El. rewrite (In_lookup _ _ _ NDi Hd) in El.
    destruct (Pre k y Hy) as (P1 & P2 & P3 & P4).
    destruct (IH uid (dict_update d (inject A)) (chapter_of k cs) y) as (c'' & Ec & Q1 & Q2 & Q3 & _); auto.
    { pose proof (sub_depth k d A infos Hd). lia. }
    { eapply Hsub; eauto. }
    rewrite Ec in El. injection El as ->. auto. }
  split; [|split; [|repeat split; auto]].
  - (* shape *)
    cbn [tree_of]. constructor; auto.
    + rewrite map_map. cbn. auto.
    + intro k. rewrite map_map. cbn. rewrite I. rewrite Hkeys. split.
      * intros [H|H]; auto. destruct Hsh as [[Hr Hc]|Heq]; [cbn in Hc; subst cs; destruct H|].
        inversion Heq as [a b NDa NDb Hn Hrec]; subst. apply Hkeys. apply Hn. rewrite map_map. exact H.
      * auto.
    + intros k x y Hx Hy. apply in_map_iff in Hx as ([k' c'] & Ex & Hc'). cbn in Ex. injection Ex as -> <-.
      destruct (Post _ _ Hc') as (y' & d & Hy' & _ & Q & _).
      assert (y' = y) as <-; auto.
      apply (In_lookup _ _ _ NDs) in Hy, Hy'. congruence.
  - (* alignment *)
    constructor; auto.
    + intros u Hu. rewrite map_app in Hu. apply in_app_or in Hu as [Hu|[<-|[]]]; [|cbn; lia].
      specialize (Hlt u Hu). lia.
    + apply Forall_forall. intros [k c'] Hin. cbn [snd].
      destruct (Post _ _ Hin) as (y & d & Hy & Hd & Q1 & Q2 & Q3).
      destruct (Pre k y Hy) as (P1 & P2 & P3 & P4).
      split; auto. split.
      * unfold ids in *. rewrite Q3, !map_app, P3. reflexivity.
      * (* the scalar fields flow into the chapter *)
        rewrite Q3. intros u e e' Hu Hu' kk z Hl.
        apply in_app_or in Hu as [Hu|[Hu|[]]]; apply in_app_or in Hu' as [Hu'|[Hu'|[]]].
        -- eapply P4; eauto.
        -- injection Hu' as <- <-. apply (in_map fst) in Hu. apply Hlt in Hu. cbn in Hu. lia.
        -- injection Hu as <- <-. apply (in_map fst) in Hu'. fold (ids (chapter_of k cs)) in Hu'.
           rewrite P3 in Hu'. apply Hlt in Hu'. cbn in Hu'. lia.
        -- injection Hu as _ <-. injection Hu' as _ <-.
           assert (NDd : NoDup (map fst d)).
           { (* the effective dictionary is a dict, hence so is d's key list up to the merged fields *)
             specialize (Hsub k d y Hd Hy). inversion Hsub as [? ? NDeff _ _ _]; subst.
             clear - NDeff. revert NDeff. generalize (inject A). intros u. unfold dict_update.
             revert d. induction u as [|[k0 v0] r IHu]; intros d0 H; cbn in H; auto.
             apply IHu in H. rewrite dict_set_names in H. destruct (existsb _ _); auto.
             apply NoDup_remove_1 with (l' := []) in H. now rewrite app_nil_r in H. }
           rewrite lookup_chapter_entry by auto. now rewrite Hl.
Qed.

(* ------------------------------------------------------------------------- *)
(* pop / __delitem__                                                           *)
(* ------------------------------------------------------------------------- *)
Lemma lb_pop_out_of_range i l : py_get (recs l) i = None -> lb_pop i l = (l, Err IndexError).
Proof. destruct l as [rs bf cs h g]; cbn. intros ->. reflexivity. Qed.

(* the top-level list, whatever the chapters do *)
Lemma lb_pop_top i l :
  recs (fst (lb_pop i l)) =
  match py_get (recs l) i with
  | Some _ => remove_nth (Z.to_nat (norm_index i (zlen (recs l)))) (recs l)
  | None => recs l
  end.
Proof.
  destruct l as [rs bf cs h g]; cbn [lb_pop recs]. destruct (py_get rs i); [|reflexivity].
  destruct (pop_chapters _ cs). reflexivity.
Qed.

Lemma pop_chapters_ok f cs :
  Forall (fun kc => exists it, snd (f (snd kc)) = Ok it) cs ->
  pop_chapters f cs = (map (fun kc => (fst kc, fst (f (snd kc)))) cs, None).
Proof.
  induction 1 as [|[k c] r (it & E) F IH]; cbn; auto.
  cbn in E. destruct (f c) as [c' x]. cbn in E. subst x. rewrite IH. reflexivity.
Qed.

Lemma zlen_map {A B} (f : A -> B) l : zlen (map f l) = zlen l.
Proof. unfold zlen. now rewrite map_length. Qed.

Lemma lb_pop_aligned n : forall l, aligned n l -> forall i item,
  py_get (recs l) i = Some item ->
  let J := norm_index i (zlen (recs l)) in
  exists l', lb_pop i l = (l', Ok item) /\ aligned n l' /\
    recs l' = remove_nth (Z.to_nat J) (recs l) /\
    buff l' = (if J <? buff l then buff l - 1 else buff l) /\
    hdr l' = hdr l /\ logh l' = logh l /\ tree_of l' = tree_of l.
Proof.
  induction l as [rs bf cs h g IH] using lb_ind'. intros Hal i item Hget J.
  cbn [recs buff hdr logh] in *. cbn [lb_pop]. rewrite Hget.
  destruct (py_get_some _ _ _ Hget) as (Hr & HJ & Hnth). fold J in HJ, Hnth. fold J.
  set (rs' := remove_nth (Z.to_nat J) rs).
  assert (Hlen : zlen rs' = zlen rs - 1).
  { unfold zlen, rs'. rewrite remove_nth_length; unfold zlen in *; lia. }
  assert (Hidx : (if i <? 0 then i + (zlen rs' + 1) else i) = J).
  { unfold J, norm_index. destruct (i <? 0); lia. }
  rewrite Hidx.
  inversion Hal as [? ? ? ? ? ND Hlt Fall]; subst.
  rewrite Forall_forall in IH, Fall.
  (* every chapter pops the same position successfully *)
  assert (Hch : forall kc, In kc cs ->
            exists c' it, lb_pop J (snd kc) = (c', Ok it) /\ aligned n c' /\
              recs c' = remove_nth (Z.to_nat J) (recs (snd kc)) /\ tree_of c' = tree_of (snd kc)).
  { intros kc Hin. destruct (Fall _ Hin) as (Ha & Hi & Hf).
    assert (Hz : zlen (recs (snd kc)) = zlen rs).
    { unfold ids in Hi. apply (f_equal zlen) in Hi. now rewrite !zlen_map in Hi. }
    destruct (py_get_in_range (recs (snd kc)) J) as [it Hit]; [lia|].
    destruct (IH _ Hin Ha J it Hit) as (c' & E & A1 & A2 & _ & _ & _ & A3).
    exists c', it. rewrite Hz in A2. unfold norm_index in A2.
    replace (J <? 0) with false in A2 by lia. auto. }
  rewrite pop_chapters_ok.
  2:{ apply Forall_forall. intros kc Hin. destruct (Hch _ Hin) as (c' & it & E & _). rewrite E. cbn. eauto. }
  eexists. split; [reflexivity|]. cbn [recs buff hdr logh tree_of].
  split; [|split; [reflexivity|split; [reflexivity|split; [reflexivity|split; [reflexivity|]]]]].
  - (* aligned *)
    constructor.
    + rewrite map_map. cbn. auto.
    + intros u Hu. apply Hlt. fold rs' in Hu. unfold rs' in Hu. rewrite remove_nth_map in Hu.
      eapply remove_nth_In; eauto.
    + apply Forall_forall. intros kc' Hin'. apply in_map_iff in Hin' as (kc & <- & Hin). cbn [snd].
      destruct (Hch _ Hin) as (c' & it & E & A1 & A2 & A3). rewrite E. cbn [fst].
      destruct (Fall _ Hin) as (Ha & Hi & Hf).
      split; auto. split.
      * unfold ids in *. rewrite A2. fold rs'. unfold rs'. rewrite !remove_nth_map. now rewrite Hi.
      * intros u e e' Hu Hu'. rewrite A2 in Hu'. eapply Hf; eapply remove_nth_In; eauto.
  - (* same chapter names *)
    f_equal. rewrite map_map. apply map_ext_in. intros kc Hin. cbn.
    destruct (Hch _ Hin) as (c' & it & E & _ & _ & A3). rewrite E. cbn. now rewrite A3.
Qed.

(* popping a strictly descending list of valid positions *)
Lemma pop_all_aligned n : forall ps l,
  aligned n l -> StronglySorted Z.gt ps -> (forall p, In p ps -> 0 <= p < zlen (recs l)) ->
  exists l', pop_all ps l = (l', None) /\ aligned n l' /\
    recs l' = fold_left (fun acc p => remove_nth (Z.to_nat p) acc) ps (recs l) /\
    hdr l' = hdr l /\ logh l' = logh l /\ tree_of l' = tree_of l.
Proof.
  induction ps as [|p ps IH]; intros l Hal Hs Hr; cbn [pop_all fold_left].
  - eexists; repeat split; auto.
  - inversion Hs as [|? ? Hs' F]; subst. rewrite Forall_forall in F.
    assert (Hp : 0 <= p < zlen (recs l)) by (apply Hr; now left).
    destruct (py_get_in_range (recs l) p) as [item Hit]; [lia|].
    destruct (lb_pop_aligned n l Hal p item Hit) as (l1 & E & A1 & A2 & A3 & A4 & A5 & A6).
    rewrite E. unfold norm_index in A2. replace (p <? 0) with false in A2 by lia.
    destruct (IH l1 A1 Hs') as (l' & E' & B1 & B2 & B3 & B4 & B5).
    { intros q Hq. specialize (F _ Hq). assert (0 <= q < zlen (recs l)) by (apply Hr; now right).
      rewrite A2. unfold zlen in *. rewrite remove_nth_length by lia. lia. }
    exists l'. rewrite E'. repeat split; auto; try congruence.
Qed.

(* del log[start:stop:step] on an aligned logbook removes exactly the addressed positions *)
Lemma lb_delslice_aligned n l a b st :
  aligned n l -> match st with Some 0 => False | _ => True end ->
  let step := match st with None => 1 | Some s => s end in
  exists l', lb_delslice a b st l = (l', Ok tt) /\ aligned n l' /\
    recs l' = del_positions (slice_idx a b step (zlen (recs l))) (recs l) /\
    hdr l' = hdr l /\ logh l' = logh l /\ tree_of l' = tree_of l.
Proof.
  intros Hal Hst step. unfold lb_delslice. fold step.
  assert (Hne : step <> 0) by (subst step; destruct st as [[| |]|]; try lia; tauto).
  replace (step =? 0) with false by lia.
  set (ps := slice_idx a b step (zlen (recs l))).
  assert (Hb : forall p, In p ps -> 0 <= p < zlen (recs l)).
  { intros p Hp. eapply slice_idx_bounds; eauto. unfold zlen; lia. }
  destruct (pop_all_aligned n (sort_desc ps) l Hal) as (l' & E & A1 & A2 & A3 & A4 & A5).
  { apply sort_desc_strict. now apply slice_idx_NoDup. }
  { intros p Hp. apply Hb. now apply sort_desc_In. }
  rewrite E. exists l'. repeat split; auto.
  rewrite A2. rewrite pop_desc_del_positions.
  - unfold del_positions. apply drop_pos_ext. intros j _. apply sort_desc_In.
  - apply sort_desc_strict. now apply slice_idx_NoDup.
  - intros p Hp. apply Hb. now apply sort_desc_In.
Qed.

Lemma lb_delslice_step0 a b l : lb_delslice a b (Some 0) l = (l, Err ValueError).
Proof. reflexivity. Qed.

(* ------------------------------------------------------------------------- *)
(* stream / __str__                                                            *)
(* ------------------------------------------------------------------------- *)
Lemma skipn_nth_error {A} (l : list A) a x : nth_error l a = Some x -> skipn a l = x :: skipn (S a) l.
Proof.
  revert a; induction l as [|y r IH]; intros [|a] H; cbn in *; try discriminate.
  - now injection H as ->.
  - now apply IH.
Qed.

Lemma flat_nth_seq {A} (l : list A) n : forall a, (a + n = length l)%nat ->
  flat_map (fun i => match nth_error l i with Some x => [x] | None => [] end) (seq a n) = skipn a l.
Proof.
  induction n as [|n IH]; intros a H; cbn.
  - rewrite skipn_all2; auto. lia.
  - destruct (nth_error l a) eqn:E.
    + rewrite IH by lia. cbn. symmetry. now apply skipn_nth_error.
    + apply nth_error_None in E. lia.
Qed.

Lemma flat_map_map {A B C} (f : B -> list C) (g : A -> B) l :
  flat_map f (map g l) = flat_map (fun x => f (g x)) l.
Proof. induction l; cbn; auto. now rewrite IHl. Qed.

Lemma range_as_seq b n : 0 <= b -> forall a,
  map (fun i => b + Z.of_nat i * 1) (seq a n) = map Z.of_nat (seq (Z.to_nat b + a) n).
Proof.
  intro Hb. induction n as [|n IH]; intro a; cbn; auto.
  rewrite IH. f_equal; [lia|]. f_equal. f_equal. lia.
Qed.

(* self[startindex:] *)
Lemma py_slice_from {A} (l : list A) b :
  0 <= b <= zlen l -> py_slice l (Some b) None 1 = skipn (Z.to_nat b) l.
Proof.
  intro Hb. unfold py_slice, slice_idx, slice_adjust. cbn.
  replace (b <? 0) with false by lia. replace (Z.min b (zlen l)) with b by lia.
  unfold py_range3, range_count. cbn.
  assert (Hc : Z.to_nat (if b <? zlen l then (zlen l - b - 1) / 1 + 1 else 0) = (length l - Z.to_nat b)%nat).
  { destruct (b <? zlen l) eqn:E; unfold zlen in *; [rewrite Z.div_1_r|]; lia. }
  rewrite Hc. rewrite range_as_seq by lia. rewrite !flat_map_map.
  rewrite Nat.add_0_r.
  erewrite flat_map_ext; [apply flat_nth_seq; unfold zlen in *; lia|].
  intro i. cbn. now rewrite Nat2Z.id.
Qed.

Lemma first_err_none f cs : (forall kc, In kc cs -> f (snd kc) = None) -> first_err f cs = None.
Proof.
  induction cs as [|[k c] r IH]; cbn; auto. intro H.
  pose proof (H (k, c) (or_introl eq_refl)) as Hc. cbn in Hc. rewrite Hc. apply IH. intros; apply H; now right.
Qed.

Lemma aligned_len_aligned n l : aligned n l -> len_aligned l = true.
Proof.
  induction l as [rs bf cs h g IH] using lb_ind'. intro Hal.
  inversion Hal as [? ? ? ? ? ND Hlt Fall]; subst. rewrite Forall_forall in *.
  cbn. apply forallb_forall. intros kc Hin. destruct (Fall _ Hin) as (Ha & Hi & _).
  rewrite (IH _ Hin Ha). unfold ids in Hi. apply (f_equal (@length _)) in Hi. rewrite !map_length in Hi.
  rewrite Hi. now rewrite Nat.eqb_refl.
Qed.

Lemma txt_err_nonempty n start l : aligned n l -> recs l <> [] -> txt_err start l = None.
Proof.
  induction l as [rs bf cs h g IH] using lb_ind'. intros Hal Hne. cbn [recs] in Hne.
  inversion Hal as [? ? ? ? ? ND Hlt Fall]; subst. rewrite Forall_forall in *.
  cbn [txt_err]. destruct rs as [|r0 rs]; [congruence|]. cbn [isnil].
  rewrite !andb_false_r. rewrite first_err_none; auto.
  intros kc Hin. destruct (Fall _ Hin) as (Ha & Hi & _). apply IH; auto.
  intro E. unfold ids in Hi. rewrite E in Hi. discriminate.
Qed.

(* on an empty logbook a header block is never produced: __txt__ raises instead *)
Lemma txt_err_empty_header start l :
  recs l = [] -> txt_err start l = None -> (start =? 0) && logh l = false.
Proof.
  destruct l as [rs bf cs h g]; cbn [recs logh txt_err]. intros ->. cbn [isnil].
  rewrite !andb_true_r. destruct (negb (truthy h)); [discriminate|].
  destruct (first_err _ cs); [discriminate|]. destruct ((start =? 0) && g); [discriminate|auto].
Qed.

(* what a text call returns when it returns *)
Lemma lb_text_ok start l d hf :
  0 <= start <= zlen (recs l) -> lb_text start l = Ok (d, hf) ->
  d = skipn (Z.to_nat start) (ids l) /\ hf = (start =? 0) && logh l /\ (hf = true -> recs l <> []).
Proof.
  intros Hs. unfold lb_text. destruct (len_aligned l); cbn [negb]; [|discriminate].
  destruct (txt_err start l) eqn:E; [discriminate|]. intro H; injection H as <- <-.
  rewrite py_slice_from by auto. unfold ids. rewrite skipn_map. repeat split.
  intros Hh Hnil. rewrite (txt_err_empty_header _ _ Hnil E) in Hh. discriminate.
Qed.

(* on an aligned, non-empty logbook it does return: nothing is lost *)
Lemma lb_text_aligned n start l :
  aligned n l -> recs l <> [] -> 0 <= start <= zlen (recs l) ->
  lb_text start l = Ok (skipn (Z.to_nat start) (ids l), (start =? 0) && logh l).
Proof.
  intros Hal Hne Hs. unfold lb_text. rewrite (aligned_len_aligned _ _ Hal). cbn [negb].
  rewrite (txt_err_nonempty _ _ _ Hal Hne). rewrite py_slice_from by auto.
  unfold ids. now rewrite skipn_map.
Qed.

(* when it raises on an aligned logbook there was nothing to deliver *)
Lemma lb_text_err_empty n start l e :
  aligned n l -> 0 <= start <= zlen (recs l) -> lb_text start l = Err e -> recs l = [].
Proof.
  intros Hal Hs H. destruct (recs l) eqn:E; auto.
  rewrite (lb_text_aligned n) in H; auto; [discriminate|congruence|now rewrite E].
Qed.

(* ------------------------------------------------------------------------- *)
(* the streamed prefix: records 0..buffindex-1 are exactly the delivered,       *)
(* not yet deleted ones                                                        *)
(* ------------------------------------------------------------------------- *)
Definition sinv (D : list nat) (idl : list nat) (b : Z) : Prop :=
  NoDup D /\ 0 <= b <= zlen idl /\
  forall u, In u (firstn (Z.to_nat b) idl) <-> In u D /\ In u idl.

Lemma NoDup_app_disjoint {A} (a b : list A) x : NoDup (a ++ b) -> In x a -> In x b -> False.
Proof.
  induction a as [|y r IH]; cbn; [tauto|]. intros ND [->|Ha] Hb; inversion ND; subst.
  - apply H1. apply in_or_app. auto.
  - eapply IH; eauto.
Qed.

Lemma NoDup_app_r {A} (a b : list A) : NoDup (a ++ b) -> NoDup b.
Proof. induction a as [|y r IH]; cbn; auto. intro H; inversion H; auto. Qed.

Lemma NoDup_app_l {A} (a b : list A) : NoDup (a ++ b) -> NoDup a.
Proof.
  induction a as [|y r IH]; cbn; [constructor|]. intro H; inversion H; subst. constructor; auto.
  intro Hin. apply H2. apply in_or_app. auto.
Qed.

Lemma NoDup_app_intro {A} (a b : list A) :
  NoDup a -> NoDup b -> (forall x, In x a -> In x b -> False) -> NoDup (a ++ b).
Proof.
  induction a as [|y r IH]; cbn; auto. intros Na Nb H. inversion Na; subst. constructor.
  - intro Hin. apply in_app_or in Hin as [Hin|Hin]; auto. eapply H; eauto.
  - apply IH; auto. intros; eapply H; eauto.
Qed.

Lemma sinv_stream D idl b :
  NoDup idl -> sinv D idl b -> sinv (D ++ skipn (Z.to_nat b) idl) idl (zlen idl).
Proof.
  intros ND (NDD & Hb & Hiff). split; [|split; [unfold zlen; lia|]].
  - apply NoDup_app_intro; auto.
    + rewrite <- (firstn_skipn (Z.to_nat b) idl) in ND. apply NoDup_app_r in ND. exact ND.
    + intros x HD Hs. assert (Hi : In x idl) by (rewrite <- (firstn_skipn (Z.to_nat b) idl); apply in_or_app; auto).
      assert (Hf : In x (firstn (Z.to_nat b) idl)) by (apply Hiff; auto).
      rewrite <- (firstn_skipn (Z.to_nat b) idl) in ND. eapply NoDup_app_disjoint; eauto.
  - intro u. unfold zlen. rewrite Nat2Z.id, firstn_all. split; [|tauto]. intro Hu. split; auto.
    rewrite <- (firstn_skipn (Z.to_nat b) idl) in Hu. apply in_or_app.
    apply in_app_or in Hu as [Hu|Hu]; auto. left. now apply Hiff.
Qed.

Lemma sinv_stream_empty D b : sinv D [] b -> sinv D [] 0.
Proof. intros (NDD & Hb & Hiff). split; auto. split; [cbn; lia|]. intro u. cbn. tauto. Qed.

Lemma sinv_pop D idl b J :
  NoDup idl -> 0 <= J < zlen idl -> sinv D idl b ->
  sinv D (remove_nth (Z.to_nat J) idl) (if J <? b then b - 1 else b).
Proof.
  intros ND HJ (NDD & Hb & Hiff).
  assert (Hlen : zlen (remove_nth (Z.to_nat J) idl) = zlen idl - 1).
  { unfold zlen in *. rewrite remove_nth_length; lia. }
  assert (HjL : (Z.to_nat J < length idl)%nat) by (unfold zlen in *; lia).
  split; auto. destruct (J <? b) eqn:E.
  - split; [lia|]. intro u.
    replace (Z.to_nat (b - 1)) with (Z.to_nat b - 1)%nat by lia.
    rewrite firstn_remove_nth_lt by lia.
    assert (NDf : NoDup (firstn (Z.to_nat b) idl)).
    { rewrite <- (firstn_skipn (Z.to_nat b) idl) in ND. now apply NoDup_app_l in ND. }
    rewrite (remove_nth_In_iff _ _ 0%nat _ NDf) by (rewrite firstn_length; unfold zlen in *; lia).
    rewrite nth_firstn_lt by lia. rewrite Hiff.
    rewrite (remove_nth_In_iff _ _ 0%nat _ ND HjL). tauto.
  - split; [lia|]. intro u. rewrite firstn_remove_nth_ge by lia. rewrite Hiff.
    rewrite (remove_nth_In_iff _ _ 0%nat _ ND HjL). split; [|tauto].
    intros (HD & Hi). repeat split; auto. intros ->.
    (* the J-th record is behind the streamed prefix *)
    assert (Hf : In (nth (Z.to_nat J) idl 0%nat) (firstn (Z.to_nat b) idl)) by (apply Hiff; auto).
    assert (Hs : In (nth (Z.to_nat J) idl 0%nat) (skipn (Z.to_nat b) idl)).
    { replace (nth (Z.to_nat J) idl 0%nat) with (nth (Z.to_nat J - Z.to_nat b) (skipn (Z.to_nat b) idl) 0%nat).
      - apply nth_In. rewrite skipn_length. lia.
      - rewrite <- (firstn_skipn (Z.to_nat b) idl) at 2. rewrite app_nth2; rewrite firstn_length; [f_equal|]; lia. }
    rewrite <- (firstn_skipn (Z.to_nat b) idl) in ND. eapply NoDup_app_disjoint; eauto.
Qed.

Lemma sinv_record D idl b uid :
  (forall u, In u D -> (u < uid)%nat) -> sinv D idl b -> sinv D (idl ++ [uid]) b.
Proof.
  intros HD (NDD & Hb & Hiff). split; auto. split; [unfold zlen in *; rewrite app_length; cbn; lia|].
  intro u. rewrite firstn_app. replace (Z.to_nat b - length idl)%nat with 0%nat by (unfold zlen in *; lia).
  cbn. rewrite app_nil_r, Hiff. rewrite in_app_iff. cbn. split; [tauto|].
  intros (Hu & [Hi|[<-|[]]]); auto. apply HD in Hu. lia.
Qed.

(* ------------------------------------------------------------------------- *)
(* operation histories                                                         *)
(* ------------------------------------------------------------------------- *)
(* the dictionaries entered by the record operations of a history, in order *)
Definition recorded (h : list op) : list dict :=
  flat_map (fun o => match o with ORecord i => [i] | _ => [] end) h.
(* what one stream call delivered / whether it contained the header *)
Definition delivered_of (o : op) (x : out) : list nat :=
  match o, x with OStream, OText d _ => d | _, _ => [] end.
Definition header_of (o : op) (x : out) : nat :=
  match o, x with OStream, OText _ true => 1%nat | _, _ => 0%nat end.
(* concatenation of everything stream delivered / number of stream texts with a header *)
Fixpoint delivered (s : state) (h : list op) : list nat :=
  match h with
  | [] => []
  | o :: r => delivered_of o (snd (step s o)) ++ delivered (fst (step s o)) r
  end.
Fixpoint headers (s : state) (h : list op) : nat :=
  match h with
  | [] => 0%nat
  | o :: r => (header_of o (snd (step s o)) + headers (fst (step s o)) r)%nat
  end.

Lemma final_app s h1 h2 : final s (h1 ++ h2) = final (final s h1) h2.
Proof. unfold final. apply fold_left_app. Qed.
Lemma final_cons s o h : final s (o :: h) = final (fst (step s o)) h.
Proof. reflexivity. Qed.
Lemma delivered_app s h1 h2 : delivered s (h1 ++ h2) = delivered s h1 ++ delivered (final s h1) h2.
Proof. revert s; induction h1 as [|o r IH]; intro s; cbn; auto. rewrite IH, app_assoc. reflexivity. Qed.
Lemma headers_app s h1 h2 : headers s (h1 ++ h2) = (headers s h1 + headers (final s h1) h2)%nat.
Proof. revert s; induction h1 as [|o r IH]; intro s; cbn; auto. rewrite IH. unfold final. cbn. lia. Qed.
Lemma recorded_app h1 h2 : recorded (h1 ++ h2) = recorded h1 ++ recorded h2.
Proof. unfold recorded. apply flat_map_app. Qed.

Lemma zlen_ids l : zlen (ids l) = zlen (recs l).
Proof. unfold ids. apply zlen_map. Qed.

(* ---- the top-level list: holds for every history, no hypothesis ---- *)
Definition subrecs (a b : list (nat * entry)) : Prop :=
  (forall x, In x a -> In x b) /\ (incr (map fst b) -> incr (map fst a)).

Lemma subrecs_refl a : subrecs a a.
Proof. split; auto. Qed.
Lemma subrecs_trans a b c : subrecs a b -> subrecs b c -> subrecs a c.
Proof. intros [A1 A2] [B1 B2]. split; auto. Qed.
Lemma subrecs_remove k a : subrecs (remove_nth k a) a.
Proof.
  split; [intros x; apply remove_nth_In|]. rewrite remove_nth_map. apply incr_remove_nth.
Qed.

Lemma lb_pop_sub i l : subrecs (recs (fst (lb_pop i l))) (recs l).
Proof. rewrite lb_pop_top. destruct (py_get (recs l) i); [apply subrecs_remove|apply subrecs_refl]. Qed.

Lemma pop_all_sub ps : forall l, subrecs (recs (fst (pop_all ps l))) (recs l).
Proof.
  induction ps as [|p ps IH]; intro l; cbn; [apply subrecs_refl|].
  pose proof (lb_pop_sub p l) as H. destruct (lb_pop p l) as [l1 [it|e]]; cbn in *; auto.
  eapply subrecs_trans; eauto.
Qed.

Lemma lb_delslice_sub a b st l : subrecs (recs (fst (lb_delslice a b st l))) (recs l).
Proof.
  unfold lb_delslice. destruct (_ =? 0); [apply subrecs_refl|].
  pose proof (pop_all_sub (sort_desc (slice_idx a b match st with Some s => s | None => 1 end (zlen (recs l)))) l) as H.
  destruct (pop_all _ l). exact H.
Qed.

Record inv1 (s : state) (R : list dict) : Prop := {
  i1_next : st_next s = length R;
  i1_incr : incr (ids (st_lb s));
  i1_lt : forall u, In u (ids (st_lb s)) -> (u < st_next s)%nat;
  i1_content : forall u e, In (u, e) (recs (st_lb s)) ->
               exists infos, nth_error R u = Some infos /\ e = scalars infos }.

Lemma inv1_sub s R l' :
  inv1 s R -> subrecs (recs l') (recs (st_lb s)) -> inv1 (mkstate l' (st_next s)) R.
Proof.
  intros [A B C D] [S1 S2]. constructor; cbn; auto.
  - intros u Hu. apply C. unfold ids in *. apply in_map_iff in Hu as (x & <- & Hx). apply in_map. auto.
Qed.

Lemma step_inv1 s R o : inv1 s R -> inv1 (fst (step s o)) (R ++ recorded [o]).
Proof.
  intro I. destruct s as [l n]. destruct o as [infos|pth nms| | |i|i|a b c| |hd|g0]; cbn [recorded flat_map app]; rewrite ?app_nil_r.
  - (* record *)
    unfold step. cbn [st_lb st_next].
    destruct (lb_record_total (S (ddepth infos)) n infos l) as (l' & E & Q1 & _); [lia|].
    rewrite E. cbn [fst]. destruct I as [A B C D]. cbn in *. constructor; cbn.
    + rewrite app_length. cbn. lia.
    + unfold ids in *. rewrite Q1, map_app. cbn. apply incr_app_last; auto.
    + unfold ids in *. rewrite Q1, map_app. intros u Hu. apply in_app_or in Hu as [Hu|[<-|[]]]; [|cbn; lia].
      specialize (C u Hu). cbn. lia.
    + rewrite Q1. intros u e Hu. apply in_app_or in Hu as [Hu|[Hu|[]]].
      * destruct (D u e Hu) as (i0 & E1 & E2). exists i0. split; auto. rewrite nth_error_app1; auto.
        apply nth_error_Some. congruence.
      * injection Hu as <- <-. exists infos. split; auto. rewrite nth_error_app2 by lia.
        rewrite A, Nat.sub_diag. reflexivity.
  - (* select *) exact I.
  - (* stream *) unfold step. cbn. apply (inv1_sub _ _ _ I). cbn. destruct l; apply subrecs_refl.
  - (* print *) exact I.
  - (* pop *)
    unfold step. cbn [st_lb st_next]. pose proof (lb_pop_sub (match i with Some i => i | None => 0 end) l) as H.
    destruct (lb_pop _ l) as [l' r]. cbn [fst] in *. apply (inv1_sub _ _ _ I H).
  - (* delitem *)
    unfold step, lb_delitem. cbn [st_lb st_next]. pose proof (lb_pop_sub i l) as H.
    destruct (lb_pop i l) as [l' r]. cbn [fst] in *. apply (inv1_sub _ _ _ I H).
  - (* delslice *)
    unfold step. cbn [st_lb st_next]. pose proof (lb_delslice_sub a b c l) as H.
    destruct (lb_delslice a b c l) as [l' r]. cbn [fst] in *. apply (inv1_sub _ _ _ I H).
  - (* pickle *) exact I.
  - (* header *) unfold step. cbn. apply (inv1_sub _ _ _ I). destruct l; apply subrecs_refl.
  - unfold step. cbn. apply (inv1_sub _ _ _ I). destruct l; apply subrecs_refl.
Qed.

Lemma final_inv1 h : forall s R, inv1 s R -> inv1 (final s h) (R ++ recorded h).
Proof.
  induction h as [|o r IH]; intros s R I; cbn [recorded flat_map].
  - now rewrite app_nil_r.
  - rewrite final_cons. change (flat_map _ r) with (recorded r).
    replace (R ++ (match o with ORecord i => [i] | _ => [] end) ++ recorded r)
      with ((R ++ recorded [o]) ++ recorded r).
    + apply IH. now apply step_inv1.
    + cbn [recorded flat_map]. now rewrite app_nil_r, app_assoc.
Qed.

Lemma inv1_init : inv1 init_state [].
Proof. constructor; cbn; auto; [constructor|intros u []|intros u e []]. Qed.

(* ---- histories whose records all feed the same chapter tree ---- *)
Definition uniform (S : shape) (h : list op) : Prop :=
  forall infos, In (ORecord infos) h -> has_shape infos S.

Record inv2 (S : shape) (s : state) (D : list nat) : Prop := {
  i_al : aligned (st_next s) (st_lb s);
  i_sh : shaped (st_lb s) S;
  i_incr : incr (ids (st_lb s));
  i_sinv : sinv D (ids (st_lb s)) (buff (st_lb s));
  i_D : forall u, In u D -> (u < st_next s)%nat }.

Lemma aligned_ids_lt n l u : aligned n l -> In u (ids l) -> (u < n)%nat.
Proof. intros H Hu. inversion H; subst. auto. Qed.

Lemma aligned_fields n rs bf cs h g bf' h' g' :
  aligned n (LB rs bf cs h g) -> aligned n (LB rs bf' cs h' g').
Proof. intro H. inversion H; subst. now constructor. Qed.

Lemma shaped_fields S rs bf cs h g bf' h' g' :
  shaped (LB rs bf cs h g) S -> shaped (LB rs bf' cs h' g') S.
Proof. intros [[A B]|H]; [left; split; auto|right; exact H]. Qed.

Lemma shaped_pop S l l' item i :
  shaped l S -> py_get (recs l) i = Some item -> tree_of l' = tree_of l -> shaped l' S.
Proof.
  intros [[A B]|H] Hg Ht; [|right; now rewrite Ht].
  rewrite A in Hg. unfold py_get in Hg. cbn in Hg. destruct (i <? 0); cbn in Hg;
    destruct (_ || _) eqn:E; try discriminate; destruct (Z.to_nat _); discriminate.
Qed.

Ltac splits := repeat match goal with |- _ /\ _ => split end.

(* one successful pop keeps the whole invariant *)
Lemma pop_inv2 S n D l p :
  aligned n l -> shaped l S -> incr (ids l) -> sinv D (ids l) (buff l) ->
  - zlen (recs l) <= p < zlen (recs l) ->
  exists l' item, lb_pop p l = (l', Ok item) /\ py_get (recs l) p = Some item /\
    aligned n l' /\ shaped l' S /\ incr (ids l') /\ sinv D (ids l') (buff l') /\
    recs l' = remove_nth (Z.to_nat (norm_index p (zlen (recs l)))) (recs l) /\
    hdr l' = hdr l /\ logh l' = logh l /\ tree_of l' = tree_of l.
Proof.
  intros Hal Hsh Hin Hsi Hp.
  destruct (py_get_in_range (recs l) p Hp) as [item Hit].
  destruct (lb_pop_aligned n l Hal p item Hit) as (l' & E & A1 & A2 & A3 & A4 & A5 & A6).
  destruct (py_get_some _ _ _ Hit) as (_ & HJ & _).
  exists l', item. splits; auto.
  - eapply shaped_pop; eauto.
  - unfold ids. rewrite A2, remove_nth_map. now apply incr_remove_nth.
  - unfold ids. rewrite A2, remove_nth_map, A3. apply sinv_pop; auto.
    + now apply incr_NoDup.
    + now rewrite zlen_map.
Qed.

Lemma pop_all_inv2 S n D : forall ps l,
  aligned n l -> shaped l S -> incr (ids l) -> sinv D (ids l) (buff l) ->
  StronglySorted Z.gt ps -> (forall p, In p ps -> 0 <= p < zlen (recs l)) ->
  exists l', pop_all ps l = (l', None) /\
    aligned n l' /\ shaped l' S /\ incr (ids l') /\ sinv D (ids l') (buff l') /\
    recs l' = fold_left (fun acc p => remove_nth (Z.to_nat p) acc) ps (recs l) /\
    hdr l' = hdr l /\ logh l' = logh l.
Proof.
  induction ps as [|p ps IH]; intros l Hal Hsh Hin Hsi Hs Hr; cbn [pop_all fold_left].
  - eexists; splits; auto.
  - inversion Hs as [|? ? Hs' F]; subst. rewrite Forall_forall in F.
    assert (Hp : 0 <= p < zlen (recs l)) by (apply Hr; now left).
    destruct (pop_inv2 S n D l p Hal Hsh Hin Hsi) as (l1 & item & E & _ & A1 & A2 & A3 & A4 & A5 & A6 & A7 & _); [lia|].
    rewrite E. unfold norm_index in A5. replace (p <? 0) with false in A5 by lia.
    destruct (IH l1 A1 A2 A3 A4 Hs') as (l' & E' & B1 & B2 & B3 & B4 & B5 & B6 & B7).
    { intros q Hq. specialize (F _ Hq). assert (0 <= q < zlen (recs l)) by (apply Hr; now right).
      rewrite A5. unfold zlen in *. rewrite remove_nth_length by lia. lia. }
    exists l'. rewrite E'. splits; auto; congruence.
Qed.

Lemma delslice_inv2 S n D l a b st :
  aligned n l -> shaped l S -> incr (ids l) -> sinv D (ids l) (buff l) ->
  match st with Some 0 => False | _ => True end ->
  let step := match st with None => 1 | Some s => s end in
  exists l', lb_delslice a b st l = (l', Ok tt) /\
    aligned n l' /\ shaped l' S /\ incr (ids l') /\ sinv D (ids l') (buff l') /\
    recs l' = del_positions (slice_idx a b step (zlen (recs l))) (recs l) /\
    hdr l' = hdr l /\ logh l' = logh l.
Proof.
  intros Hal Hsh Hin Hsi Hst step. unfold lb_delslice. fold step.
  assert (Hne : step <> 0) by (subst step; destruct st as [[| |]|]; try lia; tauto).
  replace (step =? 0) with false by lia.
  set (ps := slice_idx a b step (zlen (recs l))).
  assert (Hb : forall p, In p ps -> 0 <= p < zlen (recs l)).
  { intros p Hp. eapply slice_idx_bounds; eauto. unfold zlen; lia. }
  destruct (pop_all_inv2 S n D (sort_desc ps) l Hal Hsh Hin Hsi) as (l' & E & A1 & A2 & A3 & A4 & A5 & A6 & A7).
  { apply sort_desc_strict. now apply slice_idx_NoDup. }
  { intros p Hp. apply Hb. now apply sort_desc_In. }
  rewrite E. exists l'. splits; auto.
  rewrite A5. rewrite pop_desc_del_positions.
  - unfold del_positions. apply drop_pos_ext. intros j _. apply sort_desc_In.
  - apply sort_desc_strict. now apply slice_idx_NoDup.
  - intros p Hp. apply Hb. now apply sort_desc_In.
Qed.

Lemma step_inv2 S s D o :
  (forall infos, o = ORecord infos -> has_shape infos S) ->
  inv2 S s D -> inv2 S (fst (step s o)) (D ++ delivered_of o (snd (step s o))).
Proof.
  intros HS I. destruct s as [l n]. destruct I as [Hal Hsh Hin Hsi HD]. cbn [st_lb st_next] in *.
  destruct o as [infos|pth nms| | |i|i|a b c| |hd|g0].
  - (* record *)
    unfold step. cbn [st_lb st_next].
    destruct (record_aligned (Datatypes.S (ddepth infos)) n infos l S) as (l' & E & Q1 & Q2 & Q3 & Q4 & Q5 & Q6); auto.
    rewrite E. cbn [fst snd delivered_of]. rewrite app_nil_r.
    assert (Hids : ids l' = ids l ++ [n]) by (unfold ids; now rewrite Q3, map_app).
    constructor; cbn [st_lb st_next]; auto.
    + now right.
    + rewrite Hids. apply incr_app_last; auto. intros y Hy. eapply aligned_ids_lt; eauto.
    + rewrite Hids, Q4. apply sinv_record; auto.
    + intros u Hu. specialize (HD u Hu). lia.
  - (* select *) cbn. rewrite app_nil_r. now constructor.
  - (* stream *)
    unfold step. cbn [st_lb st_next lb_stream fst snd].
    destruct l as [rs bf cs h g]. cbn [recs buff chs hdr logh] in *.
    assert (Hb : 0 <= bf <= zlen rs).
    { destruct Hsi as (_ & Hb & _). rewrite zlen_ids in Hb. exact Hb. }
    assert (Hcore : sinv (D ++ delivered_of OStream (text_out (lb_text bf (LB rs bf cs h g))))
                         (ids (LB rs bf cs h g)) (zlen rs) /\
                    forall u, In u (delivered_of OStream (text_out (lb_text bf (LB rs bf cs h g)))) -> (u < n)%nat).
    { destruct (lb_text bf (LB rs bf cs h g)) as [[d hf]|e] eqn:E; cbn [text_out delivered_of].
      - destruct (lb_text_ok bf (LB rs bf cs h g) d hf Hb E) as (-> & _ & _). split.
        + replace (zlen rs) with (zlen (ids (LB rs bf cs h g))) by (apply zlen_ids).
          apply sinv_stream; auto. now apply incr_NoDup.
        + intros u Hu. eapply aligned_ids_lt; eauto.
          rewrite <- (firstn_skipn (Z.to_nat bf)). apply in_or_app. now right.
      - rewrite app_nil_r. pose proof (lb_text_err_empty n bf (LB rs bf cs h g) e Hal Hb E) as Hnil. cbn in Hnil. subst rs.
        split; [|intros u []]. cbn. eapply sinv_stream_empty; eauto. }
    destruct Hcore as (Hs & Hlt).
    constructor; cbn [st_lb st_next recs buff]; auto.
    + exact (aligned_fields n rs bf cs h g (zlen rs) h g Hal).
    + intros u Hu. apply in_app_or in Hu as [Hu|Hu]; auto.
  - (* print *) cbn [step fst snd st_lb]. unfold delivered_of. rewrite app_nil_r. now constructor.
  - (* pop *)
    unfold step. cbn [st_lb st_next]. set (p := match i with Some i => i | None => 0 end).
    destruct (py_get (recs l) p) as [item|] eqn:Eg.
    + destruct (py_get_some _ _ _ Eg) as (Hp & _).
      destruct (pop_inv2 S n D l p Hal Hsh Hin Hsi Hp) as (l' & it & E & _ & A1 & A2 & A3 & A4 & _).
      rewrite E. cbn [fst snd]. destruct it. cbn [delivered_of]. rewrite app_nil_r. now constructor.
    + rewrite (lb_pop_out_of_range _ _ Eg). cbn [fst snd delivered_of]. rewrite app_nil_r. now constructor.
  - (* delitem *)
    unfold step, lb_delitem. cbn [st_lb st_next].
    destruct (py_get (recs l) i) as [item|] eqn:Eg.
    + destruct (py_get_some _ _ _ Eg) as (Hp & _).
      destruct (pop_inv2 S n D l i Hal Hsh Hin Hsi Hp) as (l' & it & E & _ & A1 & A2 & A3 & A4 & _).
      rewrite E. cbn [fst snd unit_out delivered_of]. rewrite app_nil_r. now constructor.
    + rewrite (lb_pop_out_of_range _ _ Eg). cbn [fst snd unit_out delivered_of]. rewrite app_nil_r. now constructor.
  - (* delslice *)
    unfold step. cbn [st_lb st_next].
    destruct (match c with Some 0 => true | _ => false end) eqn:Ec.
    + assert (c = Some 0) as -> by (destruct c as [[| |]|]; congruence).
      rewrite lb_delslice_step0. cbn [fst snd unit_out delivered_of]. rewrite app_nil_r. now constructor.
    + destruct (delslice_inv2 S n D l a b c Hal Hsh Hin Hsi) as (l' & E & A1 & A2 & A3 & A4 & _).
      { destruct c as [[| |]|]; auto; discriminate. }
      rewrite E. cbn [fst snd unit_out delivered_of]. rewrite app_nil_r. now constructor.
  - (* pickle *) cbn. rewrite app_nil_r. now constructor.
  - (* header *)
    cbn. rewrite app_nil_r. destruct l as [rs bf cs h g]. cbn in *. constructor; cbn; auto.
    exact (aligned_fields n rs bf cs h g bf hd g Hal).
  - cbn. rewrite app_nil_r. destruct l as [rs bf cs h g]. cbn in *. constructor; cbn; auto.
    exact (aligned_fields n rs bf cs h g bf h g0 Hal).
Qed.

Lemma inv2_init S : inv2 S init_state [].
Proof.
  constructor; cbn.
  - apply aligned_new.
  - left; split; reflexivity.
  - constructor.
  - split; [constructor|]. split; [cbn; lia|]. intro u. cbn. tauto.
  - intros u [].
Qed.

Lemma final_inv2 S h : forall s D,
  uniform S h -> inv2 S s D -> inv2 S (final s h) (D ++ delivered s h).
Proof.
  induction h as [|o r IH]; intros s D U I; cbn [delivered].
  - now rewrite app_nil_r.
  - rewrite final_cons, app_assoc. apply IH.
    + intros infos Hin. apply U. now right.
    + apply step_inv2; auto. intros infos ->. apply U. now left.
Qed.

Lemma reach_inv2 S h :
  uniform S h -> inv2 S (final init_state h) (delivered init_state h).
Proof. intro U. apply (final_inv2 S h init_state [] U (inv2_init S)). Qed.

(* ------------------------------------------------------------------------- *)
(* theorem-level statements                                                    *)
(* ------------------------------------------------------------------------- *)

(* 1. records in entry order, each stored as its scalar part *)
Lemma records_in_order h :
  let l := st_lb (final init_state h) in
  incr (ids l) /\
  forall u e, In (u, e) (recs l) ->
    exists infos, nth_error (recorded h) u = Some infos /\ e = scalars infos.
Proof.
  pose proof (final_inv1 h init_state [] inv1_init) as [A B C D]. cbn [app] in D. split; auto.
Qed.

Definition is_delete (o : op) : bool :=
  match o with OPop _ | ODelItem _ | ODelSlice _ _ _ => true | _ => false end.

Lemma final_no_delete h : forall s,
  forallb (fun o => negb (is_delete o)) h = true ->
  recs (st_lb (final s h)) =
    recs (st_lb s) ++ combine (seq (st_next s) (length (recorded h))) (map scalars (recorded h)) /\
  st_next (final s h) = (st_next s + length (recorded h))%nat.
Proof.
  induction h as [|o r IH]; intros s H.
  - cbn. rewrite app_nil_r. split; auto.
  - cbn [forallb] in H. apply andb_true_iff in H as [Ho Hr]. rewrite final_cons.
    destruct (IH (fst (step s o)) Hr) as (E1 & E2). rewrite E1, E2. clear IH E1 E2.
    destruct s as [l n]. destruct o as [infos|pth nms| | |i|i|a b c| |hd|g0]; try discriminate;
      cbn [recorded flat_map app length map]; rewrite ?Nat.add_0_r; try (split; reflexivity).
    + unfold step. cbn [st_lb st_next].
      destruct (lb_record_total (S (ddepth infos)) n infos l) as (l' & E & Q1 & _); [lia|].
      rewrite E. cbn [fst st_lb st_next]. rewrite Q1, <- app_assoc. cbn. split; [reflexivity|].
      change (flat_map (fun o : op => match o with ORecord i => [i] | _ => [] end) r) with (recorded r). lia.
Qed.

Lemma records_all_without_delete h :
  forallb (fun o => negb (is_delete o)) h = true ->
  recs (st_lb (final init_state h)) =
    combine (seq 0 (length (recorded h))) (map scalars (recorded h)).
Proof. intro H. now destruct (final_no_delete h init_state H) as (-> & _). Qed.

(* 2. select *)
Lemma select_one nm l : lb_select [nm] l = Sel1 (column nm l).
Proof. reflexivity. Qed.

Lemma select_many names l :
  length names <> 1%nat -> lb_select names l = SelN (map (fun nm => column nm l) names).
Proof. destruct names as [|a [|b r]]; cbn; auto. congruence. Qed.

Lemma column_spec nm l :
  length (column nm l) = length (recs l) /\
  forall j u e, nth_error (recs l) j = Some (u, e) -> nth_error (column nm l) j = Some (lookup nm e).
Proof.
  unfold column. split; [apply map_length|]. intros j u e H. now rewrite (map_nth_error _ _ _ H).
Qed.

(* 3. chapters *)
Lemma NoDup_fst_inj {A B} (l : list (A * B)) a b b' :
  NoDup (map fst l) -> In (a, b) l -> In (a, b') l -> b = b'.
Proof.
  induction l as [|[x y] r IH]; cbn; [tauto|]. intros ND [E|H] [E'|H']; inversion ND; subst.
  - congruence.
  - injection E as -> ->. exfalso. apply H1. apply (in_map fst) in H'. exact H'.
  - injection E' as -> ->. exfalso. apply H2. apply (in_map fst) in H. exact H.
  - eauto.
Qed.

Lemma aligned_find_path n : forall path l c,
  aligned n l -> NoDup (ids l) -> find_path path l = Some c ->
  aligned n c /\ ids c = ids l /\ flows (recs l) (recs c).
Proof.
  induction path as [|k r IH]; intros l c Hal ND H; cbn in H.
  - injection H as <-. repeat split; auto. intros u e e' H1 H2 kk z Hl.
    now rewrite <- (NoDup_fst_inj _ _ _ _ ND H1 H2).
  - destruct (lookup k (chs l)) as [c1|] eqn:E; [|discriminate]. apply lookup_Some_In in E.
    destruct (aligned_chapter _ _ _ _ Hal E) as (A1 & A2 & A3).
    destruct (IH c1 c A1) as (B1 & B2 & B3); auto; [now rewrite A2|].
    repeat split; auto; [congruence|].
    intros u e e2 H1 H2 kk z Hl.
    assert (Hu : In u (ids c1)) by (rewrite A2; unfold ids; apply (in_map fst) in H1; exact H1).
    unfold ids in Hu. apply in_map_iff in Hu as ([u' e1] & Eu & H3). cbn in Eu. subst u'.
    eapply B3; eauto.
Qed.

Lemma chapter_aligned S h path c :
  uniform S h -> find_path path (st_lb (final init_state h)) = Some c ->
  let l := st_lb (final init_state h) in
  ids c = ids l /\ flows (recs l) (recs c).
Proof.
  intros U H. destruct (reach_inv2 S h U) as [Hal _ Hin _ _].
  destruct (aligned_find_path _ path _ c Hal (incr_NoDup _ Hin) H) as (_ & A & B). auto.
Qed.

Lemma chapters_shaped S h : uniform S h -> shaped (st_lb (final init_state h)) S.
Proof. intro U. now destruct (reach_inv2 S h U). Qed.

(* a dictionary-valued entry goes to the chapter of that name *)
Lemma record_feeds_chapter uid infos l l' k d :
  NoDup (map fst infos) -> In (k, VDict d) infos ->
  lb_record (S (ddepth infos)) uid infos l = Some l' ->
  exists c', lookup k (chs l') = Some c' /\
    recs c' = recs (chapter_of k (chs l)) ++ [(uid, scalars (dict_update d (inject (scalars infos))))].
Proof.
  intros ND Hin E. apply lb_record_inv in E as (f & cs' & Ef & EL & ->). injection Ef as <-.
  destruct (record_loop_spec _ _ _ _ ND EL) as (L & _ & _). cbn [chs].
  rewrite L, (In_lookup _ _ _ ND Hin).
  destruct (lb_record_total (ddepth infos) uid (dict_update d (inject (scalars infos))) (chapter_of k (chs l)))
    as (c' & Ec & Q & _).
  { eapply sub_depth; eauto. }
  exists c'. split; auto.
Qed.

(* 4. deletion *)
Lemma state_eta s : s = mkstate (st_lb s) (st_next s).
Proof. destruct s; reflexivity. Qed.

Lemma delete_index_exact S h i :
  uniform S h ->
  let s := final init_state h in
  let l := st_lb s in
  let n := zlen (recs l) in
  (- n <= i < n ->
     exists l' item, py_get (recs l) i = Some item /\
       step s (ODelItem i) = (mkstate l' (st_next s), ONone) /\
       step s (OPop (Some i)) = (mkstate l' (st_next s), OItem (fst item) (snd item)) /\
       recs l' = remove_nth (Z.to_nat (norm_index i n)) (recs l) /\
       aligned (st_next s) l') /\
  (~ (- n <= i < n) ->
     step s (ODelItem i) = (s, OErr IndexError) /\ step s (OPop (Some i)) = (s, OErr IndexError)).
Proof.
  intros U. cbn zeta. destruct (reach_inv2 S h U) as [Hal Hsh Hin Hsi _].
  destruct (final init_state h) as [l n0]. cbn [st_lb st_next] in *.
  split.
  - intro Hr.
    destruct (pop_inv2 S _ _ l i Hal Hsh Hin Hsi Hr) as (l' & item & E & Hg & A1 & _ & _ & _ & A5 & _).
    exists l', item. unfold step, lb_delitem. cbn [st_lb st_next]. rewrite E. destruct item.
    split; [exact Hg|]. split; [reflexivity|]. split; [reflexivity|]. split; [exact A5|exact A1].
  - intro Hr. apply py_get_none in Hr. unfold step, lb_delitem. cbn [st_lb st_next].
    rewrite (lb_pop_out_of_range _ _ Hr). split; reflexivity.
Qed.

Lemma pop_default s : step s (OPop None) = step s (OPop (Some 0)).
Proof. reflexivity. Qed.

Lemma delete_slice_exact S h a b st :
  uniform S h ->
  let s := final init_state h in
  let l := st_lb s in
  (match st with Some 0 => False | _ => True end ->
     exists l', step s (ODelSlice a b st) = (mkstate l' (st_next s), ONone) /\
       recs l' = del_positions (slice_idx a b (match st with None => 1 | Some x => x end) (zlen (recs l))) (recs l) /\
       aligned (st_next s) l') /\
  (st = Some 0 -> step s (ODelSlice a b st) = (s, OErr ValueError)).
Proof.
  intros U. cbn zeta. destruct (reach_inv2 S h U) as [Hal Hsh Hin Hsi _].
  destruct (final init_state h) as [l n0]. cbn [st_lb st_next] in *.
  split.
  - intro Hst. destruct (delslice_inv2 S _ _ l a b st Hal Hsh Hin Hsi Hst) as (l' & E & A1 & _ & _ & _ & A5 & _).
    exists l'. unfold step. cbn [st_lb st_next]. rewrite E. split; [reflexivity|]. split; [exact A5|exact A1].
  - intros ->. unfold step. cbn [st_lb st_next]. rewrite lb_delslice_step0. reflexivity.
Qed.

(* 5. stream *)
Lemma stream_once S h :
  uniform S h ->
  NoDup (delivered init_state h) /\
  forall u, In u (delivered init_state h) -> (u < length (recorded h))%nat.
Proof.
  intro U. destruct (reach_inv2 S h U) as [_ _ _ (ND & _) HD].
  pose proof (final_inv1 h init_state [] inv1_init) as [A _ _ _]. cbn [app] in A.
  split; auto. intros u Hu. rewrite <- A. auto.
Qed.

Lemma stream_complete S h :
  uniform S h ->
  forall u, In u (ids (st_lb (final init_state (h ++ [OStream])))) ->
            In u (delivered init_state (h ++ [OStream])).
Proof.
  intros U u Hu.
  assert (U' : uniform S (h ++ [OStream])).
  { intros infos Hin. apply in_app_or in Hin as [Hin|[Hin|[]]]; [auto|discriminate]. }
  destruct (reach_inv2 S _ U') as [_ _ _ (_ & _ & Hiff) _].
  apply Hiff. rewrite final_app. cbn [final fold_left]. unfold step at 1. cbn [lb_stream fst st_lb buff].
  rewrite final_app in Hu. cbn [final fold_left] in Hu. unfold step in Hu at 1. cbn [lb_stream fst st_lb] in Hu.
  set (l := st_lb (fold_left (fun s o => fst (step s o)) h init_state)) in *.
  change (ids (LB (recs l) (zlen (recs l)) (chs l) (hdr l) (logh l))) with (ids l) in *.
  rewrite <- zlen_ids. unfold zlen. rewrite Nat2Z.id, firstn_all. exact Hu.
Qed.

Lemma stream_delivers_pending S h d hf :
  uniform S h ->
  let s := final init_state h in
  snd (step s OStream) = OText d hf ->
  d = skipn (Z.to_nat (buff (st_lb s))) (ids (st_lb s)) /\ hf = (buff (st_lb s) =? 0) && logh (st_lb s).
Proof.
  intros U s H. destruct (reach_inv2 S h U) as [_ _ _ (_ & Hb & _) _]. fold s in Hb.
  unfold step in H. cbn [lb_stream snd] in H.
  destruct (lb_text (buff (st_lb s)) (st_lb s)) as [[d' hf']|e] eqn:E; cbn in H; [|discriminate].
  injection H as <- <-. rewrite zlen_ids in Hb.
  destruct (lb_text_ok _ _ _ _ Hb E) as (A & B & _). auto.
Qed.

(* a stream call on a logbook that holds records never raises (nothing is lost) *)
Lemma stream_no_loss S h :
  uniform S h ->
  let s := final init_state h in
  recs (st_lb s) <> [] -> exists d hf, snd (step s OStream) = OText d hf.
Proof.
  intros U s Hne. destruct (reach_inv2 S h U) as [Hal _ _ (_ & Hb & _) _]. fold s in Hal, Hb.
  rewrite zlen_ids in Hb. unfold step. cbn [lb_stream snd].
  rewrite (lb_text_aligned _ _ _ Hal Hne Hb). cbn. eauto.
Qed.

(* 6. header *)
Definition never_drained (h : list op) : Prop :=
  forall p q, h = p ++ OStream :: q -> (1 <= headers init_state p)%nat ->
    exists u, In u (delivered init_state p) /\ In u (ids (st_lb (final init_state p))).

Lemma header_partial S h :
  uniform S h -> never_drained h -> (headers init_state h <= 1)%nat.
Proof.
  induction h as [|o p IH] using rev_ind; intros U ND; [cbn; lia|].
  assert (Up : uniform S p) by (intros infos Hin; apply U; apply in_or_app; auto).
  assert (NDp : never_drained p).
  { intros p1 q1 E Hh. apply (ND p1 (q1 ++ [o])); auto. rewrite E, <- app_assoc. reflexivity. }
  specialize (IH Up NDp). rewrite headers_app. cbn [headers]. rewrite Nat.add_0_r.
  destruct (headers init_state p) as [|[|k]] eqn:Eh; [|clear IH|lia].
  - unfold header_of. destruct o; try lia. destruct (snd _); try lia. destruct header; lia.
  - destruct o; cbn [header_of]; try lia.
    destruct (ND p [] eq_refl) as (u & HuD & HuI); [lia|].
    destruct (reach_inv2 S p Up) as [_ _ _ (_ & Hb & Hiff) _].
    assert (Hf : In u (firstn (Z.to_nat (buff (st_lb (final init_state p)))) (ids (st_lb (final init_state p)))))
      by (apply Hiff; auto).
    assert (Hpos : buff (st_lb (final init_state p)) > 0).
    { destruct (Z.to_nat (buff (st_lb (final init_state p)))) eqn:E; [destruct Hf|lia]. }
    destruct (snd (step (final init_state p) OStream)) eqn:Es; try lia.
    destruct (stream_delivers_pending S p _ _ Up Es) as (_ & ->).
    replace (buff (st_lb (final init_state p)) =? 0) with false by lia. cbn. lia.
Qed.

(* 7. pickle *)
Lemma pickle_identity s : step s OPickle = (s, ONone).
Proof. reflexivity. Qed.

(* ------------------------------------------------------------------------- *)
(* statistics                                                                  *)
(* ------------------------------------------------------------------------- *)
Section StatsLemmas.
  Context {A B C : Type}.
  Implicit Types (s : stats A B C) (m : mstats A B C).

  Lemma st_compile_spec s data :
    st_compile s data = map (fun nf => (fst nf, snd nf (map (s_key s) data))) (s_funs s).
  Proof. reflexivity. Qed.

  Lemma lookup_map_snd {V W} (f : V -> W) (d : list (name * V)) k :
    lookup k (map (fun kv => (fst kv, f (snd kv))) d) = option_map f (lookup k d).
  Proof. induction d as [|[k0 v] r IH]; cbn; auto. destruct (k =? k0); auto. Qed.

  Lemma compile_lookup s data nm :
    lookup nm (st_compile s data) = option_map (fun f => f (map (s_key s) data)) (lookup nm (s_funs s)).
  Proof. unfold st_compile. apply (lookup_map_snd (fun f => f (map (s_key s) data))). Qed.

  Lemma compile_names s data : map fst (st_compile s data) = map fst (s_funs s).
  Proof. unfold st_compile. rewrite map_map. reflexivity. Qed.

  Lemma compile_register_same {Args} s nm (f : Args -> list B -> C) a data :
    lookup nm (st_compile (st_register nm f a s) data) = Some (f a (map (s_key s) data)).
  Proof. rewrite compile_lookup. cbn. now rewrite lookup_dict_set_eq. Qed.

  Lemma compile_register_other {Args} s nm nm' (f : Args -> list B -> C) a data :
    nm' <> nm ->
    lookup nm' (st_compile (st_register nm f a s) data) = lookup nm' (st_compile s data).
  Proof. intro N. rewrite !compile_lookup. cbn. now rewrite lookup_dict_set_neq. Qed.

  Lemma register_names {Args} s nm (f : Args -> list B -> C) a k :
    In k (map fst (s_funs (st_register nm f a s))) <-> k = nm \/ In k (map fst (s_funs s)).
  Proof. cbn. apply dict_set_In_names. Qed.

  Lemma register_NoDup {Args} s nm (f : Args -> list B -> C) a :
    NoDup (map fst (s_funs s)) -> NoDup (map fst (s_funs (st_register nm f a s))).
  Proof. cbn. apply dict_set_NoDup. Qed.

  Lemma ms_compile_lookup m data nm :
    lookup nm (ms_compile m data) = option_map (fun s => st_compile s data) (lookup nm m).
  Proof. unfold ms_compile. apply (lookup_map_snd (fun s => st_compile s data)). Qed.

  Lemma ms_compile_names m data : map fst (ms_compile m data) = map fst m.
  Proof. unfold ms_compile. rewrite map_map. reflexivity. Qed.

  Lemma ms_register_lookup {Args} m nm (f : Args -> list B -> C) a k :
    lookup k (ms_register nm f a m) = option_map (st_register nm f a) (lookup k m).
  Proof. unfold ms_register. apply (lookup_map_snd (st_register nm f a)). Qed.
End StatsLemmas.

(* ------------------------------------------------------------------------- *)
(* the executable uniformity check implies the hypothesis of the theorems      *)
(* ------------------------------------------------------------------------- *)
Lemma nodupb_sound l : nodupb l = true -> NoDup l.
Proof.
  induction l as [|x r IH]; cbn; [constructor|]. intro H. apply andb_true_iff in H as [H1 H2].
  constructor; auto. intro Hin. apply negb_true_iff in H1.
  assert (existsb (Z.eqb x) r = true); [|congruence].
  apply existsb_exists. exists x. split; auto. apply Z.eqb_refl.
Qed.

Lemma has_shapeb_sound : forall fuel infos s, has_shapeb fuel infos s = true -> has_shape infos s.
Proof.
  induction fuel as [|f IH]; intros infos [sub] H; [discriminate|]. cbn [has_shapeb] in H.
  apply andb_true_iff in H as [H H4]. apply andb_true_iff in H as [H H3]. apply andb_true_iff in H as [H1 H2].
  rewrite forallb_forall in H3, H4.
  apply nodupb_sound in H1, H2.
  constructor; auto.
  - intro k. split.
    + intro Hk. specialize (H3 _ Hk). apply existsb_exists in H3 as ([k' v] & Hin & E). cbn in E.
      apply andb_true_iff in E as [E1 E2]. assert (k' = k) by lia. subst k'.
      destruct v as [z|d]; [discriminate|]. eauto.
    + intros (d & Hin). specialize (H4 _ Hin). cbn in H4.
      destruct (lookup k sub) as [sk|] eqn:E; [|discriminate].
      apply lookup_Some_In in E. apply (in_map fst) in E. exact E.
  - intros k d s Hin Hs. specialize (H4 _ Hin). cbn in H4.
    rewrite (In_lookup _ _ _ H2 Hs) in H4. now apply IH.
Qed.

Lemma uniformb_sound s h : uniformb s h = true -> uniform s h.
Proof.
  unfold uniformb, uniform. rewrite forallb_forall. intros H infos Hin.
  specialize (H _ Hin). cbn beta iota in H. exact (has_shapeb_sound _ _ _ H).
Qed.

(* ------------------------------------------------------------------------- *)
(* what MultiStatistics.compile returns meets the uniformity hypothesis         *)
(* ------------------------------------------------------------------------- *)
Lemma inject_no_dict e k d : ~ In (k, VDict d) (inject e).
Proof. unfold inject. intro H. apply in_map_iff in H as (x & E & _). discriminate. Qed.

Lemma dict_set_In {V} k (v : V) d kv : In kv (dict_set k v d) -> snd kv = v \/ In kv d.
Proof.
  induction d as [|[k0 v0] r IH]; cbn.
  - intros [<-|[]]. now left.
  - destruct (k =? k0); cbn; intros [<-|H]; auto. destruct (IH H); auto.
Qed.

Lemma dict_update_In {V} (d u : list (name * V)) kv :
  In kv (dict_update d u) -> In kv d \/ In (snd kv) (map snd u).
Proof.
  unfold dict_update. revert d; induction u as [|[k0 v0] r IH]; intros d H; cbn in *; auto.
  apply IH in H as [H|H]; auto. apply dict_set_In in H as [H|H]; auto.
Qed.

Lemma update_inject_no_dict e a k d : ~ In (k, VDict d) (dict_update (inject e) (inject a)).
Proof.
  intro H. apply dict_update_In in H as [H|H].
  - eapply inject_no_dict; eauto.
  - cbn in H. unfold inject in H. rewrite map_map in H. apply in_map_iff in H as (x & E & _). discriminate.
Qed.

Lemma compiled_infos_shape gen rec :
  NoDup (map fst gen ++ map fst rec) -> Forall (fun kr => NoDup (map fst (snd kr))) rec ->
  has_shape (compiled_infos gen rec) (Sh (map (fun kr => (fst kr, Sh [])) rec)).
Proof.
  intros ND F. unfold compiled_infos. constructor.
  - rewrite map_app, inject_names, map_map. exact ND.
  - rewrite map_map. cbn. eapply NoDup_app_r; eauto.
  - intro k. rewrite map_map. cbn. split.
    + intro H. apply in_map_iff in H as (kr & <- & Hin). exists (inject (snd kr)).
      apply in_or_app. right. apply in_map_iff. exists kr. auto.
    + intros (d & H). apply in_app_or in H as [H|H]; [exfalso; eapply inject_no_dict; eauto|].
      apply in_map_iff in H as (kr & E & Hin). injection E as <- _. now apply in_map.
  - intros k d s Hd Hs. apply in_map_iff in Hs as (kr' & E & _). injection E as _ <-.
    apply in_app_or in Hd as [Hd|Hd]; [exfalso; eapply inject_no_dict; eauto|].
    apply in_map_iff in Hd as (kr & E & Hin). injection E as _ <-.
    rewrite Forall_forall in F. specialize (F _ Hin).
    constructor.
    + apply update_NoDup. now rewrite inject_names.
    + constructor.
    + intro k'. split; [intros []|]. intros (d' & H). exfalso. eapply update_inject_no_dict; eauto.
    + intros k' d' s' _ [].
Qed.

(* every history made of such records, for one MultiStatistics object, is uniform *)
Lemma multistats_history_uniform {A B} (m : mstats A B Z) (gens : list (entry * list A)) :
  Forall (fun ns => NoDup (map fst (s_funs (snd ns)))) m ->
  Forall (fun gd => NoDup (map fst (fst gd) ++ map fst m)) gens ->
  uniform (Sh (map (fun ns => (fst ns, Sh [])) m))
          (map (fun gd => ORecord (compiled_infos (fst gd) (ms_compile m (snd gd)))) gens).
Proof.
  intros Fm Fg infos Hin. apply in_map_iff in Hin as ([gen data] & E & Hg). injection E as <-. cbn [fst snd].
  rewrite Forall_forall in Fg. specialize (Fg _ Hg). cbn in Fg.
  replace (map (fun ns => (fst ns, Sh [])) m)
    with (map (fun kr : name * list (name * Z) => (fst kr, Sh [])) (ms_compile m data))
    by (unfold ms_compile; rewrite map_map; reflexivity).
  apply compiled_infos_shape.
  - now rewrite ms_compile_names.
  - unfold ms_compile. rewrite Forall_map. cbn. rewrite Forall_forall in *. intros ns Hns.
    rewrite compile_names. now apply Fm.
Qed.

Lemma map_fst_combine {A B} (a : list A) (b : list B) : length a = length b -> map fst (combine a b) = a.
Proof. revert b; induction a as [|x r IH]; intros [|y b] H; cbn in *; try lia; auto. f_equal. apply IH. lia. Qed.

(* one record per generation, in the logbook and in every chapter *)
Lemma generations_logged {A B} (m : mstats A B Z) (gens : list (entry * list A)) path c :
  Forall (fun ns => NoDup (map fst (s_funs (snd ns)))) m ->
  Forall (fun gd => NoDup (map fst (fst gd) ++ map fst m)) gens ->
  let h := map (fun gd => ORecord (compiled_infos (fst gd) (ms_compile m (snd gd)))) gens in
  let l := st_lb (final init_state h) in
  ids l = seq 0 (length gens) /\ (find_path path l = Some c -> ids c = seq 0 (length gens)).
Proof.
  intros Fm Fg h l.
  assert (Hnd : forallb (fun o => negb (is_delete o)) h = true).
  { subst h. induction gens; cbn; auto. apply IHgens. now inversion Fg. }
  assert (Hrec : length (recorded h) = length gens).
  { subst h. clear. induction gens; cbn; auto. }
  assert (Hids : ids l = seq 0 (length gens)).
  { subst l. unfold ids. rewrite (records_all_without_delete h Hnd), Hrec.
    apply map_fst_combine. now rewrite seq_length, map_length. }
  split; auto. intro Hp.
  destruct (chapter_aligned _ h path c (multistats_history_uniform m gens Fm Fg) Hp) as [E _].
  fold l in E. congruence.
Qed.
