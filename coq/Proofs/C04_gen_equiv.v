(* Tie (T) for C04: the definitions REGENERATED from the current text of deap/tools/emo.py
   (coq/Gen/C04_gen.v, written by harness/c04_py2coq.py on every run) are the hand model of
   Model/C04_LogSort.v, for every argument.  Compiled on every run after regeneration.

   The scripts do not mention the names of the source's local variables; loops are handled by the
   generic lemmas of Proofs/C04_GenRtFacts.v (what an append-only loop appends is read off its
   body; if-trees over integer comparisons are decided by case analysis + lia), so that renamed
   locals, hoisted subexpressions, reordered independent statements or accumulators and equivalent
   comparison forms still go through.  A function the translator refused is the hand model itself
   (placeholder): its lemma is then proved by the first, `reflexivity`, alternative. *)
From Coq Require Import List ZArith Bool Lia.
From DV Require Import Base.PyTuple Base.PyList Model.C04_NDSort Model.C04_LogSort Model.C04_GenRt
  Proofs.C04_LogBase Proofs.C04_GenRtFacts Gen.C04_gen.
Import ListNotations.
Local Open Scope Z_scope.

(* ---- isDominated ---- *)
Lemma gen_isDominated_loop body :
  (forall s o ne, body (s, o) ne = if s >? o then Ret false else if s <? o then Nxt true else Nxt ne) ->
  forall ps ne, match for_loop ps body ne with inl r => r | inr ne' => ne' end = is_dominated_loop ps ne.
Proof.
  intros Hb ps. induction ps as [|[s o] r IH]; intro ne; [reflexivity|].
  rewrite for_loop_cons, Hb. cbn [is_dominated_loop].
  destruct (s >? o); [reflexivity|]. destruct (s <? o); apply IH.
Qed.

Lemma gen_isDominated_eq w1 w2 : gen_isDominated w1 w2 = is_dominated w1 w2.
Proof.
  first [ reflexivity
        | unfold gen_isDominated, is_dominated; gnorm;
          apply gen_isDominated_loop; intros s o ne; gnorm; ifs_solve ].
Qed.

(* ---- median (doubled) ---- *)
Lemma gen_median_eq seq key : key [] = 0 -> gen_median seq key = median2 (map key seq).
Proof.
  intro K0.
  first [ reflexivity
        | unfold gen_median, median2; gnorm;
          rewrite ?(key_py_nth key _ _ K0), ?sorted_key_map, ?zlen_map;
          pose proof (median_middle_le (map key seq)) as M; cbv zeta in M; rewrite ?zlen_map in M; unfold wvals in *;
          ifs_solve ].
Qed.

Lemma gen_median_item seq obj :
  gen_median seq (fun f => item f obj) = median2 (map (fun f => item f obj) seq).
Proof. apply gen_median_eq, item_nil. Qed.

(* ---- splitA / splitB: the loops only append; what they append is a filter of the model ---- *)
Ltac step4 := intros; unfold d4_1, d4_2, d4_3, d4_4; gnorm; split_ifs; gnorm; cbn [app]; rewrite ?app_nil_r; reflexivity.
Ltac pred_solve :=
  let x := fresh "x" in
  intro x; unfold d4_1, d4_2, d4_3, d4_4, gt_med, lt_med; gnorm; split_ifs; gnorm; zb2p;
  first [ reflexivity | discriminate | lia ].
Ltac id_filters :=
  repeat match goal with
  | |- context[flat_map ?d ?l] =>
      match goal with
      | |- context[filter ?P l] => rewrite (flat_map_filter d P l) by pred_solve
      end
  end.

Lemma gen_splitA_eq fs obj : gen_splitA fs obj = splitA fs obj.
Proof.
  first [ reflexivity
        | unfold gen_splitA, splitA; gnorm; rewrite ?gen_median_item;
          rewrite fold4_flat by step4; gnorm; cbn [app];
          id_filters; reflexivity ].
Qed.

Lemma gen_splitB_eq best worst obj : gen_splitB best worst obj = splitB best worst obj.
Proof.
  first [ reflexivity
        | unfold gen_splitB, splitB; gnorm; rewrite ?gen_median_item;
          rewrite !fold4_flat by step4; gnorm; cbn [app];
          id_filters; reflexivity ].
Qed.
