(* Tie (T) for C04: the definitions REGENERATED from the current text of deap/tools/emo.py
   (coq/Gen/C04_gen.v, written by harness/c04_py2coq.py on every run) are the hand model of
   Model/C04_LogSort.v, for every argument.  Compiled on every run after regeneration.

   The scripts do not mention the names of the source's local variables; loops are handled by the
   generic lemmas of Proofs/C04_GenRtFacts.v (what an append-only loop appends is read off its
   body; if-trees over integer comparisons are decided by case analysis + lia), so that renamed
   locals, hoisted subexpressions, reordered independent statements or accumulators and equivalent
   comparison forms still go through.  A function the translator refused is the hand model itself
   (placeholder): its lemma is then proved by the first, `reflexivity`, alternative. *)
From Coq Require Import List ZArith Bool Lia Permutation.
From DV Require Import Base.PyTuple Base.PyList Model.C04_NDSort Model.C04_LogSort Model.C04_GenRt
  Proofs.C04_NDSort Proofs.C04_LogBase Proofs.C04_LogWrap Proofs.C04_GenRtFacts Gen.C04_gen.
Import ListNotations.
Local Open Scope Z_scope.

(* ---- isDominated ---- *)
Lemma gen_isDominated_loop body :
  (forall s o ne, body (s, o) ne = if s >? o then Ret false else if s <? o then Nxt true else Nxt ne) ->
  forall ps ne, match for_loop ps body ne with inl r => r | inr ne' => ne' end = is_dominated_loop ps ne.
Proof.
  intros Hb ps. induction ps as [|[s o] r IH]; intro ne; [reflexivity|].
  rewrite for_loop_cons, Hb. cbn [is_dominated_loop].
  destruct (s >? o); [reflexivity|]. destruct (s <? o); apply IH.
Qed.

Lemma gen_isDominated_eq w1 w2 : gen_isDominated w1 w2 = is_dominated w1 w2.
Proof.
  first [ reflexivity
        | unfold gen_isDominated, is_dominated; gnorm;
          apply gen_isDominated_loop; intros s o ne; gnorm; ifs_solve ].
Qed.

(* ---- median (doubled) ---- *)
(* equal indices written differently, e.g. (n - 1) // 2 and n // 2 for odd n *)
Ltac idx_unify :=
  repeat match goal with
  | |- context[item ?s ?a] =>
      match goal with
      | |- context[item s ?b] => tryif constr_eq a b then fail else (replace a with b by (Z.div_mod_to_equations; lia))
      end
  end.
Lemma gen_median_eq seq key : key [] = 0 -> gen_median seq key = median2 (map key seq).
Proof.
  intro K0.
  first [ reflexivity
        | unfold gen_median, median2; gnorm;
          rewrite ?(key_py_nth key _ _ K0), ?sorted_key_map, ?zlen_map;
          pose proof (median_middle_le (map key seq)) as M; cbv zeta in M; rewrite ?zlen_map in M; unfold wvals in *;
          ifs_solve; idx_unify; first [ reflexivity | lia ] ].
Qed.

Lemma gen_median_item seq obj :
  gen_median seq (fun f => item f obj) = median2 (map (fun f => item f obj) seq).
Proof. apply gen_median_eq, item_nil. Qed.

(* ---- splitA / splitB: the loops only append; what they append is a filter of the model ---- *)
Ltac step4 := intros; unfold d4_1, d4_2, d4_3, d4_4; gnorm; split_ifs; gnorm; cbn [app]; rewrite ?app_nil_r; reflexivity.
Ltac pred_solve :=
  let x := fresh "x" in
  intro x; unfold d4_1, d4_2, d4_3, d4_4, gt_med, lt_med; gnorm; split_ifs; gnorm; zb2p;
  first [ reflexivity | discriminate | lia ].
Ltac id_filters :=
  repeat match goal with
  | |- context[flat_map ?d ?l] =>
      match goal with
      | |- context[filter ?P l] => rewrite (flat_map_filter d P l) by pred_solve
      end
  end.

Lemma gen_splitA_eq fs obj : gen_splitA fs obj = splitA fs obj.
Proof.
  first [ reflexivity
        | unfold gen_splitA, splitA; gnorm; rewrite ?gen_median_item;
          rewrite fold4_flat by step4; gnorm; cbn [app];
          id_filters; first [ reflexivity | ifs_solve ] ].
Qed.

Lemma gen_splitB_eq best worst obj : gen_splitB best worst obj = splitB best worst obj.
Proof.
  first [ reflexivity
        | unfold gen_splitB, splitB; gnorm; rewrite ?gen_median_item;
          rewrite !fold4_flat by step4; gnorm; cbn [app];
          id_filters; first [ reflexivity | ifs_solve ] ].
Qed.

(* ---- sweepA: the regenerated loop and the model's fold run in lock-step ---- *)
Definition swR (s : fmap * list Z * list (list Z)) (t : sweep) : Prop :=
  s = (sw_front t, sw_stairs t, sw_fstairs t) /\ sw_fstairs t <> [].

Ltac bool_eq := match goal with |- ?a = ?b => destruct a eqn:?, b eqn:?; zb2p; try reflexivity; try discriminate; lia end.

(* the inner search loop (first stair with the same rank: delete it) and the two inserts *)
Ltac swA_branch F fit :=
  rewrite (for_brk_find (fun f => fget F f =? fget F fit) (fun i _ s => (py_del (fst s) i, py_del (snd s) i)) _ [])
    by (intros ? ? [? ?]; gnorm; ifs_solve);
  destruct (find_index _ _); gnorm; (split; [|apply insert_at_nonnil]);
  rewrite ?py_del_at, ?py_insert_at by lia; rewrite ?Z2Nat.inj_add, ?Nat2Z.id by lia; reflexivity.

Ltac swA_step :=
  let B := fresh "B" in let NE2 := fresh "NE2" in let C := fresh "C" in
  intros [[fr st] fst_] t fit [E NE]; inversion E; subst; clear E; destruct t as [st fst_ fr];
  cbn [sw_front sw_stairs sw_fstairs] in *; unfold sweepA_step, sweep_rank; cbn [sw_front sw_stairs sw_fstairs]; gnorm;
  pose proof (bisect_right_bounds st (- item fit 1)) as B;
  set (idx := bisect_right st (- item fit 1)) in *;
  rewrite ?(slice_to_firstn fst_ idx), ?(slice_from_skipn fst_ idx) by lia;
  assert (NE2 : 0 < idx -> firstn (Z.to_nat idx) fst_ <> [])
    by (intro; destruct fst_; [congruence|]; destruct (Z.to_nat idx) eqn:?; [lia|discriminate]);
  (* the guard of the rank update, in whatever equivalent form the source writes it *)
  repeat match goal with
  | |- context[if ?c then kset fr ?b ?v else fr] =>
      lazymatch c with
      | (0 <? idx) && (idx <=? zlen st) => fail
      | _ => replace c with ((0 <? idx) && (idx <=? zlen st)) by bool_eq
      end
  end;
  destruct ((0 <? idx) && (idx <=? zlen st)) eqn:C;
  [ zb2p; rewrite (py_max_default _ _ [] fit) by (apply NE2; lia); unfold fbump;
    match goal with |- context[kset ?a ?b ?c] => let F := fresh "F" in set (F := kset a b c); swA_branch F fit end
  | swA_branch fr fit ].

Lemma gen_sweepA_eq fs front : gen_sweepA fs front = sweepA fs front.
Proof.
  first [ reflexivity
        | unfold gen_sweepA, sweepA; gnorm; destruct fs as [|f0 r]; [reflexivity|];
          rewrite slice_from_1_cons, !py_nth_0;
          match goal with |- context[fold_left ?f r (?a, ?b, ?c)] =>
            match goal with |- _ = sw_front (fold_left ?g r ?t) =>
              assert (H : swR (fold_left f r (a, b, c)) (fold_left g r t))
                by (apply fold_left_sim; [swA_step|split; [reflexivity|discriminate]]);
              destruct (fold_left f r (a, b, c)) as [[? ?] ?]; destruct H as [E _]; inversion E; reflexivity
            end
          end ].
Qed.

(* ---- sweepB: the while loop over the iterator is sweepB_consume ---- *)
Definition ne_all (l : list wvals) : Prop := Forall (fun x => x <> []) l.
Definition restof (nb : option wvals) (it : list wvals) : list wvals := match nb with Some x => x :: it | None => [] end.

Lemma restof_next r : restof (hd_error r) (tl r) = r.
Proof. destruct r; reflexivity. Qed.

Lemma zlen_ne (x : wvals) : x <> [] -> (zlen x =? 0) = false.
Proof. destruct x; [congruence|]. intros _. unfold zlen. cbn [length]. apply Z.eqb_neq. lia. Qed.

(* the body of the while loop on a present next_best = sweepB_insert *)
Definition insB_spec (front : fmap) (f : list Z * list wvals * option wvals * list wvals -> list Z * list wvals * option wvals * list wvals) : Prop :=
  forall st fs x it, length st = length fs ->
    f (st, fs, Some x, it) = (fst (sweepB_insert front st fs x), snd (sweepB_insert front st fs x), hd_error it, tl it).

Lemma while_consume front h fuel cond body :
  (forall st fs nb it, cond (st, fs, nb, it) =
     match nb with Some x => negb (zlen x =? 0) && tup_le (upto h 2) (upto x 2) | None => false end) ->
  insB_spec front body ->
  forall rest st fs nb it, rest = restof nb it -> ne_all rest -> (length rest < fuel)%nat -> length st = length fs ->
  exists st' fs' nb' it',
    while_loop fuel cond body (st, fs, nb, it) = Some (st', fs', nb', it') /\
    sweepB_consume front h rest st fs = (restof nb' it', st', fs') /\
    ne_all (restof nb' it') /\ (length (restof nb' it') <= length rest)%nat /\ length st' = length fs'.
Proof.
  intros Hc Hb. induction fuel as [|fu IH]; intros rest st fs nb it E NE L LS; [lia|].
  cbn [while_loop]. rewrite Hc. destruct nb as [x|]; cbn [restof] in E; subst rest.
  - inversion NE as [|? ? Hx NE']; subst. rewrite zlen_ne by assumption. cbn [negb andb sweepB_consume].
    destruct (tup_le (upto h 2) (upto x 2)).
    + rewrite Hb by assumption.
      destruct (sweepB_insert front st fs x) as [st2 fs2] eqn:EI. cbn [fst snd].
      assert (LS2 : length st2 = length fs2).
      { unfold sweepB_insert in EI. destruct (find_index _ fs) as [i|].
        - destruct (_ >? _); inversion EI; subst; [assumption|]. apply insert_at_length_eq, remove_at_length_eq, LS.
        - inversion EI; subst. apply insert_at_length_eq, LS. }
      destruct (IH it st2 fs2 (hd_error it) (tl it)) as (st' & fs' & nb' & it' & W & C & N & Len & LS');
        [now rewrite restof_next|assumption|cbn [length] in L; lia|assumption|].
      exists st', fs', nb', it'. repeat split; try assumption. cbn [length]. lia.
    + exists st, fs, (Some x), it. cbn [restof]. repeat split; auto.
  - exists st, fs, None, it. cbn [restof sweepB_consume]. repeat split; auto.
Qed.

Definition sbR (best : list wvals) (s : list Z * list wvals * option wvals * list wvals * fmap) (t : list wvals * sweep) : Prop :=
  let '(st, fs, nb, it, fr) := s in
  snd t = mksw st fs fr /\ fst t = restof nb it /\ ne_all (fst t) /\ (length (fst t) <= length best)%nat /\ length st = length fs.

Ltac insB_tac :=
  let st := fresh "st" in let fs := fresh "fs" in let x := fresh "x" in let it := fresh "it" in let LS := fresh "LS" in
  intros st fs x it LS; gnorm;
  match goal with fr : fmap |- context[for_brk _ _ _] =>
      rewrite (for_brk_find (fun f => fget fr f =? fget fr x)
                 (fun i fstair s => if item fstair 1 >? item x 1 then (false, snd (fst s), snd s)
                                    else (fst (fst s), py_del (snd (fst s)) i, py_del (snd s) i)) _ x)
        by (intros ? ? [[? ?] ?]; gnorm; ifs_solve)
  end;
  unfold sweepB_insert;
  match goal with |- context[find_index ?p ?l] => destruct (find_index p l) end; gnorm;
  try match goal with |- context[item (nth ?a ?b ?c) 1 >? ?d] => destruct (item (nth a b c) 1 >? d); gnorm; [reflexivity|] end;
  rewrite ?py_del_at by lia; rewrite ?Z.add_0_l, ?Nat2Z.id;
  repeat match goal with |- context[bisect_right ?a ?b] =>
    let B := fresh "B" in pose proof (bisect_right_bounds a b) as B; generalize dependent (bisect_right a b); intros end;
  rewrite ?py_del_at, ?py_insert_at by lia; rewrite ?Z.add_0_l, ?Nat2Z.id; reflexivity.

(* one pass of `for h in worst`: the while loop is sweepB_consume, then the rank of h *)
Ltac swB_step best :=
  let W := fresh "W" in let C := fresh "C" in let N' := fresh "N'" in let Len' := fresh "Len'" in let LS' := fresh "LS'" in
  let B := fresh "B" in let Cnd := fresh "Cnd" in
  let st := fresh "st" in let fs := fresh "fs" in let nb := fresh "nb" in let it := fresh "it" in let fr := fresh "fr" in
  let rest := fresh "rest" in let sw := fresh "sw" in let h := fresh "h" in
  let E1 := fresh "E1" in let E2 := fresh "E2" in let N := fresh "N" in let Len := fresh "Len" in let LS := fresh "LS" in
  let st' := fresh "st'" in let fs' := fresh "fs'" in let nb' := fresh "nb'" in let it' := fresh "it'" in let idx := fresh "idx" in
  intros [[[[st fs] nb] it] fr] [rest sw] h (E1 & E2 & N & Len & LS); cbn [fst snd] in *; subst sw rest;
  unfold sweepB_step; cbn [sw_front sw_stairs sw_fstairs];
  match goal with |- context[while_loop ?fuel ?c ?b _] =>
    destruct (while_consume fr h fuel c b) with (rest := restof nb it) (st := st) (fs := fs) (nb := nb) (it := it)
      as (st' & fs' & nb' & it' & W & C & N' & Len' & LS') end;
  [ solve [intros ? ? [?|] ?; gnorm; reflexivity]
  | solve [insB_tac]
  | reflexivity
  | assumption
  | unfold wvals in *; lia
  | assumption
  | unfold wvals in *; rewrite W, C; cbn [obind]; gnorm;
    eexists; split; [reflexivity|];
    unfold sweep_rank; gnorm;
    pose proof (bisect_right_bounds st' (- item h 1)) as B;
    set (idx := bisect_right st' (- item h 1)) in *;
    rewrite ?(slice_to_firstn fs' idx) by lia;
    repeat match goal with
    | |- context[if ?c then kset fr ?b ?v else fr] =>
        lazymatch c with
        | (0 <? idx) && (idx <=? zlen st') => fail
        | _ => replace c with ((0 <? idx) && (idx <=? zlen st')) by bool_eq
        end
    end;
    destruct ((0 <? idx) && (idx <=? zlen st')) eqn:Cnd;
    [ zb2p; rewrite (py_max_default _ _ [] h)
        by (destruct fs' as [|? ?]; [unfold zlen in *; cbn [length] in *; rewrite LS' in *; cbn [length] in *; lia|];
            destruct (Z.to_nat idx) eqn:?; [lia|discriminate]);
      unfold fbump, sbR; cbn [fst snd]; unfold wvals in *; repeat split; try assumption; try reflexivity; lia
    | unfold sbR; cbn [fst snd]; unfold wvals in *; repeat split; try assumption; try reflexivity; lia ] ].

Lemma gen_sweepB_eq best worst front : ne_all best -> gen_sweepB best worst front = Some (sweepB best worst front).
Proof.
  intro NE.
  first [ reflexivity
        | unfold gen_sweepB, sweepB; gnorm;
          match goal with |- obind (fold_opt ?f worst ?s0) _ = Some (sw_front (snd (fold_left ?g worst ?t0))) =>
            let s' := fresh "s" in let E := fresh "E" in let R := fresh "R" in
            destruct (fold_opt_sim (sbR best) f g worst) with (s := s0) (t := t0) as (s' & E & R);
            [ swB_step best
            | unfold sbR; cbn [fst snd]; rewrite restof_next; unfold wvals in *; repeat split; auto
            | unfold wvals in *; rewrite E; cbn [obind]; destruct s' as [[[[? ?] ?] ?] ?]; destruct R as (R & _); gnorm;
              destruct (fold_left _ worst _) as [? sw]; cbn [snd] in *; subst sw; reflexivity ]
          end ].
Qed.

Lemma ne_all_filter (f : wvals -> bool) l : ne_all l -> ne_all (filter f l).
Proof. unfold ne_all. induction 1; cbn; [constructor|]. destruct (f x); [constructor|]; assumption. Qed.

Lemma splitA_ne fs obj : ne_all fs -> ne_all (fst (splitA fs obj)) /\ ne_all (snd (splitA fs obj)).
Proof. intro H. unfold splitA. cbv zeta. destruct (_ <=? _); cbn [fst snd]; split; apply ne_all_filter, H. Qed.

Lemma splitB_ne best worst obj : ne_all best ->
  ne_all (fst (fst (fst (splitB best worst obj)))) /\ ne_all (snd (fst (fst (splitB best worst obj)))).
Proof. intro H. unfold splitB. cbv zeta. destruct (_ <=? _); cbn [fst snd]; split; apply ne_all_filter, H. Qed.

(* ---- sortNDHelperB / sortNDHelperA: same recursion, callee by callee ---- *)
Lemma zlen_2_inv {A} (l : list A) : zlen l = 2 -> exists a b, l = [a; b].
Proof. destruct l as [|a [|b [|c l]]]; unfold zlen; cbn [length]; try lia. eauto. Qed.

Ltac same_ifs := repeat match goal with |- (if ?c then _ else _) = (if ?c then _ else _) => destruct c eqn:? end.
Ltac upto_norm := repeat match goal with |- context[@slice_to Z ?s ?e] => change (@slice_to Z s e) with (upto s e) end.
Ltac bool_cases :=
  upto_norm;
  repeat match goal with
  | |- context[is_dominated ?a ?b] => destruct (is_dominated a b)
  | |- context[key_eqb ?a ?b] => destruct (key_eqb a b)
  end; reflexivity.
(* recursive calls: rewrite the closed ones with the induction hypothesis, case on their result, repeat *)
Ltac calls IH :=
  repeat (rewrite ?IH by assumption; rewrite ?obind_some;
          match goal with
          | |- context[obind (helperB ?fu ?a ?b ?c ?d) _] => destruct (helperB fu a b c d); cbn [obind]
          | |- context[obind (helperA ?fu ?a ?c ?d) _] => destruct (helperA fu a c d); cbn [obind]
          end); rewrite ?IH by assumption; rewrite ?obind_some.

Ltac hB_branch IH :=
  first [ reflexivity
        | unfold helperB_direct; f_equal; apply fold_left_ext; intros ? ?; gnorm; rewrite ?fold_left_map;
          apply fold_left_ext; intros ? ?; gnorm;
          rewrite ?gen_isDominated_eq; unfold weakly_dominated_upto, fbump; first [reflexivity | bool_cases]
        | calls IH; reflexivity
        | match goal with NE : ne_all ?b |- context[splitB ?b ?w ?o] =>
            let H1 := fresh "H" in let H2 := fresh "H" in
            destruct (splitB_ne b w o NE) as [H1 H2]; destruct (splitB b w o) as [[[? ?] ?] ?]; cbn [fst snd] in H1, H2 end;
          calls IH; reflexivity ].

(* (the tuples of `best` must not be empty: `while next_best and ...` in sweepB tests the truth value of a tuple) *)
Lemma gen_sortNDHelperB_eq fuel : forall best worst obj front, ne_all best ->
  gen_sortNDHelperB fuel best worst obj front = helperB fuel best worst obj front.
Proof.
  first [ intros; reflexivity
        | induction fuel as [|fu IH]; intros best worst obj front NE; [reflexivity|];
          cbn [gen_sortNDHelperB helperB]; gnorm;
          rewrite ?gen_sweepB_eq by assumption; cbn [obind];
          rewrite ?gen_splitB_eq, ?zmin_list_map_key, ?zmax_list_map_key;
          same_ifs; hB_branch IH ].
Qed.

Ltac hA_branch IH :=
  first [ reflexivity
        | zb2p; match goal with H : zlen ?fs = 2 |- _ => destruct (zlen_2_inv fs H) as (? & ? & ->) end;
          rewrite ?py_nth_0, ?py_nth_1, ?gen_isDominated_eq; unfold fbump;
          bool_cases
        | calls IH; reflexivity
        | match goal with NE : ne_all ?f |- context[splitA ?f ?o] =>
            let H1 := fresh "H" in let H2 := fresh "H" in
            destruct (splitA_ne f o NE) as [H1 H2]; destruct (splitA f o) as [? ?]; cbn [fst snd] in H1, H2 end;
          calls IH; rewrite ?gen_sortNDHelperB_eq by assumption; calls IH; reflexivity ].

Lemma gen_sortNDHelperA_eq fuel : forall fs obj front, ne_all fs ->
  gen_sortNDHelperA fuel fs obj front = helperA fuel fs obj front.
Proof.
  first [ intros; reflexivity
        | induction fuel as [|fu IH]; intros fs obj front NE; [reflexivity|];
          cbn [gen_sortNDHelperA helperA]; gnorm; rewrite ?gen_sweepA_eq, ?gen_splitA_eq;
          same_ifs; hA_branch IH ].
Qed.

Lemma ne_all_sorted_keys pop : (forall x, In x pop -> iw x <> []) -> ne_all (sort_desc (kkeys (group_inds pop))).
Proof.
  intro H. unfold ne_all. apply Forall_forall. intros f Hf.
  apply (Permutation_in _ (sort_desc_perm _)) in Hf. apply group_inds_keys in Hf.
  apply in_map_iff in Hf as (x & <- & Hx). apply H, Hx.
Qed.

(* ---- sortLogNondominated: grouping, dict.fromkeys, the sort, the recursion (with the model's fuel), extraction of the
   fronts and the trimming loop.  `individuals[0]` of the empty population raises in Python: the equality is claimed for
   non-empty populations whose individuals have at least one objective (sweepB tests the truth value of a fitness tuple);
   every C04 theorem about the divide-and-conquer sort has the stronger hypotheses `pop <> []`, `2 <= length (iw x)`. ---- *)
Lemma gen_sortLogNondominated_eq pop k ffo : pop <> [] -> (forall x, In x pop -> iw x <> []) ->
  gen_sortLogNondominated pop k ffo = sort_log pop k ffo.
Proof.
  intros NE NEW.
  first [ reflexivity
        | unfold gen_sortLogNondominated, sort_log, log_ranks, log_extract; gnorm;
          destruct (k =? 0); [reflexivity|];
          destruct pop as [|x0 rest]; [congruence|];
          rewrite ?py_nth_0;
          rewrite ?(fold_left_enum _ group_step) by (intros; reflexivity);
          repeat match goal with |- context[fold_left ?f (x0 :: rest) []] =>
            lazymatch f with group_step => fail | _ => rewrite (fold_left_ext f group_step (x0 :: rest)) by (intros; reflexivity) end end;
          change (fold_left group_step (x0 :: rest) []) with (group_inds (x0 :: rest));
          rewrite ?fromkeys_nodup by exact (group_inds_nodup (x0 :: rest));
          rewrite gen_sortNDHelperA_eq by (apply (ne_all_sorted_keys (x0 :: rest)), NEW);
          let EH := fresh "EH" in let NN := fresh "NN" in
          destruct (helperA _ _ _ _) as [front|] eqn:EH; cbn [obind]; [|reflexivity];
          assert (NN : nonneg front) by (eapply nonneg_helperA; [apply nonneg_const|exact EH]);
          match goal with |- context[fold_left ?f ?l ?s] =>
            lazymatch f with context[py_extend_at] =>
              rewrite (fold_left_ext f (fun pf fit => app_at pf (Z.to_nat (fget front fit)) (kget (group_inds (x0 :: rest)) fit [])))
                by (intros; gnorm; apply py_extend_at_nonneg, NN) end end;
          set (pf := fold_left _ _ _);
          destruct ffo; cbn [negb];
          [ now rewrite ?py_nth_0_nth
          | first [ eapply (for_loop_log_cut k pf 0 1 _ _ LFronts eq_refl) with (pre := []) (suf := pf)
                  | eapply (for_loop_log_cut k pf 1 0 _ _ LFronts eq_refl) with (pre := []) (suf := pf) ];
            [solve [intros; gnorm; ifs_solve] | solve [intros; cbv beta; lia] | reflexivity] ] ].
Qed.
