(* Tie (T) for C04: the definitions REGENERATED from the current text of deap/tools/emo.py
   (coq/Gen/C04_gen.v, written by harness/c04_py2coq.py on every run) are the hand model of
   Model/C04_LogSort.v, for every argument.  Compiled on every run after regeneration.

   The scripts do not mention the names of the source's local variables; loops are handled by the
   generic lemmas of Proofs/C04_GenRtFacts.v (what an append-only loop appends is read off its
   body; if-trees over integer comparisons are decided by case analysis + lia), so that renamed
   locals, hoisted subexpressions, reordered independent statements or accumulators and equivalent
   comparison forms still go through.  A function the translator refused is the hand model itself
   (placeholder): its lemma is then proved by the first, `reflexivity`, alternative. *)
From Coq Require Import List ZArith Bool Lia.
From DV Require Import Base.PyTuple Base.PyList Model.C04_NDSort Model.C04_LogSort Model.C04_GenRt
  Proofs.C04_NDSort Proofs.C04_LogBase Proofs.C04_GenRtFacts Gen.C04_gen.
Import ListNotations.
Local Open Scope Z_scope.

(* ---- isDominated ---- *)
Lemma gen_isDominated_loop body :
  (forall s o ne, body (s, o) ne = if s >? o then Ret false else if s <? o then Nxt true else Nxt ne) ->
  forall ps ne, match for_loop ps body ne with inl r => r | inr ne' => ne' end = is_dominated_loop ps ne.
Proof.
  intros Hb ps. induction ps as [|[s o] r IH]; intro ne; [reflexivity|].
  rewrite for_loop_cons, Hb. cbn [is_dominated_loop].
  destruct (s >? o); [reflexivity|]. destruct (s <? o); apply IH.
Qed.

Lemma gen_isDominated_eq w1 w2 : gen_isDominated w1 w2 = is_dominated w1 w2.
Proof.
  first [ reflexivity
        | unfold gen_isDominated, is_dominated; gnorm;
          apply gen_isDominated_loop; intros s o ne; gnorm; ifs_solve ].
Qed.

(* ---- median (doubled) ---- *)
(* equal indices written differently, e.g. (n - 1) // 2 and n // 2 for odd n *)
Ltac idx_unify :=
  repeat match goal with
  | |- context[item ?s ?a] =>
      match goal with
      | |- context[item s ?b] => tryif constr_eq a b then fail else (replace a with b by (Z.div_mod_to_equations; lia))
      end
  end.
Lemma gen_median_eq seq key : key [] = 0 -> gen_median seq key = median2 (map key seq).
Proof.
  intro K0.
  first [ reflexivity
        | unfold gen_median, median2; gnorm;
          rewrite ?(key_py_nth key _ _ K0), ?sorted_key_map, ?zlen_map;
          pose proof (median_middle_le (map key seq)) as M; cbv zeta in M; rewrite ?zlen_map in M; unfold wvals in *;
          ifs_solve; idx_unify; first [ reflexivity | lia ] ].
Qed.

Lemma gen_median_item seq obj :
  gen_median seq (fun f => item f obj) = median2 (map (fun f => item f obj) seq).
Proof. apply gen_median_eq, item_nil. Qed.

(* ---- splitA / splitB: the loops only append; what they append is a filter of the model ---- *)
Ltac step4 := intros; unfold d4_1, d4_2, d4_3, d4_4; gnorm; split_ifs; gnorm; cbn [app]; rewrite ?app_nil_r; reflexivity.
Ltac pred_solve :=
  let x := fresh "x" in
  intro x; unfold d4_1, d4_2, d4_3, d4_4, gt_med, lt_med; gnorm; split_ifs; gnorm; zb2p;
  first [ reflexivity | discriminate | lia ].
Ltac id_filters :=
  repeat match goal with
  | |- context[flat_map ?d ?l] =>
      match goal with
      | |- context[filter ?P l] => rewrite (flat_map_filter d P l) by pred_solve
      end
  end.

Lemma gen_splitA_eq fs obj : gen_splitA fs obj = splitA fs obj.
Proof.
  first [ reflexivity
        | unfold gen_splitA, splitA; gnorm; rewrite ?gen_median_item;
          rewrite fold4_flat by step4; gnorm; cbn [app];
          id_filters; first [ reflexivity | ifs_solve ] ].
Qed.

Lemma gen_splitB_eq best worst obj : gen_splitB best worst obj = splitB best worst obj.
Proof.
  first [ reflexivity
        | unfold gen_splitB, splitB; gnorm; rewrite ?gen_median_item;
          rewrite !fold4_flat by step4; gnorm; cbn [app];
          id_filters; first [ reflexivity | ifs_solve ] ].
Qed.

(* ---- sweepA: the regenerated loop and the model's fold run in lock-step ---- *)
Definition swR (s : fmap * list Z * list (list Z)) (t : sweep) : Prop :=
  s = (sw_front t, sw_stairs t, sw_fstairs t) /\ sw_fstairs t <> [].

Ltac bool_eq := match goal with |- ?a = ?b => destruct a eqn:?, b eqn:?; zb2p; try reflexivity; try discriminate; lia end.

(* the inner search loop (first stair with the same rank: delete it) and the two inserts *)
Ltac swA_branch F fit :=
  rewrite (for_brk_find (fun f => fget F f =? fget F fit) (fun i s => (py_del (fst s) i, py_del (snd s) i)))
    by (intros ? ? [? ?]; gnorm; ifs_solve);
  destruct (find_index _ _); gnorm; (split; [|apply insert_at_nonnil]);
  rewrite ?py_del_at, ?py_insert_at by lia; rewrite ?Z2Nat.inj_add, ?Nat2Z.id by lia; reflexivity.

Ltac swA_step :=
  let B := fresh "B" in let NE2 := fresh "NE2" in let C := fresh "C" in
  intros [[fr st] fst_] t fit [E NE]; inversion E; subst; clear E; destruct t as [st fst_ fr];
  cbn [sw_front sw_stairs sw_fstairs] in *; unfold sweepA_step, sweep_rank; cbn [sw_front sw_stairs sw_fstairs]; gnorm;
  pose proof (bisect_right_bounds st (- item fit 1)) as B;
  set (idx := bisect_right st (- item fit 1)) in *;
  rewrite ?(slice_to_firstn fst_ idx), ?(slice_from_skipn fst_ idx) by lia;
  assert (NE2 : 0 < idx -> firstn (Z.to_nat idx) fst_ <> [])
    by (intro; destruct fst_; [congruence|]; destruct (Z.to_nat idx) eqn:?; [lia|discriminate]);
  (* the guard of the rank update, in whatever equivalent form the source writes it *)
  repeat match goal with
  | |- context[if ?c then kset fr ?b ?v else fr] =>
      lazymatch c with
      | (0 <? idx) && (idx <=? zlen st) => fail
      | _ => replace c with ((0 <? idx) && (idx <=? zlen st)) by bool_eq
      end
  end;
  destruct ((0 <? idx) && (idx <=? zlen st)) eqn:C;
  [ zb2p; rewrite (py_max_default _ _ [] fit) by (apply NE2; lia); unfold fbump;
    match goal with |- context[kset ?a ?b ?c] => let F := fresh "F" in set (F := kset a b c); swA_branch F fit end
  | swA_branch fr fit ].

Lemma gen_sweepA_eq fs front : gen_sweepA fs front = sweepA fs front.
Proof.
  first [ reflexivity
        | unfold gen_sweepA, sweepA; gnorm; destruct fs as [|f0 r]; [reflexivity|];
          rewrite slice_from_1_cons, !py_nth_0;
          match goal with |- context[fold_left ?f r (?a, ?b, ?c)] =>
            match goal with |- _ = sw_front (fold_left ?g r ?t) =>
              assert (H : swR (fold_left f r (a, b, c)) (fold_left g r t))
                by (apply fold_left_sim; [swA_step|split; [reflexivity|discriminate]]);
              destruct (fold_left f r (a, b, c)) as [[? ?] ?]; destruct H as [E _]; inversion E; reflexivity
            end
          end ].
Qed.

Lemma gen_sweepB_eq best worst front : gen_sweepB best worst front = sweepB best worst front.
Proof. reflexivity. Qed.   (* sweepB is outside the translator's grammar (while / iterator): placeholder *)

(* ---- sortNDHelperB / sortNDHelperA: same recursion, callee by callee ---- *)
Lemma zlen_2_inv {A} (l : list A) : zlen l = 2 -> exists a b, l = [a; b].
Proof. destruct l as [|a [|b [|c l]]]; unfold zlen; cbn [length]; try lia. eauto. Qed.

Ltac same_ifs := repeat match goal with |- (if ?c then _ else _) = (if ?c then _ else _) => destruct c eqn:? end.
Ltac upto_norm := repeat match goal with |- context[@slice_to Z ?s ?e] => change (@slice_to Z s e) with (upto s e) end.
Ltac bool_cases :=
  upto_norm;
  repeat match goal with
  | |- context[is_dominated ?a ?b] => destruct (is_dominated a b)
  | |- context[key_eqb ?a ?b] => destruct (key_eqb a b)
  end; reflexivity.
(* recursive calls: rewrite the closed ones with the induction hypothesis, case on their result, repeat *)
Ltac calls IH :=
  repeat (rewrite ?IH, ?obind_some;
          match goal with
          | |- context[obind (helperB ?fu ?a ?b ?c ?d) _] => destruct (helperB fu a b c d); cbn [obind]
          | |- context[obind (helperA ?fu ?a ?c ?d) _] => destruct (helperA fu a c d); cbn [obind]
          end); rewrite ?IH, ?obind_some.

Ltac hB_branch IH :=
  first [ reflexivity
        | unfold helperB_direct; f_equal; apply fold_left_ext; intros ? ?; gnorm; rewrite ?fold_left_map;
          apply fold_left_ext; intros ? ?; gnorm; rewrite ?gen_isDominated_eq; unfold weakly_dominated_upto, fbump; first [reflexivity | bool_cases]
        | calls IH; reflexivity
        | match goal with |- context[splitB ?b ?w ?o] => destruct (splitB b w o) as [[[? ?] ?] ?] end; calls IH; reflexivity ].

Lemma gen_sortNDHelperB_eq fuel : forall best worst obj front,
  gen_sortNDHelperB fuel best worst obj front = helperB fuel best worst obj front.
Proof.
  first [ intros; reflexivity
        | induction fuel as [|fu IH]; intros best worst obj front; [reflexivity|];
          cbn [gen_sortNDHelperB helperB]; gnorm; rewrite ?gen_sweepB_eq, ?gen_splitB_eq, ?zmin_list_map_key, ?zmax_list_map_key;
          same_ifs; hB_branch IH ].
Qed.

Ltac hA_branch IH :=
  first [ reflexivity
        | zb2p; match goal with H : zlen ?fs = 2 |- _ => destruct (zlen_2_inv fs H) as (? & ? & ->) end;
          rewrite ?py_nth_0, ?py_nth_1, ?gen_isDominated_eq; unfold fbump;
          bool_cases
        | calls IH; reflexivity
        | match goal with |- context[splitA ?f ?o] => destruct (splitA f o) as [? ?] end;
          calls IH; rewrite ?gen_sortNDHelperB_eq; calls IH; reflexivity ].

Lemma gen_sortNDHelperA_eq fuel : forall fs obj front,
  gen_sortNDHelperA fuel fs obj front = helperA fuel fs obj front.
Proof.
  first [ intros; reflexivity
        | induction fuel as [|fu IH]; intros fs obj front; [reflexivity|];
          cbn [gen_sortNDHelperA helperA]; gnorm; rewrite ?gen_sweepA_eq, ?gen_splitA_eq;
          same_ifs; hA_branch IH ].
Qed.

(* ---- sortLogNondominated: grouping, dict.fromkeys, the sort, the recursion (with the model's fuel), extraction of the
   fronts and the trimming loop.  `individuals[0]` of the empty population raises in Python: the equality is claimed for
   non-empty populations (every C04 theorem about the divide-and-conquer sort has that hypothesis). ---- *)
Lemma gen_sortLogNondominated_eq pop k ffo : pop <> [] -> gen_sortLogNondominated pop k ffo = sort_log pop k ffo.
Proof.
  intro NE.
  first [ reflexivity
        | unfold gen_sortLogNondominated, sort_log, log_ranks, log_extract; gnorm;
          destruct (k =? 0); [reflexivity|];
          destruct pop as [|x0 rest]; [congruence|];
          rewrite ?py_nth_0;
          rewrite ?(fold_left_enum _ group_step) by (intros; reflexivity);
          change (fold_left group_step (x0 :: rest) []) with (group_inds (x0 :: rest));
          rewrite ?fromkeys_nodup by exact (group_inds_nodup (x0 :: rest));
          rewrite gen_sortNDHelperA_eq;
          let EH := fresh "EH" in let NN := fresh "NN" in
          destruct (helperA _ _ _ _) as [front|] eqn:EH; cbn [obind]; [|reflexivity];
          assert (NN : nonneg front) by (eapply nonneg_helperA; [apply nonneg_const|exact EH]);
          match goal with |- context[fold_left ?f ?l ?s] =>
            lazymatch f with context[py_extend_at] =>
              rewrite (fold_left_ext f (fun pf fit => app_at pf (Z.to_nat (fget front fit)) (kget (group_inds (x0 :: rest)) fit [])))
                by (intros; gnorm; apply py_extend_at_nonneg, NN) end end;
          set (pf := fold_left _ _ _);
          destruct ffo; cbn [negb];
          [ now rewrite ?py_nth_0_nth
          | first [ eapply (for_loop_log_cut k pf 0 1 _ _ LFronts eq_refl) with (pre := []) (suf := pf)
                  | eapply (for_loop_log_cut k pf 1 0 _ _ LFronts eq_refl) with (pre := []) (suf := pf) ];
            [solve [intros; gnorm; ifs_solve] | solve [intros; cbv beta; lia] | reflexivity] ] ].
Qed.
