(* More about Model/C02_Variation.v:
   1. a weak invariant (shape + "live offspring were allocated since h0") that needs no hypothesis on
      what mate returns: parents_untouched and offspring_count hold for EVERY operator in the frame;
   2. progress: with enough random() draws varAnd never raises; varOr returns under the guard
      or_draws_ok (two individuals when a crossover draw occurs, one otherwise). *)
From Coq Require Import List ZArith Bool Arith Lia.
From DV Require Import Model.C02_Variation Proofs.C02_Variation.
Import ListNotations.

Section Weak.
Variables G F T : Type.
Variable ltb : T -> T -> bool.
Variable mate_o : nat -> G * option F -> G * option F -> mate_ans G F.
Variable mut_o : nat -> G * option F -> mut_ans G F.
Notation heap := (heap G F).
Notation st := (st G F T).
Variable h0 : heap.
Notation shape := (shape G F h0).

Definition fresh (h : heap) (o : nat) : Prop := ni h0 <= o < ni h.

Lemma w_clone (s s' : st) p c :
  shape (hp s) -> do_clone s p = (s', c) ->
  shape (hp s') /\ ni (hp s) <= ni (hp s') /\ fresh (hp s') c.
Proof.
  intros Hs. unfold do_clone, clone. intros [= <- <-]. cbn [hp].
  split; [apply (shape_alloc G F h0 (hp s) _ _ Hs)|]. cbn. pose proof (sh_ni _ _ _ _ Hs). unfold fresh. cbn. lia.
Qed.

Lemma w_resolve (h h' : heap) a b r x :
  shape h -> fresh h a -> fresh h b -> resolve h a b r = (h', x) ->
  shape h' /\ ni h <= ni h' /\ fresh h' x.
Proof.
  intros Hs Ha Hb. destruct r as [| |c]; cbn.
  - intros [= <- <-]. auto.
  - intros [= <- <-]. auto.
  - intros [= <- <-]. split; [apply (shape_alloc G F h0 h _ _ Hs)|]. pose proof (sh_ni _ _ _ _ Hs).
    unfold fresh. cbn. lia.
Qed.

Lemma w_mate (s s' : st) a b r1 r2 :
  shape (hp s) -> fresh (hp s) a -> fresh (hp s) b -> do_mate mate_o s a b = (s', (r1, r2)) ->
  shape (hp s') /\ ni (hp s) <= ni (hp s') /\ fresh (hp s') r1 /\ fresh (hp s') r2.
Proof.
  intros Hs Ha Hb. unfold do_mate.
  set (ans := mate_o (kc s) (content (hp s) a) (content (hp s) b)).
  pose proof (shape_write G F h0 _ a (ma_1 ans) Hs Ha) as H1.
  assert (Hb1 : fresh (write (hp s) a (ma_1 ans)) b) by exact Hb.
  pose proof (shape_write G F h0 _ b (ma_2 ans) H1 Hb1) as H2.
  set (h2 := write (write (hp s) a (ma_1 ans)) b (ma_2 ans)) in *.
  assert (Ha2 : fresh h2 a) by exact Ha. assert (Hb2 : fresh h2 b) by exact Hb.
  destruct (resolve h2 a b (ma_r1 ans)) as [h3 x1] eqn:E1.
  destruct (w_resolve _ _ _ _ _ _ H2 Ha2 Hb2 E1) as (H3 & Hm3 & Hx1).
  assert (Ha3 : fresh h3 a) by (unfold fresh in *; lia).
  assert (Hb3 : fresh h3 b) by (unfold fresh in *; lia).
  destruct (resolve h3 a b (ma_r2 ans)) as [h4 x2] eqn:E2.
  destruct (w_resolve _ _ _ _ _ _ H3 Ha3 Hb3 E2) as (H4 & Hm4 & Hx2).
  intros [= <- <- <-]. cbn [hp]. split; [exact H4|]. unfold fresh in *.
  assert (ni h2 = ni (hp s)) by reflexivity. lia.
Qed.

Lemma w_mut (s s' : st) a r :
  shape (hp s) -> fresh (hp s) a -> do_mut mut_o s a = (s', r) ->
  shape (hp s') /\ ni (hp s) <= ni (hp s') /\ fresh (hp s') r.
Proof.
  intros Hs Ha. unfold do_mut.
  set (ans := mut_o (kc s) (content (hp s) a)).
  pose proof (shape_write G F h0 _ a (mu_1 ans) Hs Ha) as H1.
  destruct (mu_r ans) as [|c].
  - intros [= <- <-]. cbn [hp]. split; [exact H1|]. split; [cbn; lia|exact Ha].
  - unfold alloc. intros [= <- <-]. cbn [hp].
    split; [apply (shape_alloc G F h0 _ (fst c) (snd c) H1)|]. pose proof (sh_ni _ _ _ _ Hs).
    unfold fresh in *. cbn. lia.
Qed.

Lemma w_del (s : st) x : shape (hp s) -> fresh (hp s) x -> shape (hp (do_del s x)).
Proof. intros Hs Hx. cbn. now apply shape_del. Qed.

Lemma fresh_mono (h h' : heap) o : ni h <= ni h' -> fresh h o -> fresh h' o.
Proof. unfold fresh. lia. Qed.

Lemma w_clone_all : forall ps (s s' : st) cs,
  shape (hp s) -> clone_all s ps = (s', cs) ->
  shape (hp s') /\ ni (hp s) <= ni (hp s') /\ length cs = length ps /\ Forall (fresh (hp s')) cs.
Proof.
  induction ps as [|p r IH]; intros s s' cs Hs; cbn [clone_all].
  - intros [= <- <-]. auto.
  - destruct (do_clone s p) as [s1 c] eqn:Ec. destruct (clone_all s1 r) as [s2 cs'] eqn:Er.
    intros [= <- <-]. destruct (w_clone _ _ _ _ Hs Ec) as (H1 & Hm1 & Hc).
    destruct (IH _ _ _ H1 Er) as (H2 & Hm2 & Hl & Hf). split; [exact H2|]. split; [lia|].
    split; [cbn; lia|]. constructor; [eapply fresh_mono; eauto|exact Hf].
Qed.

Lemma w_mate_loop cxpb : forall l (s s' : st) res,
  shape (hp s) -> Forall (fresh (hp s)) l -> mate_loop ltb mate_o cxpb s l = (s', res) ->
  shape (hp s') /\ ni (hp s) <= ni (hp s') /\
  forall l', res = inr l' -> length l' = length l /\ Forall (fresh (hp s')) l'.
Proof.
  induction l as [|a|a b r IH] using list_pair_ind; intros s s' res Hs Hf.
  - cbn. intros [= <- <-]. split; auto. split; auto. intros l' [= <-]. auto.
  - cbn. intros [= <- <-]. split; auto. split; auto. intros l' [= <-]. auto.
  - cbn [mate_loop]. destruct (next_random s) as [[u s1]|] eqn:En.
    2:{ intros [= <- <-]. split; auto. split; auto. intros l' E; discriminate. }
    destruct (next_random_spec _ _ _ _ _ _ En) as (Eh & _).
    inversion Hf as [|? ? Ha Hf1]; subst. inversion Hf1 as [|? ? Hb Hfr]; subst.
    rewrite <- Eh in *. destruct (ltb u cxpb).
    + destruct (do_mate mate_o s1 a b) as [s2 [r1 r2]] eqn:Em.
      destruct (w_mate _ _ _ _ _ _ Hs Ha Hb Em) as (H2 & Hm2 & Hr1 & Hr2).
      pose proof (w_del s2 r1 H2 Hr1) as H3.
      assert (Hr2' : fresh (hp (do_del s2 r1)) r2) by exact Hr2.
      pose proof (w_del (do_del s2 r1) r2 H3 Hr2') as H4.
      assert (Hfr4 : Forall (fresh (hp (do_del (do_del s2 r1) r2))) r).
      { eapply Forall_impl; [|exact Hfr]. intros o Ho. eapply fresh_mono; [|exact Ho]. exact Hm2. }
      destruct (mate_loop ltb mate_o cxpb (do_del (do_del s2 r1) r2) r) as [s4 [e|r']] eqn:Er;
        destruct (IH _ _ _ H4 Hfr4 Er) as (H5 & Hm5 & Hres); intros [= <- <-].
      * split; auto. split; [cbn in Hm5; lia|]. intros l' E; discriminate.
      * split; auto. split; [cbn in Hm5; lia|]. intros l' [= <-].
        destruct (Hres r' eq_refl) as [Hl Hfr']. split; [cbn; lia|].
        constructor; [eapply fresh_mono; [|exact Hr1]; exact Hm5|].
        constructor; [eapply fresh_mono; [|exact Hr2]; exact Hm5|exact Hfr'].
    + destruct (mate_loop ltb mate_o cxpb s1 r) as [s4 [e|r']] eqn:Er;
        destruct (IH _ _ _ Hs Hfr Er) as (H5 & Hm5 & Hres); intros [= <- <-].
      * split; auto. split; auto. intros l' E; discriminate.
      * split; auto. split; auto. intros l' [= <-].
        destruct (Hres r' eq_refl) as [Hl Hfr']. split; [cbn; lia|].
        constructor; [eapply fresh_mono; eauto|]. constructor; [eapply fresh_mono; eauto|exact Hfr'].
Qed.

Lemma w_mut_loop mutpb : forall l (s s' : st) res,
  shape (hp s) -> Forall (fresh (hp s)) l -> mut_loop ltb mut_o mutpb s l = (s', res) ->
  shape (hp s') /\ ni (hp s) <= ni (hp s') /\
  forall l', res = inr l' -> length l' = length l /\ Forall (fresh (hp s')) l'.
Proof.
  induction l as [|a r IH]; intros s s' res Hs Hf.
  - cbn. intros [= <- <-]. split; auto. split; auto. intros l' [= <-]. auto.
  - cbn [mut_loop]. destruct (next_random s) as [[u s1]|] eqn:En.
    2:{ intros [= <- <-]. split; auto. split; auto. intros l' E; discriminate. }
    destruct (next_random_spec _ _ _ _ _ _ En) as (Eh & _).
    inversion Hf as [|? ? Ha Hfr]; subst. rewrite <- Eh in *. destruct (ltb u mutpb).
    + destruct (do_mut mut_o s1 a) as [s2 r1] eqn:Em.
      destruct (w_mut _ _ _ _ Hs Ha Em) as (H2 & Hm2 & Hr1).
      pose proof (w_del s2 r1 H2 Hr1) as H3.
      assert (Hfr3 : Forall (fresh (hp (do_del s2 r1))) r).
      { eapply Forall_impl; [|exact Hfr]. intros o Ho. eapply fresh_mono; [|exact Ho]. exact Hm2. }
      destruct (mut_loop ltb mut_o mutpb (do_del s2 r1) r) as [s4 [e|r']] eqn:Er;
        destruct (IH _ _ _ H3 Hfr3 Er) as (H5 & Hm5 & Hres); intros [= <- <-].
      * split; auto. split; [cbn in Hm5; lia|]. intros l' E; discriminate.
      * split; auto. split; [cbn in Hm5; lia|]. intros l' [= <-].
        destruct (Hres r' eq_refl) as [Hl Hfr']. split; [cbn; lia|].
        constructor; [eapply fresh_mono; [|exact Hr1]; exact Hm5|exact Hfr'].
    + destruct (mut_loop ltb mut_o mutpb s1 r) as [s4 [e|r']] eqn:Er;
        destruct (IH _ _ _ Hs Hfr Er) as (H5 & Hm5 & Hres); intros [= <- <-].
      * split; auto. split; auto. intros l' E; discriminate.
      * split; auto. split; auto. intros l' [= <-].
        destruct (Hres r' eq_refl) as [Hl Hfr']. split; [cbn; lia|].
        constructor; [eapply fresh_mono; eauto|exact Hfr'].
Qed.

Variable pop : list nat.
Hypothesis wf0 : wf_heap h0.
Hypothesis popok : pop_ok h0 pop.

(* for every mate oracle, also one returning the same object twice *)
Lemma and_weak cxpb mutpb d s' res :
  var_and ltb mate_o mut_o cxpb mutpb (start h0 d) pop = (s', res) ->
  untouched h0 pop (hp s') /\ forall off, res = inr off -> length off = length pop.
Proof.
  unfold var_and. destruct (clone_all (start h0 d) pop) as [s1 off1] eqn:Ec.
  destruct (w_clone_all pop (start h0 d) s1 off1 (shape_refl G F h0) Ec) as (H1 & _ & Hl1 & Hf1).
  destruct (mate_loop ltb mate_o cxpb s1 off1) as [s2 [e|off2]] eqn:Em;
    destruct (w_mate_loop _ _ _ _ _ H1 Hf1 Em) as (H2 & _ & Hres2).
  - intros [= <- <-]. split; [apply (shape_untouched G F h0 pop wf0 popok), H2|]. intros off E; discriminate.
  - destruct (Hres2 off2 eq_refl) as [Hl2 Hf2]. intro Eu.
    destruct (w_mut_loop _ _ _ _ _ H2 Hf2 Eu) as (H3 & _ & Hres3).
    split; [apply (shape_untouched G F h0 pop wf0 popok), H3|].
    intros off E. destruct (Hres3 off E) as [Hl3 _]. lia.
Qed.

End Weak.

(* ================================================================== progress *)
Section Progress.
Variables G F T : Type.
Variable ltb : T -> T -> bool.
Variable mate_o : nat -> G * option F -> G * option F -> mate_ans G F.
Variable mut_o : nat -> G * option F -> mut_ans G F.
Notation st := (st G F T).

Lemma do_clone_dr (s : st) p : dr (fst (do_clone s p)) = dr s /\ kc (fst (do_clone s p)) = kc s.
Proof. unfold do_clone. destruct (clone (hp s) p). cbn. auto. Qed.

Lemma do_mate_dr (s : st) a b : dr (fst (do_mate mate_o s a b)) = dr s.
Proof.
  unfold do_mate. destruct (resolve _ a b _) as [h3 r1]. destruct (resolve h3 a b _) as [h4 r2]. reflexivity.
Qed.

Lemma do_mut_dr (s : st) a : dr (fst (do_mut mut_o s a)) = dr s.
Proof.
  unfold do_mut. destruct (mu_r _); [reflexivity|]. destruct (alloc _ _ _). reflexivity.
Qed.

Lemma clone_all_dr : forall ps (s : st), dr (fst (clone_all s ps)) = dr s /\ length (snd (clone_all s ps)) = length ps.
Proof.
  induction ps as [|p r IH]; intro s; cbn [clone_all]; [auto|].
  pose proof (do_clone_dr s p) as [Hd _]. destruct (do_clone s p) as [s1 c]. cbn in Hd.
  destruct (IH s1) as [Hd2 Hl]. destruct (clone_all s1 r) as [s2 cs]. cbn in *. split; [congruence|lia].
Qed.

Lemma next_random_cons (s : st) u rest :
  dr s = DRandom u :: rest -> next_random s = Some (u, mkst (hp s) rest (kc s) (lg s)).
Proof. unfold next_random. intros ->. reflexivity. Qed.

Lemma mate_loop_total cxpb : forall l (s : st) us rest,
  dr s = map DRandom us ++ rest -> length us = Nat.div2 (length l) ->
  exists s' l', mate_loop ltb mate_o cxpb s l = (s', inr l') /\ dr s' = rest /\ length l' = length l.
Proof.
  induction l as [|a|a b r IH] using list_pair_ind; intros s us rest Hd Hl.
  - destruct us; [|discriminate]. exists s, []. cbn. auto.
  - destruct us; [|discriminate]. exists s, [a]. cbn. auto.
  - destruct us as [|u us]; [discriminate|]. cbn in Hl. injection Hl as Hl. cbn in Hd.
    cbn [mate_loop]. rewrite (next_random_cons _ _ _ Hd).
    destruct (ltb u cxpb).
    + pose proof (do_mate_dr (mkst (hp s) (map DRandom us ++ rest) (kc s) (lg s)) a b) as Hm.
      destruct (do_mate mate_o _ a b) as [s2 [r1 r2]]. cbn in Hm.
      destruct (IH (do_del (do_del s2 r1) r2) us rest) as (s' & l' & E & Hd' & Hl'); [exact Hm|exact Hl|].
      rewrite E. exists s', (r1 :: r2 :: l'). cbn. auto.
    + destruct (IH (mkst (hp s) (map DRandom us ++ rest) (kc s) (lg s)) us rest) as (s' & l' & E & Hd' & Hl');
        [reflexivity|exact Hl|].
      rewrite E. exists s', (a :: b :: l'). cbn. auto.
Qed.

Lemma mut_loop_total mutpb : forall l (s : st) us rest,
  dr s = map DRandom us ++ rest -> length us = length l ->
  exists s' l', mut_loop ltb mut_o mutpb s l = (s', inr l') /\ dr s' = rest /\ length l' = length l.
Proof.
  induction l as [|a r IH]; intros s us rest Hd Hl.
  - destruct us; [|discriminate]. exists s, []. cbn. auto.
  - destruct us as [|u us]; [discriminate|]. cbn in Hl. injection Hl as Hl. cbn in Hd.
    cbn [mut_loop]. rewrite (next_random_cons _ _ _ Hd).
    destruct (ltb u mutpb).
    + pose proof (do_mut_dr (mkst (hp s) (map DRandom us ++ rest) (kc s) (lg s)) a) as Hm.
      destruct (do_mut mut_o _ a) as [s2 r1]. cbn in Hm.
      destruct (IH (do_del s2 r1) us rest) as (s' & l' & E & Hd' & Hl'); [exact Hm|exact Hl|].
      rewrite E. exists s', (r1 :: l'). cbn. auto.
    + destruct (IH (mkst (hp s) (map DRandom us ++ rest) (kc s) (lg s)) us rest) as (s' & l' & E & Hd' & Hl');
        [reflexivity|exact Hl|].
      rewrite E. exists s', (a :: l'). cbn. auto.
Qed.

(* varAnd consumes exactly len//2 + len random() draws and never raises *)
Lemma and_total cxpb mutpb h0 pop us rest :
  length us = Nat.div2 (length pop) + length pop ->
  exists s' off, var_and ltb mate_o mut_o cxpb mutpb (start h0 (map DRandom us ++ rest)) pop = (s', inr off)
                 /\ dr s' = rest.
Proof.
  intro Hl. unfold var_and.
  destruct (clone_all_dr pop (start h0 (map DRandom us ++ rest))) as [Hd Hlen].
  destruct (clone_all _ pop) as [s1 off1]. cbn in Hd, Hlen.
  set (k := Nat.div2 (length pop)) in *.
  assert (Hsplit : map DRandom us ++ rest = map DRandom (firstn k us) ++ (map DRandom (skipn k us) ++ rest)).
  { rewrite app_assoc, <- map_app, firstn_skipn. reflexivity. }
  rewrite Hsplit in Hd.
  destruct (mate_loop_total cxpb off1 s1 (firstn k us) _ Hd) as (s2 & off2 & E2 & Hd2 & Hl2).
  { rewrite firstn_length, Hlen. fold k. lia. }
  rewrite E2.
  destruct (mut_loop_total mutpb off2 s2 (skipn k us) rest Hd2) as (s3 & off3 & E3 & Hd3 & Hl3).
  { rewrite skipn_length, Hl2, Hlen. lia. }
  exists s3, off3. auto.
Qed.

Variables (leb : T -> T -> bool) (add : T -> T -> T) (one : T).

Lemma var_or_step_total cxpb mutpb pop (s : st) :
  or_draws_ok ltb cxpb (length pop) 1 (dr s) ->
  exists s' o rest, var_or_step ltb add mate_o mut_o cxpb mutpb pop s = (s', inr o) /\ dr s' = rest /\
    forall n, or_draws_ok ltb cxpb (length pop) (S n) (dr s) -> or_draws_ok ltb cxpb (length pop) n rest.
Proof.
  intro Hok. cbn in Hok. unfold var_or_step, next_random.
  destruct (dr s) as [|[u|? ? ?|? ?] [|[u2|m i j|m i] rest]] eqn:Ed; try contradiction.
  - destruct Hok as (Eu & Hn & -> & Hi & Hj & _). cbn [dr hp kc lg]. rewrite Eu.
    assert (E2 : Nat.ltb (length pop) 2 = false) by (apply Nat.ltb_ge; lia). rewrite E2.
    rewrite Nat.eqb_refl.
    destruct (nth_error pop i) as [p1|] eqn:E1; [|apply nth_error_None in E1; lia].
    destruct (nth_error pop j) as [p2|] eqn:E3; [|apply nth_error_None in E3; lia].
    set (s2 := mkst (hp s) rest (kc s) (lg s)).
    pose proof (do_clone_dr s2 p1) as [Hd3 _]. destruct (do_clone s2 p1) as [s3 c1]. cbn in Hd3.
    pose proof (do_clone_dr s3 p2) as [Hd4 _]. destruct (do_clone s3 p2) as [s4 c2]. cbn in Hd4.
    pose proof (do_mate_dr s4 c1 c2) as Hd5. destruct (do_mate mate_o s4 c1 c2) as [s5 [r1 r2]]. cbn in Hd5.
    exists (do_del s5 r1), r1, rest. split; [reflexivity|]. split; [cbn; congruence|].
    intros n Hn'. cbn in Hn'. exact (proj2 (proj2 (proj2 (proj2 (proj2 Hn'))))).
  - destruct Hok as (Eu & -> & Hi & _). cbn [dr hp kc lg]. rewrite Eu.
    assert (E2 : Nat.eqb (length pop) 0 = false) by (apply Nat.eqb_neq; lia). rewrite E2.
    rewrite Nat.eqb_refl.
    destruct (nth_error pop i) as [p|] eqn:E1; [|apply nth_error_None in E1; lia].
    set (s2 := mkst (hp s) rest (kc s) (lg s)).
    pose proof (do_clone_dr s2 p) as [Hd3 _]. destruct (do_clone s2 p) as [s3 c]. cbn in Hd3.
    destruct (ltb u (add cxpb mutpb)).
    + pose proof (do_mut_dr s3 c) as Hd4. destruct (do_mut mut_o s3 c) as [s4 r]. cbn in Hd4.
      exists (do_del s4 r), r, rest. split; [reflexivity|]. split; [cbn; congruence|].
      intros n Hn'. cbn in Hn'. exact (proj2 (proj2 (proj2 Hn'))).
    + exists s3, c, rest. split; [reflexivity|]. split; [cbn; congruence|].
      intros n Hn'. cbn in Hn'. exact (proj2 (proj2 (proj2 Hn'))).
Qed.

Lemma or_draws_ok_one cxpb npop n d : or_draws_ok ltb cxpb npop (S n) d -> or_draws_ok ltb cxpb npop 1 d.
Proof.
  cbn. destruct d as [|[u|? ? ?|? ?] [|[u2|m i j|m i] rest]]; try contradiction.
  - intros (A & B & C & D & E & _). repeat split; assumption.
  - intros (A & B & C & _). repeat split; assumption.
Qed.

Lemma var_or_loop_total cxpb mutpb pop : forall n (s : st),
  or_draws_ok ltb cxpb (length pop) n (dr s) ->
  exists s' os, var_or_loop ltb add mate_o mut_o cxpb mutpb pop n s = (s', inr os).
Proof.
  induction n as [|n IH]; intros s Hok; cbn [var_or_loop].
  - eauto.
  - destruct (var_or_step_total cxpb mutpb pop s (or_draws_ok_one _ _ _ _ Hok)) as (s1 & o & rest & E & Hd & Hnext).
    rewrite E. specialize (Hnext n Hok). rewrite <- Hd in Hnext.
    destruct (IH s1 Hnext) as (s2 & os & E2). rewrite E2. eauto.
Qed.

(* varOr returns (and then, by or_offspring_count, exactly lambda_ offspring) whenever the assertion
   holds and the population is large enough for the branches the draws select *)
Lemma or_total lambda_ cxpb mutpb h0 pop d :
  leb (add cxpb mutpb) one = true ->
  or_draws_ok ltb cxpb (length pop) (Z.to_nat lambda_) d ->
  exists s' off, var_or ltb leb add one mate_o mut_o lambda_ cxpb mutpb (start h0 d) pop = (s', inr off).
Proof.
  intros E Hok. unfold var_or. rewrite E. apply var_or_loop_total. exact Hok.
Qed.

End Progress.
