(* C11 — the guards never fire: on well-typed trees no operator (and no generator) fails with
   anything but a rejected draw list (EDraw) or an empty pool at a requested type (EEmpty, the
   IndexError of random.choice on an empty sequence).  In particular searchSubtree never runs off
   the list, height never pops an empty stack, and the checks of PrimitiveTree.__setitem__
   (IndexError / ValueError) never trigger on the slices and nodes the operators assign. *)
From Coq Require Import List ZArith NArith Bool Lia.
From DV Require Import Model.C11_GPTree Proofs.C11_Tree Proofs.C11_Gen Proofs.C11_Ops Proofs.C11_Cx.
Import ListNotations.
Local Open Scope Z_scope.

Definition benign (e : err) : Prop := e = EDraw \/ e = EEmpty.

Lemma d_choice_err {A} (l : list A) ds e : d_choice l ds = Err e -> benign e.
Proof.
  unfold d_choice, benign. destruct l as [|a l]; [intro H; inversion H; auto|].
  destruct ds as [|[] ds0]; try (intro H; inversion H; auto).
  destruct ((n =? zlen (a :: l)) && (0 <=? i)); [|inversion H; auto].
  destruct (nth_error (a :: l) (Z.to_nat i)); inversion H; auto.
Qed.
Lemma d_randrange_err lo hi ds e : d_randrange lo hi ds = Err e -> lo < hi -> benign e.
Proof.
  unfold d_randrange, benign. intros H Hl. replace (hi <=? lo) with false in H by (symmetry; apply Z.leb_gt; lia).
  destruct ds as [|[] ds0]; try (inversion H; auto).
  destruct ((lo =? lo0) && (hi =? hi0) && (lo <=? r) && (r <? hi)); inversion H; auto.
Qed.
Lemma d_randint_err lo hi ds e : d_randint lo hi ds = Err e -> lo <= hi -> benign e.
Proof.
  unfold d_randint, benign. intros H Hl. replace (hi <? lo) with false in H by (symmetry; apply Z.ltb_ge; lia).
  destruct ds as [|[] ds0]; try (inversion H; auto).
  destruct ((lo =? lo0) && (hi =? hi0) && (lo <=? r) && (r <=? hi)); inversion H; auto.
Qed.
Lemma d_random_err ds e : d_random ds = Err e -> benign e.
Proof.
  unfold d_random, benign. destruct ds as [|[] ds0]; try (intro H; inversion H; auto).
  destruct ((0 <=? num) && (num <? Z.pos den)); inversion H; auto.
Qed.
Lemma d_eph_err nm ds e : d_eph nm ds = Err e -> benign e.
Proof.
  unfold d_eph, benign. destruct ds as [|[] ds0]; try (intro H; inversion H; auto).
  destruct (N.eqb name nm); inversion H; auto.
Qed.
Lemma instantiate_err n ds e : instantiate n ds = Err e -> benign e.
Proof.
  unfold instantiate. destruct (neph n); [|discriminate].
  intro H. apply bind_err in H. destruct H as [H|(v & ds1 & _ & H)]; [eapply d_eph_err; eauto|discriminate].
Qed.
Lemma lift_err {A} (r : res A) ds e : lift r ds = Err e -> r = Err e.
Proof. unfold lift. destruct r; intro H; inversion H; auto. Qed.

(* ------------------------------------------------------------------ generators *)
Lemma condition_err ps mode minh h d ds e : condition ps mode minh h d ds = Err e -> benign e.
Proof.
  unfold condition. destruct mode; [discriminate|]. destruct (d =? h); [discriminate|].
  destruct (minh <=? d); [|discriminate]. intro H.
  apply bind_err in H. destruct H as [H|(u & ds1 & _ & H)]; [eapply d_random_err; eauto|discriminate].
Qed.

Lemma gen_loop_err ps mode minh h : forall fuel st acc ds e,
  gen_loop fuel ps mode minh h st acc ds = Err e -> benign e \/ e = EFuel.
Proof.
  induction fuel as [|f IH]; intros st acc ds e H.
  - destruct st as [|[d t] st]; [discriminate|]. inversion H; auto.
  - destruct st as [|[d t] st]; [discriminate|]. cbn [gen_loop] in H.
    apply bind_err in H. destruct H as [H|(c & ds1 & _ & H)]; [left; eapply condition_err; eauto|].
    destruct c.
    + apply bind_err in H. destruct H as [H|(x & ds2 & _ & H)]; [left; eapply d_choice_err; eauto|].
      apply bind_err in H. destruct H as [H|(x' & ds3 & _ & H)]; [left; eapply instantiate_err; eauto|].
      eapply IH; eauto.
    + apply bind_err in H. destruct H as [H|(x & ds2 & _ & H)]; [left; eapply d_choice_err; eauto|].
      eapply IH; eauto.
Qed.

Lemma generate_err ps mode minh maxh t ds e : 0 <= minh <= maxh ->
  generate ps mode minh maxh t ds = Err e -> benign e.
Proof.
  intros Hm H. pose proof (generate_no_fuel_error ps mode minh maxh t ds (proj1 Hm)) as NF.
  unfold generate in H. apply bind_err in H. destruct H as [H|(h & ds1 & Hh & H)].
  - eapply d_randint_err; eauto. lia.
  - pose proof H as H'. apply gen_loop_err in H. destruct H as [H| ->]; auto.
    exfalso. apply NF. unfold generate, bind. rewrite Hh. exact H'.
Qed.

Lemma gen_expr_err ps g ot ds e : 0 <= g_min g <= g_max g -> gen_expr ps g ot ds = Err e -> benign e.
Proof.
  intros Hm H. unfold gen_expr in H. destruct (g_kind g).
  - eapply generate_err; eauto.
  - eapply generate_err; eauto.
  - apply bind_err in H. destruct H as [H|(m & ds1 & _ & H)]; [eapply d_choice_err; eauto|].
    eapply generate_err; eauto.
Qed.

(* ------------------------------------------------------------------ operators *)
Section Safe.
  Variable sub : ty -> ty -> bool.
  Hypothesis sub_refl : forall a, sub a a = true.
  Hypothesis sub_trans : forall a b c, sub a b = true -> sub b c = true -> sub a c = true.
  Variable ps : pset.
  Hypothesis Hps : pset_ok sub ps.

  Lemma flatten_nonempty t : (0 < length (flatten t))%nat.
  Proof. rewrite length_flatten. apply size_pos. Qed.

  Theorem mut_uniform_safe top t g ds e :
    0 <= g_min g <= g_max g -> typed sub top t ->
    mut_uniform ps g (flatten t) ds = Err e -> benign e.
  Proof.
    intros Hg Ht H. unfold mut_uniform in H. pose proof (flatten_nonempty t) as Hne.
    apply bind_err in H. destruct H as [H|(zi & ds1 & Hz & H)].
    { eapply d_randrange_err; eauto. unfold zlen. lia. }
    apply d_randrange_ok in Hz. destruct Hz as [Hz _]. unfold zlen in Hz.
    destruct (index_decompose sub top t (Z.to_nat zi) Ht) as (c & u & e0 & -> & Hc & Hw & Hu & Hs); [lia|].
    rewrite <- Hc in H. unfold bind at 1 in H. unfold lift at 1 in H. rewrite search_plug in H by auto.
    cbn [fst snd] in H. rewrite nth_plug in H.
    apply bind_err in H. destruct H as [H|(new & ds3 & Hnew & H)]; [eapply gen_expr_err; eauto|].
    apply gen_expr_typed with (sub := sub) in Hnew; auto; [|lia]. destruct Hnew as (k & -> & Hk).
    apply lift_err in H. rewrite set_slice_plug in H by (eapply typed_wft; eauto). discriminate.
  Qed.

  Lemma set_item_same l i n v : nth_error l i = Some n -> arity v = arity n ->
    set_item l i v = Ok (set_nth l i v).
  Proof. intros H E. unfold set_item. rewrite H, E, Nat.eqb_refl. reflexivity. Qed.

  Theorem mut_node_replacement_safe top t ds e :
    typed sub top t -> mut_node_replacement ps (flatten t) ds = Err e -> benign e.
  Proof.
    intros Ht H. unfold mut_node_replacement in H.
    destruct (length (flatten t) <? 2)%nat eqn:El; [discriminate|]. apply Nat.ltb_ge in El.
    apply bind_err in H. destruct H as [H|(zi & ds1 & Hz & H)].
    { eapply d_randrange_err; eauto. unfold zlen. lia. }
    apply d_randrange_ok in Hz. destruct Hz as [Hz _]. unfold zlen in Hz.
    destruct (nth_error (flatten t) (Z.to_nat zi)) as [nd|] eqn:Hn.
    2:{ apply nth_error_None in Hn. lia. }
    destruct (Nat.eqb (arity nd) 0) eqn:Ear.
    - apply bind_err in H. destruct H as [H|(term & ds2 & Hch & H)]; [eapply d_choice_err; eauto|].
      apply bind_err in H. destruct H as [H|(term' & ds3 & Hin & H)]; [eapply instantiate_err; eauto|].
      apply lift_err in H. apply d_choice_ok in Hch. destruct Hch as [Hmem _].
      apply instantiate_ok in Hin. destruct Hin as [(v & ->) _].
      destruct Hps as [_ Hterm]. destruct (Hterm _ _ Hmem) as [S1 S2].
      rewrite (set_item_same _ _ nd) in H; [discriminate|auto|].
      apply Nat.eqb_eq in Ear. unfold arity in *. destruct (set_val_fields term v) as (F1 & _).
      rewrite F1, S2, Ear. reflexivity.
    - apply bind_err in H. destruct H as [H|(p & ds2 & Hch & H)]; [eapply d_choice_err; eauto|].
      apply lift_err in H. apply d_choice_ok in Hch. destruct Hch as [Hmem _].
      apply filter_In in Hmem. destruct Hmem as [_ Eargs]. apply tys_eqb_eq in Eargs.
      rewrite (set_item_same _ _ nd) in H; [discriminate|auto|]. unfold arity. rewrite Eargs. reflexivity.
  Qed.

  Lemma set_nth_length {A} (l : list A) k v : length (set_nth l k v) = length l.
  Proof. revert k; induction l as [|x r IH]; destruct k; cbn; auto. Qed.

  Lemma eph_fold_safe : forall idxs l ds e,
    Forall (fun i => (i < length l)%nat) idxs -> eph_fold l idxs ds = Err e -> benign e.
  Proof.
    induction idxs as [|i r IH]; intros l ds e Hi H; [discriminate|].
    cbn [eph_fold] in H. inversion Hi as [|? ? Hlt Hr]; subst.
    destruct (nth_error l i) as [n|] eqn:Hn.
    2:{ apply nth_error_None in Hn. lia. }
    apply bind_err in H. destruct H as [H|(v & ds1 & _ & H)]; [eapply d_eph_err; eauto|].
    rewrite (set_item_same _ _ n) in H by (auto; unfold arity; destruct (set_val_fields n v) as (F1 & _); rewrite F1; reflexivity).
    unfold bind at 1 in H. unfold lift at 1 in H.
    eapply IH; [|exact H]. rewrite set_nth_length. exact Hr.
  Qed.

  Theorem mut_ephemeral_safe mode l ds e :
    mode <> EOther -> mut_ephemeral mode l ds = Err e -> benign e.
  Proof.
    intros Hm H. unfold mut_ephemeral in H.
    assert (Hidx : Forall (fun i => (i < length l)%nat) (map fst (filter (fun p => neph (snd p)) (enumerate l)))).
    { apply Forall_forall. intros i Hi. apply in_map_iff in Hi. destruct Hi as ([j n] & <- & Hj).
      apply filter_In in Hj. destruct Hj as [Hj _]. apply in_enumerate in Hj. cbn.
      apply nth_error_Some. congruence. }
    destruct mode; [| |congruence].
    - destruct (map fst (filter (fun p => neph (snd p)) (enumerate l))) as [|i0 r0] eqn:E; [discriminate|].
      cbv zeta in H. apply bind_err in H. destruct H as [H|(idxs & ds1 & Hsel & H)].
      + apply bind_err in H. destruct H as [H|(? & ? & _ & H)]; [eapply d_choice_err; eauto|discriminate].
      + apply bind_ok in Hsel. destruct Hsel as (i & ds2 & Hc & Hr). apply ret_ok in Hr. destruct Hr; subst.
        apply d_choice_ok in Hc. destruct Hc as [Hc _]. rewrite Forall_forall in Hidx.
        eapply eph_fold_safe; [|exact H]. constructor; [apply Hidx; exact Hc|constructor].
    - destruct (map fst (filter (fun p => neph (snd p)) (enumerate l))) as [|i0 r0] eqn:E; [discriminate|].
      cbv zeta in H. apply bind_err in H. destruct H as [H|(idxs & ds1 & Hsel & H)]; [discriminate|].
      apply ret_ok in Hsel. destruct Hsel; subst. eapply eph_fold_safe; eauto.
  Qed.

  Lemma insert_fill_err old position : forall args i ds e,
    insert_fill ps old position i args ds = Err e -> benign e.
  Proof.
    induction args as [|a r IH]; intros i ds e H; [discriminate|].
    cbn [insert_fill] in H. destruct (Nat.eqb i position).
    - apply bind_err in H. destruct H as [H|(? & ? & _ & H)]; [eapply IH; eauto|discriminate].
    - apply bind_err in H. destruct H as [H|(x & ds1 & _ & H)]; [eapply d_choice_err; eauto|].
      apply bind_err in H. destruct H as [H|(x' & ds2 & _ & H)]; [eapply instantiate_err; eauto|].
      apply bind_err in H. destruct H as [H|(? & ? & _ & H)]; [eapply IH; eauto|discriminate].
  Qed.

  Theorem mut_insert_safe top t ds e :
    typed sub top t -> mut_insert ps (flatten t) ds = Err e -> benign e.
  Proof.
    intros Ht H. unfold mut_insert in H. pose proof (flatten_nonempty t) as Hne.
    apply bind_err in H. destruct H as [H|(zi & ds1 & Hz & H)].
    { eapply d_randrange_err; eauto. unfold zlen. lia. }
    apply d_randrange_ok in Hz. destruct Hz as [Hz _]. unfold zlen in Hz.
    destruct (index_decompose sub top t (Z.to_nat zi) Ht) as (c & u & e0 & -> & Hc & Hw & Hu & Hs); [lia|].
    rewrite <- Hc in H. rewrite nth_plug in H.
    unfold bind at 1 in H. unfold lift at 1 in H. rewrite search_plug in H by auto. cbn [fst snd] in H.
    destruct (filter (fun p => mem_ty (nret (root u)) (nargs p)) (prims ps (nret (root u)))) as [|c0 cr] eqn:Ecands;
      [discriminate|]. rewrite <- Ecands in H.
    apply bind_err in H. destruct H as [H|(new_node & ds3 & Hch & H)]; [eapply d_choice_err; eauto|].
    apply bind_err in H. destruct H as [H|(position & ds4 & Hpos & H)]; [eapply d_choice_err; eauto|].
    apply bind_err in H. destruct H as [H|(body & ds5 & Hfill & H)]; [eapply insert_fill_err; eauto|].
    apply lift_err in H.
    apply d_choice_ok in Hch. destruct Hch as [Hmem _]. apply filter_In in Hmem. destruct Hmem as [Hmem _].
    apply d_choice_ok in Hpos. destruct Hpos as [Hpos _]. apply positions_spec in Hpos.
    rewrite get_slice_plug in Hfill.
    assert (Hself : typed sub (nret (root u)) u) by (eapply typed_weaken; eauto).
    destruct (insert_fill_spec sub ps Hps u position _ _ _ _ _ Hfill) as (kk & -> & Hkk & _).
    { intros a _ Hn. rewrite Nat.sub_0_r in Hn. rewrite Hpos in Hn. inversion Hn; subst. exact Hself. }
    destruct Hps as [Hprim _]. destruct (Hprim _ _ Hmem) as [S1 S2].
    assert (Hnew : typed sub e0 (T new_node kk)).
    { apply typed_unfold. split; auto. eapply sub_trans; eauto. eapply typed_root; eauto. }
    change (new_node :: ff kk) with (flatten (T new_node kk)) in H.
    rewrite set_slice_plug in H by (eapply typed_wft; eauto). discriminate.
  Qed.

  Theorem mut_shrink_safe top t ds e :
    typed sub top t -> mut_shrink (flatten t) ds = Err e -> benign e.
  Proof.
    intros Ht H. unfold mut_shrink in H.
    destruct (length (flatten t) <? 3)%nat; [discriminate|].
    unfold bind at 1 in H. unfold lift at 1 in H. rewrite height_flatten in H by (eapply typed_wft; eauto).
    destruct (theight t <=? 1); [discriminate|].
    destruct (filter _ (tl (enumerate (flatten t)))) as [|ip0 ipr] eqn:Eip; [discriminate|].
    rewrite <- Eip in H.
    apply bind_err in H. destruct H as [H|([index prim] & ds2 & Hch & H)]; [eapply d_choice_err; eauto|].
    cbn [fst snd] in H.
    apply bind_err in H. destruct H as [H|(arg_idx & ds3 & Harg & H)]; [eapply d_choice_err; eauto|].
    apply d_choice_ok in Hch. destruct Hch as [Hmem _].
    apply filter_In in Hmem. destruct Hmem as [Hmem _]. apply in_tl_enumerate in Hmem.
    destruct Hmem as [Hge Hn].
    apply d_choice_ok in Harg. destruct Harg as [Harg _]. apply positions_spec in Harg.
    assert (Hi : (index < length (flatten t))%nat) by (apply nth_error_Some; congruence).
    destruct (index_decompose sub top t index Ht Hi) as (c & u & e0 & -> & Hc & Hw & Hu & Hs).
    rewrite <- Hc in Hn, H. rewrite nth_plug in Hn. inversion Hn; subst prim. clear Hn.
    destruct u as [m kk]. cbn [root] in *.
    pose proof Hu as Hu'. apply typed_unfold in Hu'. destruct Hu' as [Sm Hkk].
    destruct (Forall2_nth_split _ _ _ _ _ Hkk Harg) as (kl & k & kr & -> & Hlen & Hk).
    assert (HF : Forall wft (kl ++ k :: kr)).
    { apply wft_plug in Hw. destruct Hw as [Hw _]. apply wft_unfold in Hw. tauto. }
    assert (Hwalk : shrink_walk (flatten (plug c (T m (kl ++ k :: kr)))) (S (length (cpre c))) (S arg_idx) [] = Ok (flatten k)).
    { rewrite flatten_plug. cbn [flatten]. fold (ff (kl ++ k :: kr)).
      change (cpre c ++ (m :: ff (kl ++ k :: kr)) ++ cpost c)
        with (cpre c ++ [m] ++ ff (kl ++ k :: kr) ++ cpost c).
      rewrite app_assoc.
      replace (S (length (cpre c))) with (length (cpre c ++ [m])) by (rewrite app_length; cbn; lia).
      rewrite <- Hlen. apply shrink_walk_spec. exact HF. }
    unfold bind at 1 in H. unfold lift at 1 in H. rewrite Hwalk in H.
    unfold bind at 1 in H. unfold lift at 1 in H. rewrite search_plug in H by auto. cbn [fst snd] in H.
    apply lift_err in H. rewrite set_slice_plug in H by (eapply typed_wft; eauto). discriminate.
  Qed.

  Lemma swap_safe top1 top2 t1 t2 i1 i2 ds e :
    typed sub top1 t1 -> typed sub top2 t2 ->
    (i1 < length (flatten t1))%nat -> (i2 < length (flatten t2))%nat ->
    swap_subtrees (flatten t1) (flatten t2) i1 i2 ds = Err e -> False.
  Proof.
    intros Ht1 Ht2 Hi1 Hi2 H.
    destruct (index_decompose sub top1 t1 i1 Ht1 Hi1) as (c1 & u1 & e1 & -> & Hc1 & Hw1 & _).
    destruct (index_decompose sub top2 t2 i2 Ht2 Hi2) as (c2 & u2 & e2 & -> & Hc2 & Hw2 & _).
    rewrite <- Hc1, <- Hc2 in H. rewrite swap_plug in H by auto. discriminate.
  Qed.

  Lemma idx_in_range keep l t i : In i (idx_of_type keep l t) -> (i < length l)%nat.
  Proof.
    intro H. apply idx_of_type_spec in H. destruct H as (_ & n & Hn & _). apply nth_error_Some. congruence.
  Qed.

  Theorem cx_one_point_safe top1 top2 t1 t2 ds e :
    typed sub top1 t1 -> typed sub top2 t2 ->
    cx_one_point (flatten t1) (flatten t2) ds = Err e -> benign e.
  Proof.
    intros Ht1 Ht2 H. unfold cx_one_point, cx_one_point_with in H.
    destruct ((length (flatten t1) <? 2)%nat || (length (flatten t2) <? 2)%nat); [discriminate|].
    destruct (flatten t1) as [|r1 rest1] eqn:E1; [discriminate|]. rewrite <- E1 in *. clear E1.
    destruct (N.eqb (nret r1) tobj).
    - apply bind_err in H. destruct H as [H|(ty0 & ds1 & _ & H)]; [eapply d_choice_err; eauto|].
      apply bind_err in H. destruct H as [H|(i1 & ds2 & Hc1 & H)]; [eapply d_choice_err; eauto|].
      apply bind_err in H. destruct H as [H|(i2 & ds3 & Hc2 & H)]; [eapply d_choice_err; eauto|].
      apply d_choice_ok in Hc1. destruct Hc1 as [Hc1 _]. apply in_seq in Hc1.
      apply d_choice_ok in Hc2. destruct Hc2 as [Hc2 _]. apply in_seq in Hc2.
      exfalso. eapply (swap_safe top1 top2 t1 t2 i1 i2); eauto; lia.
    - destruct (common_types all_nodes all_nodes (flatten t1) (flatten t2)) as [|ct0 ctr] eqn:Ect; [discriminate|].
      rewrite <- Ect in H.
      apply bind_err in H. destruct H as [H|(ty0 & ds1 & _ & H)]; [eapply d_choice_err; eauto|].
      apply bind_err in H. destruct H as [H|(i1 & ds2 & Hc1 & H)]; [eapply d_choice_err; eauto|].
      apply bind_err in H. destruct H as [H|(i2 & ds3 & Hc2 & H)]; [eapply d_choice_err; eauto|].
      apply d_choice_ok in Hc1. destruct Hc1 as [Hc1 _]. apply idx_in_range in Hc1.
      apply d_choice_ok in Hc2. destruct Hc2 as [Hc2 _]. apply idx_in_range in Hc2.
      exfalso. eapply (swap_safe top1 top2 t1 t2 i1 i2); eauto.
  Qed.

  Theorem cx_leaf_biased_safe pn pd top1 top2 t1 t2 ds e :
    typed sub top1 t1 -> typed sub top2 t2 ->
    cx_leaf_biased pn pd (flatten t1) (flatten t2) ds = Err e -> benign e.
  Proof.
    intros Ht1 Ht2 H. unfold cx_leaf_biased, cx_leaf_biased_with in H.
    destruct ((length (flatten t1) <? 2)%nat || (length (flatten t2) <? 2)%nat); [discriminate|].
    apply bind_err in H. destruct H as [H|(u1 & ds1 & _ & H)]; [eapply d_random_err; eauto|].
    apply bind_err in H. destruct H as [H|(u2 & ds2 & _ & H)]; [eapply d_random_err; eauto|].
    remember (if lt_frac u1 pn pd then is_term else is_prim) as op1.
    remember (if lt_frac u2 pn pd then is_term else is_prim) as op2.
    destruct (common_types op1 op2 (flatten t1) (flatten t2)) as [|ct0 ctr] eqn:Ect; [discriminate|].
    rewrite <- Ect in H.
    apply bind_err in H. destruct H as [H|(ty0 & ds3 & _ & H)]; [eapply d_choice_err; eauto|].
    apply bind_err in H. destruct H as [H|(i1 & ds4 & Hc1 & H)]; [eapply d_choice_err; eauto|].
    apply bind_err in H. destruct H as [H|(i2 & ds5 & Hc2 & H)]; [eapply d_choice_err; eauto|].
    apply d_choice_ok in Hc1. destruct Hc1 as [Hc1 _]. apply idx_in_range in Hc1.
    apply d_choice_ok in Hc2. destruct Hc2 as [Hc2 _]. apply idx_in_range in Hc2.
    exfalso. eapply (swap_safe top1 top2 t1 t2 i1 i2); eauto.
  Qed.
End Safe.

(* staticLimit adds no failure of its own when the operator's outputs can be measured *)
Lemma limit_fold_err k maxv keep : forall outs ds e,
  Forall (fun o => exists m, measure k o = Ok m) outs ->
  limit_fold k maxv keep outs ds = Err e -> benign e.
Proof.
  induction outs as [|o outs IH]; intros ds e Hm H; [discriminate|].
  inversion Hm as [|? ? (m & Hmo) Hr]; subst. cbn [limit_fold] in H.
  unfold bind at 1 in H. unfold lift at 1 in H. rewrite Hmo in H.
  apply bind_err in H. destruct H as [H|(o' & ds2 & _ & H)].
  - destruct (maxv <? m); [eapply d_choice_err; eauto|discriminate].
  - apply bind_err in H. destruct H as [H|(? & ? & _ & H)]; [eapply IH; eauto|discriminate].
Qed.

Theorem static_limit_safe k maxv op inputs ds e :
  (forall e', op inputs ds = Err e' -> benign e') ->
  (forall outs ds1, op inputs ds = Ok (outs, ds1) -> Forall (fun o => exists m, measure k o = Ok m) outs) ->
  static_limit k maxv op inputs ds = Err e -> benign e.
Proof.
  intros He Hm H. unfold static_limit in H. apply bind_err in H.
  destruct H as [H|(outs & ds1 & Ho & H)]; [exact (He _ H)|]. eapply limit_fold_err; [eapply Hm; exact Ho|exact H].
Qed.

(* ------------------------------------------------------------------ the pool hypothesis made precise *)
(* a set of types closed under the argument types of the primitives offered, with a primitive and a
   terminal at each: then generation cannot fail (Appendix B 7: "generation is considered only for sets
   that offer a primitive/terminal wherever the generator asks for one") *)
Definition offers (ps : pset) (tys : list ty) : Prop :=
  forall t, In t tys -> prims ps t <> [] /\ terms ps t <> [] /\
    forall p, In p (prims ps t) -> forall a, In a (nargs p) -> In a tys.

Lemma d_choice_err_nonempty {A} (l : list A) ds e : l <> [] -> d_choice l ds = Err e -> e = EDraw.
Proof.
  unfold d_choice. destruct l as [|a l]; [congruence|]. intros _.
  destruct ds as [|[] ds0]; try (intro H; inversion H; auto).
  destruct ((n =? zlen (a :: l)) && (0 <=? i)); [|inversion H; auto].
  destruct (nth_error (a :: l) (Z.to_nat i)); inversion H; auto.
Qed.

Lemma gen_loop_offers ps tys mode minh h : offers ps tys -> forall fuel st acc ds e,
  Forall (fun x => In (snd x) tys) st ->
  gen_loop fuel ps mode minh h st acc ds = Err e -> e = EDraw \/ e = EFuel.
Proof.
  intros Hoff. induction fuel as [|f IH]; intros st acc ds e Hst H.
  - destruct st as [|[d t] st]; [discriminate|]. inversion H; auto.
  - destruct st as [|[d t] st]; [discriminate|]. cbn [gen_loop] in H.
    inversion Hst as [|? ? Ht Hst']; subst. cbn [snd] in Ht. destruct (Hoff t Ht) as (Np & Nt & Hargs).
    apply bind_err in H. destruct H as [H|(c & ds1 & _ & H)].
    { left. unfold condition in H. destruct mode; [discriminate|]. destruct (d =? h); [discriminate|].
      destruct (minh <=? d); [|discriminate].
      apply bind_err in H. destruct H as [H|(u & ? & _ & H)]; [|discriminate].
      unfold d_random in H. destruct ds as [|[] ?]; try (inversion H; auto).
      destruct ((0 <=? num) && (num <? Z.pos den)); inversion H; auto. }
    destruct c.
    + apply bind_err in H. destruct H as [H|(x & ds2 & _ & H)]; [left; eapply d_choice_err_nonempty; [|exact H]; assumption|].
      apply bind_err in H. destruct H as [H|(x' & ds3 & _ & H)].
      { left. unfold instantiate in H. destruct (neph x); [|discriminate].
        apply bind_err in H. destruct H as [H|(? & ? & _ & H)]; [|discriminate].
        unfold d_eph in H. destruct ds2 as [|[] ?]; try (inversion H; auto).
        destruct (N.eqb name (nname x)); inversion H; auto. }
      eapply IH; eauto.
    + apply bind_err in H. destruct H as [H|(x & ds2 & Hx & H)]; [left; eapply d_choice_err_nonempty; [|exact H]; assumption|].
      apply d_choice_ok in Hx. destruct Hx as [Hx _].
      eapply IH; [|exact H]. apply Forall_app. split; auto.
      apply Forall_forall. intros y Hy. apply in_map_iff in Hy. destruct Hy as (a & <- & Ha). cbn. eauto.
Qed.

Theorem generate_never_fails_when_offered ps tys mode minh maxh t ds e :
  offers ps tys -> In t tys -> 0 <= minh <= maxh ->
  generate ps mode minh maxh t ds = Err e -> e = EDraw.
Proof.
  intros Hoff Ht Hm H. pose proof (generate_no_fuel_error ps mode minh maxh t ds (proj1 Hm)) as NF.
  unfold generate in H. apply bind_err in H. destruct H as [H|(h & ds1 & Hh & H)].
  - unfold d_randint in H. replace (maxh <? minh) with false in H by (symmetry; apply Z.ltb_ge; lia).
    destruct ds as [|[] ?]; try (inversion H; auto).
    destruct ((minh =? lo) && (maxh =? hi) && (minh <=? r) && (r <=? maxh)); inversion H; auto.
  - pose proof H as H'. apply (gen_loop_offers ps tys mode minh h Hoff) in H.
    + destruct H as [H| ->]; auto. exfalso. apply NF. unfold generate, bind. rewrite Hh. exact H'.
    + constructor; [exact Ht|constructor].
Qed.
