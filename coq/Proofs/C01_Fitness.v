From Coq Require Import List ZArith Bool Lia.
From DV Require Import Base.PyTuple Base.PyList Model.C01_Fitness.
Import ListNotations.
Local Open Scope Z_scope.

(* ---- comparison operators are the lexicographic order of the weighted values ---- *)
Lemma f_lt_lex a b : f_lt a b = true <-> lex_lt (wv a) (wv b).
Proof. apply tup_lt_spec. Qed.
Lemma f_le_lex a b : f_le a b = true <-> (lex_lt (wv a) (wv b) \/ wv a = wv b).
Proof. apply tup_le_spec. Qed.
Lemma f_eq_lex a b : f_eq a b = true <-> wv a = wv b.
Proof. apply tup_eq_spec. Qed.
Lemma f_ne_lex a b : f_ne a b = true <-> wv a <> wv b.
Proof.
  unfold f_ne. rewrite negb_true_iff. destruct (f_eq a b) eqn:E.
  - apply f_eq_lex in E. split; [discriminate|congruence].
  - split; [|reflexivity]. intros _ H. apply f_eq_lex in H. congruence.
Qed.
Lemma f_gt_lex a b : f_gt a b = true <-> lex_lt (wv b) (wv a).
Proof.
  unfold f_gt. rewrite negb_true_iff. destruct (f_le a b) eqn:E.
  - apply f_le_lex in E. split; [discriminate|]. intros H. destruct E as [E|E].
    + exfalso; eapply lex_lt_asym; eassumption.
    + rewrite E in H. exfalso; eapply lex_lt_irrefl; eassumption.
  - split; [|reflexivity]. intros _.
    destruct (lex_trichotomy (wv a) (wv b)) as [H|[H|H]]; [|  |exact H].
    + assert (f_le a b = true) by (apply f_le_lex; auto). congruence.
    + assert (f_le a b = true) by (apply f_le_lex; auto). congruence.
Qed.
Lemma f_ge_lex a b : f_ge a b = true <-> (lex_lt (wv b) (wv a) \/ wv a = wv b).
Proof.
  unfold f_ge. rewrite negb_true_iff. destruct (f_lt a b) eqn:E.
  - apply f_lt_lex in E. split; [discriminate|]. intros [H|H].
    + exfalso; eapply lex_lt_asym; eassumption.
    + rewrite H in E. exfalso; eapply lex_lt_irrefl; eassumption.
  - split; [|reflexivity]. intros _.
    destruct (lex_trichotomy (wv a) (wv b)) as [H|[H|H]]; [|auto|auto].
    assert (f_lt a b = true) by (apply f_lt_lex; auto). congruence.
Qed.

Theorem cmp_is_lex a b :
  (f_lt a b = true <-> lex_lt (wv a) (wv b)) /\
  (f_le a b = true <-> (lex_lt (wv a) (wv b) \/ wv a = wv b)) /\
  (f_eq a b = true <-> wv a = wv b) /\
  (f_ne a b = true <-> wv a <> wv b) /\
  (f_gt a b = true <-> lex_lt (wv b) (wv a)) /\
  (f_ge a b = true <-> (lex_lt (wv b) (wv a) \/ wv a = wv b)).
Proof.
  repeat split; first [apply f_lt_lex|apply f_le_lex|apply f_eq_lex|apply f_ne_lex|apply f_gt_lex|apply f_ge_lex].
Qed.

(* exactly one of <, ==, > ; <= is < or == ; >= is > or == *)
Theorem cmp_consistent a b :
  (f_lt a b = true /\ f_eq a b = false /\ f_gt a b = false) \/
  (f_lt a b = false /\ f_eq a b = true /\ f_gt a b = false) \/
  (f_lt a b = false /\ f_eq a b = false /\ f_gt a b = true).
Proof.
  destruct (lex_trichotomy (wv a) (wv b)) as [H|[H|H]].
  - left. split; [apply f_lt_lex; auto|]. split.
    + destruct (f_eq a b) eqn:E; [|reflexivity]. apply f_eq_lex in E. rewrite E in H.
      exfalso; eapply lex_lt_irrefl; eassumption.
    + destruct (f_gt a b) eqn:E; [|reflexivity]. apply f_gt_lex in E.
      exfalso; eapply lex_lt_asym; eassumption.
  - right; left. split; [|split].
    + destruct (f_lt a b) eqn:E; [|reflexivity]. apply f_lt_lex in E. rewrite H in E.
      exfalso; eapply lex_lt_irrefl; eassumption.
    + apply f_eq_lex; auto.
    + destruct (f_gt a b) eqn:E; [|reflexivity]. apply f_gt_lex in E. rewrite H in E.
      exfalso; eapply lex_lt_irrefl; eassumption.
  - right; right. split; [|split].
    + destruct (f_lt a b) eqn:E; [|reflexivity]. apply f_lt_lex in E.
      exfalso; eapply lex_lt_asym; eassumption.
    + destruct (f_eq a b) eqn:E; [|reflexivity]. apply f_eq_lex in E. rewrite E in H.
      exfalso; eapply lex_lt_irrefl; eassumption.
    + apply f_gt_lex; auto.
Qed.

Theorem le_ge_derived a b :
  f_le a b = f_lt a b || f_eq a b /\ f_ge a b = f_gt a b || f_eq a b /\ f_ne a b = negb (f_eq a b).
Proof.
  split; [|split; [|reflexivity]].
  - apply eq_true_iff_eq. rewrite orb_true_iff, f_le_lex, f_lt_lex, f_eq_lex. tauto.
  - apply eq_true_iff_eq. rewrite orb_true_iff, f_ge_lex, f_gt_lex, f_eq_lex. tauto.
Qed.

(* ---- weighted values ---- *)
Theorem wv_is_weighted w f v f' :
  set_values w f v = Some f' ->
  length (wv f') = length w /\
  forall i, (i < length w)%nat -> nth i (wv f') 0 = nth i v 0 * nth i w 0.
Proof.
  unfold set_values. destruct (Nat.eqb_spec (length v) (length w)) as [L|]; [|discriminate].
  intro E; inversion E; subst; clear E. cbn [wv]. split.
  - rewrite map2_length, L. apply Nat.min_id.
  - revert w L; induction v as [|x v IH]; destruct w as [|y w]; cbn [length]; intros L i Hi; try lia; try discriminate.
    destruct i; cbn; [reflexivity|]. apply IH; lia.
Qed.

Lemma map2_div_mul v w :
  length v = length w -> Forall (fun x => x <> 0) w ->
  map2 Z.div (map2 Z.mul v w) w = v.
Proof.
  revert w; induction v as [|x v IH]; destruct w as [|y w]; cbn; intros L F; try discriminate; [reflexivity|].
  inversion F; subst. rewrite Z.div_mul by assumption. f_equal. apply IH; [lia|assumption].
Qed.

Theorem values_roundtrip w f v f' :
  Forall (fun x => x <> 0) w ->
  set_values w f v = Some f' -> get_values w f' = v.
Proof.
  unfold set_values, get_values. intros F.
  destruct (Nat.eqb_spec (length v) (length w)) as [L|]; [|discriminate].
  intro E; inversion E; subst; cbn [wv]. apply map2_div_mul; assumption.
Qed.

(* ---- validity over histories ---- *)
Lemma run_ops_app w f o1 o2 : run_ops w f (o1 ++ o2) = run_ops w (run_ops w f o1) o2.
Proof. unfold run_ops. apply fold_left_app. Qed.

Theorem valid_after_set w f ops v :
  length v = length w -> w <> [] -> valid (run_ops w f (ops ++ [OSet v])) = true.
Proof.
  intros L Hw. rewrite run_ops_app. cbn. unfold set_values.
  rewrite L, Nat.eqb_refl. unfold valid; cbn [wv]. rewrite map2_length, L, Nat.min_id.
  destruct w; [congruence|reflexivity].
Qed.

Theorem invalid_after_del w f ops : valid (run_ops w f (ops ++ [ODel])) = false.
Proof. rewrite run_ops_app. reflexivity. Qed.

Theorem invalid_when_fresh c : valid (mkfit [] c) = false.
Proof. reflexivity. Qed.

(* ---- clone ---- *)
Theorem clone_eq f :
  f_eq f (deepcopy f) = true /\ valid (deepcopy f) = valid f /\ wv (deepcopy f) = wv f.
Proof. split; [apply f_eq_lex; reflexivity|split; reflexivity]. Qed.

Lemma tup_eq_refl l : tup_cmp OpEq l l = true.
Proof. apply tup_eq_spec. reflexivity. Qed.

Theorem c_clone_eq f :
  c_eq f (c_deepcopy f) = true /\ valid (c_deepcopy f) = valid f /\
  violates (c_deepcopy f) = violates f.
Proof.
  split; [|split; reflexivity].
  unfold c_eq. change (violates (c_deepcopy f)) with (violates f).
  destruct (violates f); cbn; [reflexivity|apply tup_eq_refl].
Qed.

(* ---- dominance ---- *)
Lemma dom_loop_spec ps ne :
  dom_loop ps ne = true <->
  (Forall (fun p => fst p >= snd p) ps /\ (ne = true \/ Exists (fun p => fst p > snd p) ps)).
Proof.
  revert ne; induction ps as [|[s o] r IH]; intro ne; cbn [dom_loop].
  - split; [intro H; split; [constructor|left; exact H]|]. intros [_ [H|H]]; [exact H|inversion H].
  - destruct (Z.gtb_spec s o) as [G|NG].
    + rewrite IH. split.
      * intros [F _]. split; [constructor; [cbn; lia|exact F]|right; constructor; cbn; lia].
      * intros [F _]. inversion F; subst. split; [assumption|left; reflexivity].
    + destruct (Z.ltb_spec s o) as [L|NL].
      * split; [discriminate|]. intros [F _]. inversion F; subst. cbn in *. lia.
      * rewrite IH. split.
        -- intros [F H]. split; [constructor; [cbn; lia|exact F]|].
           destruct H as [H|H]; [left; exact H|right; apply Exists_cons_tl; exact H].
        -- intros [F H]. inversion F; subst. split; [assumption|].
           destruct H as [H|H]; [left; exact H|]. inversion H; subst; [cbn in *; lia|right; assumption].
Qed.

Theorem dominates_iff a b obj :
  let ps := zip (apply_slice (wv a) obj) (apply_slice (wv b) obj) in
  dominates a b obj = true <->
  (Forall (fun p => fst p >= snd p) ps /\ Exists (fun p => fst p > snd p) ps).
Proof.
  cbn. unfold dominates. rewrite dom_loop_spec. split.
  - intros [F [H|H]]; [discriminate|auto].
  - intros [F H]; auto.
Qed.

(* whole-tuple dominance is a strict partial order on equal-length tuples (used by C04) *)
Definition dom (a b : list Z) : bool := dom_loop (zip a b) false.

Lemma dom_spec a b :
  dom a b = true <-> (Forall (fun p => fst p >= snd p) (zip a b) /\ Exists (fun p => fst p > snd p) (zip a b)).
Proof.
  unfold dom. rewrite dom_loop_spec. split; [intros [F [H|H]]; [discriminate|auto]|intros [F H]; auto].
Qed.

Lemma dom_irrefl a : dom a a = false.
Proof.
  destruct (dom a a) eqn:E; [|reflexivity]. apply dom_spec in E. destruct E as [_ E].
  exfalso. induction a as [|x a IH]; cbn in E; inversion E; subst; [cbn in *; lia|auto].
Qed.

Lemma dom_trans_aux a : forall b c,
  length a = length b -> length b = length c ->
  Forall (fun p => fst p >= snd p) (zip a b) -> Forall (fun p => fst p >= snd p) (zip b c) ->
  Forall (fun p => fst p >= snd p) (zip a c) /\
  (Exists (fun p => fst p > snd p) (zip a b) \/ Exists (fun p => fst p > snd p) (zip b c) ->
   Exists (fun p => fst p > snd p) (zip a c)).
Proof.
  induction a as [|x a IH]; intros [|y b] [|z c]; cbn [length zip]; intros L1 L2 F1 F2; try discriminate.
  - split; [constructor|]. intros [H|H]; inversion H.
  - inversion F1 as [|p1 l1 G1 F1']; subst. inversion F2 as [|p2 l2 G2 F2']; subst. cbn [fst snd] in *.
    destruct (IH b c) as [Fac Eac]; [lia|lia|assumption|assumption|].
    split; [constructor; [cbn; lia|exact Fac]|].
    intros [H|H]; inversion H as [p l Hd|p l Tl]; subst; cbn [fst snd] in *.
    + left; cbn; lia.
    + right; apply Eac; left; assumption.
    + left; cbn; lia.
    + right; apply Eac; right; assumption.
Qed.

Lemma dom_trans a b c :
  length a = length b -> length b = length c ->
  dom a b = true -> dom b c = true -> dom a c = true.
Proof.
  rewrite !dom_spec. intros L1 L2 [F1 E1] [F2 E2].
  destruct (dom_trans_aux a b c L1 L2 F1 F2) as [F E]. split; [exact F|apply E; left; exact E1].
Qed.

Lemma dom_asym a b : length a = length b -> dom a b = true -> dom b a = false.
Proof.
  intros L H. destruct (dom b a) eqn:E; [|reflexivity].
  assert (dom a a = true) by (eapply dom_trans; eauto). rewrite dom_irrefl in H0. discriminate.
Qed.

(* ---- constrained fitness ---- *)
Theorem constrained_never_better a b :
  violates a = true -> violates b = false ->
  c_gt a b = false /\ c_ge a b = false /\ c_eq a b = false /\ c_ne a b = true /\
  c_dominates a b = false /\ c_lt a b = true /\ c_le a b = true /\ c_dominates b a = true.
Proof.
  intros Va Vb. unfold c_gt, c_ge, c_ne, c_le, c_lt, c_eq, c_dominates. rewrite Va, Vb. cbn. tauto.
Qed.

Theorem constrained_feasible_is_plain a b :
  violates a = false -> violates b = false ->
  c_lt a b = f_lt a b /\ c_le a b = f_le a b /\ c_eq a b = f_eq a b /\
  c_gt a b = f_gt a b /\ c_ge a b = f_ge a b /\ c_ne a b = f_ne a b /\
  c_dominates a b = dominates a b slice_all.
Proof.
  intros Va Vb. unfold c_gt, c_ge, c_ne, c_le, c_lt, c_eq, c_dominates, f_gt, f_ge, f_ne, f_le, f_lt, f_eq.
  rewrite Va, Vb. cbn. tauto.
Qed.

Theorem both_violating_equal a b :
  violates a = true -> violates b = true ->
  c_eq a b = true /\ c_lt a b = false /\ c_gt a b = false /\ c_dominates a b = false.
Proof.
  intros Va Vb. unfold c_gt, c_le, c_lt, c_eq, c_dominates. rewrite Va, Vb. cbn. tauto.
Qed.
