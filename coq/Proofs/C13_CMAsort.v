(* C13 — the stable descending insertion sort of the executable model is mathcomp's stable merge
   sort (for every total transitive relation), CPython's tuple < on R-tuples is the lexicographic
   order `seqlexi`, hence Strategy.update of the executable model on an UNSORTED evaluated population
   refines the update of the algebraic model on the abstracted population (end to end). *)
From mathcomp Require Import all_ssreflect fingroup perm all_algebra.
From DV Require Import Proofs.C13_CMArefine.
Set Implicit Arguments.
Unset Strict Implicit.
Unset Printing Implicit Defensive.
(* the stable descending insertion sort of the executable model IS mathcomp's (stable merge) sort *)
Section InsertionIsSort.
Variables (T : eqType) (leT : rel T).
Hypothesis leT_total : total leT.
Hypothesis leT_tr : transitive leT.
Let lt : T -> T -> bool := fun x y => ~~ leT x y.

Lemma sort_desc_map (U : Type) (f : U -> T) (s : seq U) :
  E.sort_desc lt (map f s) = map f (E.sort_desc (fun a b => lt (f a) (f b)) s).
Proof.
elim: s => //= x s ->.
by elim: (E.sort_desc _ s) => //= y l IH; case: ifP => _ //=; rewrite IH.
Qed.

Section Iota.
Variable leN : rel nat.
Hypothesis leN_total : total leN.
Hypothesis leN_tr : transitive leN.
Let ltN : nat -> nat -> bool := fun x y => ~~ leN x y.
Let lt_lex := [rel n m | leN n m && (leN m n ==> (n < m))].

Lemma lt_lex_tr : transitive lt_lex.
Proof.
move=> y x z /= /andP [xy xy'] /andP [yz yz']; rewrite (leN_tr xy yz) /=.
apply/implyP => zx; have yx := leN_tr yz zx; have zy := leN_tr zx xy.
by move: xy' yz'; rewrite yx zy /=; exact: ltn_trans.
Qed.
Lemma lt_lex_irr : irreflexive lt_lex.
Proof. by move=> x /=; rewrite ltnn implybF andbN. Qed.

Lemma lex_before m x : ~~ leN m x -> lt_lex x m.
Proof.
move=> nmx /=; have := leN_total m x; rewrite (negbTE nmx) /= => ->.
by rewrite /=.
Qed.

Lemma lex_after m y : leN m y -> m < y -> lt_lex m y.
Proof. by move=> /= -> ->; rewrite implybT. Qed.

Lemma insert_desc_path m x l :
  ~~ leN m x -> all (fun y => m < y) l -> path lt_lex x l ->
  path lt_lex x (E.insert_desc ltN m l).
Proof.
elim: l x => [|z l IH] x nmx.
  by move=> _ _; apply/andP; split=> //; exact: lex_before.
move=> /andP [mz al] /andP [xz pz].
rewrite [E.insert_desc _ _ _]/= /ltN; case: ifP => [nmz|/negbFE lmz].
  by apply/andP; split=> //; apply: IH => //; rewrite nmz.
apply/and3P; split=> //; first exact: lex_before.
exact: lex_after.
Qed.

Lemma insert_desc_lex m l :
  all (fun y => m < y) l -> sorted lt_lex l -> sorted lt_lex (E.insert_desc ltN m l).
Proof.
case: l => // y l /andP [my al] pl.
rewrite [E.insert_desc _ _ _]/= /ltN; case: ifP => [nmy|/negbFE lmy].
  by apply: insert_desc_path => //; rewrite nmy.
by apply/andP; split=> //; exact: lex_after.
Qed.

Lemma sort_desc_iota_lex m k :
  sorted lt_lex (E.sort_desc ltN (iota m k)) /\ perm_eq (E.sort_desc ltN (iota m k)) (iota m k).
Proof.
elim: k m => [|k IH] m //=.
have [srt pe] := IH m.+1.
have pins : forall x l, perm_eq (E.insert_desc ltN x l) (x :: l).
  move=> x; elim=> //= y l IHl; case: ifP => _ //.
  apply: perm_trans (_ : perm_eq _ (y :: x :: l)) _; first by rewrite perm_cons.
  by rewrite -[y :: x :: l]/([:: y] ++ [:: x] ++ l) (perm_catCA [:: y] [:: x] l).
split; last by rewrite (perm_trans (pins _ _)) // perm_cons.
apply: insert_desc_lex => //.
by rewrite (perm_all _ pe); apply/allP => y; rewrite mem_iota => /andP [].
Qed.

Lemma sort_desc_iotaE k : E.sort_desc ltN (iota 0 k) = sort leN (iota 0 k).
Proof.
have [srt pe] := sort_desc_iota_lex 0 k.
apply: (irr_sorted_eq lt_lex_tr lt_lex_irr) => //.
  exact: sort_iota_stable.
by move=> x; rewrite (perm_mem pe) mem_sort.
Qed.
End Iota.

Theorem sort_descE (s : seq T) : E.sort_desc lt s = sort leT s.
Proof.
case Ds : s => [|x s1] //; rewrite -{s1}Ds.
rewrite -[in LHS](mkseq_nth x s) -[in RHS](mkseq_nth x s) /mkseq sort_desc_map sort_map.
congr map; apply: sort_desc_iotaE.
  by move=> a b; exact: leT_total.
by move=> b a c; exact: leT_tr.
Qed.
End InsertionIsSort.

Import GRing.Theory Num.Theory Order.TTheory.
Local Open Scope ring_scope.

Section SortLink.
Variable R : rcfType.
Variables exp ln : R -> R.
Variables n mu : nat.
Local Notation RN := (RNum exp ln).
Local Notation K := [orderType of seqlexi R].

Lemma lex_ltbE (a b : seq R) : E.lex_ltb RN a b = (a < b :> K)%O.
Proof.
elim: a b => [|x a IH] [|y b] //=.
case: (eqVneq x y) => [->|xy]; first by rewrite eqhead_ltxiE IH.
by rewrite neqhead_ltxiE.
Qed.

Lemma eq_sort_desc (T : Type) (lt1 lt2 : T -> T -> bool) :
  lt1 =2 lt2 -> E.sort_desc lt1 =1 E.sort_desc lt2.
Proof.
move=> e; elim=> //= x l ->.
by elim: (E.sort_desc lt2 l) => //= y r ->; rewrite e.
Qed.

(* a population of the executable model as a population of the algebraic model *)
Definition absInd (p : seq R * seq R) : K * 'rV[R]_n := (p.1 : K, rvL n p.2).
Definition absPop (pop : seq (seq R * seq R)) : seq (K * 'rV[R]_n) := map absInd pop.

Lemma sort_pop_link (pop : seq (seq R * seq R)) :
  map absInd (E.sort_pop RN pop) = A.sort_pop (absPop pop).
Proof.
rewrite /A.sort_pop /absPop sort_map; congr map.
rewrite /E.sort_pop.
have tot : total (relpre absInd (@A.better R n _ K)).
  by move=> a b; rewrite /= /A.better /= le_total.
have tr : transitive (relpre absInd (@A.better R n _ K)).
  by move=> b a c; rewrite /= /A.better /= => h1 h2; exact: le_trans h2 h1.
rewrite -(sort_descE tot tr); apply: eq_sort_desc => a b.
by rewrite lex_ltbE /= /A.better /= ltNge.
Qed.

(* end to end: Strategy.update of the executable model on an unsorted evaluated population is the
   update of the algebraic model on the abstracted population *)
Theorem exec_update_refines_alg (eighL : seq (seq R) -> seq R * seq (seq R))
        (eighA : 'M[R]_n -> 'rV[R]_n * 'M[R]_n)
        (P : @E.params R) (st : @E.state R) (pop : seq (seq R * seq R)) :
  (forall C, mshape n n C ->
     [/\ size (eighL C).1 = n, mshape n n (eighL C).2
       & eighA (mxL n n C) = (rvL n (eighL C).1, mxL n n (eighL C).2)]) ->
  wfP n mu P -> wfS n st ->
  (mu <= size pop)%N -> all (fun p => size p.2 == n) pop ->
  let st' := E.update RN eighL P st pop in
  wfS n st' /\
  absS n st' = A.update exp eighA (@argsortA_of R exp ln n) (absP mu P) (absS n st) (absPop pop).
Proof.
move=> er wP wS len rows /=.
have pe : perm_eq (E.sort_pop RN pop) pop.
  have tot : total (relpre absInd (@A.better R n _ K)) by move=> a b; rewrite /= /A.better /= le_total.
  have tr : transitive (relpre absInd (@A.better R n _ K)).
    by move=> b a c; rewrite /= /A.better /= => h1 h2; exact: le_trans h2 h1.
  rewrite /E.sort_pop (eq_sort_desc (lt2 := fun x y => ~~ relpre absInd (@A.better R n _ K) x y)).
    by rewrite (sort_descE tot tr) perm_sort.
  by move=> a b; rewrite lex_ltbE /= /A.better /= ltNge.
set spop := List.map snd (E.sort_pop RN pop).
have len' : (mu <= size spop)%N by rewrite /spop lmapE size_map (perm_size pe).
have rows' : all (fun x => size x == n) spop.
  by rewrite /spop lmapE all_map (perm_all _ pe).
have [wf' ->] := exec_update_refines er wP wS len' rows'.
split; first exact: wf'.
rewrite /A.update; congr A.update_sorted.
apply/matrixP => i j; rewrite !mxE -sort_pop_link /spop lmapE.
rewrite nth_take // -map_comp (nth_map ([::], [::])) ?(perm_size pe) ?(leq_trans (ltn_ord i)) //.
rewrite (nth_map ([::], [::])) ?(perm_size pe) ?(leq_trans (ltn_ord i)) //=.
by rewrite mxE.
Qed.

(* transfer, as an example of use: the consistency theorem of the algebraic model holds for the
   executable model's update (read through the abstraction) *)
Corollary exec_update_consistent (eighL : seq (seq R) -> seq R * seq (seq R))
        (eighA : 'M[R]_n -> 'rV[R]_n * 'M[R]_n)
        (P : @E.params R) (st : @E.state R) (pop : seq (seq R * seq R)) :
  (forall C, mshape n n C ->
     [/\ size (eighL C).1 = n, mshape n n (eighL C).2
       & eighA (mxL n n C) = (rvL n (eighL C).1, mxL n n (eighL C).2)]) ->
  wfP n mu P -> wfS n st ->
  (mu <= size pop)%N -> all (fun p => size p.2 == n) pop ->
  (forall x, 0 < exp x) -> AP.rates_ok (absP mu P) ->
  A.p_ccov1 (absP mu P) + A.p_ccovmu (absP mu P) <= 1 ->
  AP.psd (A.s_C (absS n st)) -> AP.consistent (absS n st) ->
  (forall C : 'M[R]_n, C^T = C -> AP.psd C -> AP.eigh_ok eighA C) ->
  let st' := E.update RN eighL P st pop in
  AP.consistent (absS n st') /\ AP.psd (A.s_C (absS n st')).
Proof.
move=> er wP wS len rows ex rk le1 psC cst eo st'.
have [_ ->] := exec_update_refines_alg er wP wS len rows.
rewrite /A.update; apply: AP.update_consistent => //.
apply: eo; last exact: AP.C_psd_preserved.
by apply: AP.C_symmetric_preserved; case: cst.
Qed.
End SortLink.
