(* Property C04 — theorems only.
   Models: Model/C04_NDSort.v (tools.sortNondominated, peeling specification),
           Model/C04_LogSort.v (tools.sortLogNondominated and helpers).
   An individual is (uid, wvalues); uid = position in the input list (object identity). *)
From Coq Require Import List ZArith Bool Permutation.
From DV Require Import Base.PyTuple Base.PyList Model.C04_NDSort Model.C04_LogSort
  Proofs.C04_NDSort Proofs.C04_NDLoop Proofs.C04_Spec Proofs.C04_LogWrap.
Import ListNotations.
Local Open Scope Z_scope.

(* ------------------------------------------------------------------------------------------
   The specification is what the statement says (dominance depth by peeling). *)

(* spec_fronts: front i = the individuals dominated by nobody once fronts 0..i-1 are removed *)
Theorem C04_spec_is_peeling : forall pop, NoDup (map uid pop) -> is_peeling pop (spec_fronts pop).
Proof. exact spec_fronts_is_peeling. Qed.
Print Assumptions C04_spec_is_peeling.

(* the fronts partition the population *)
Theorem C04_spec_partition : forall pop,
  same_len (map iw pop) -> Permutation (concat (spec_fronts pop)) pop.
Proof. exact spec_fronts_partition. Qed.
Print Assumptions C04_spec_partition.

(* depth: a member of front i+1 has a dominator in front i; nobody in the same or a later front
   dominates a member of front i *)
Theorem C04_spec_depth_dominator : forall pop i F x,
  nth_error (spec_fronts pop) (S i) = Some F -> In x F ->
  exists G y, nth_error (spec_fronts pop) i = Some G /\ In y G /\ idom y x = true.
Proof. intros pop. exact (peel_dominator (length pop) pop). Qed.
Print Assumptions C04_spec_depth_dominator.

Theorem C04_spec_depth_no_later_dominator : forall pop i j F G x y,
  nth_error (spec_fronts pop) i = Some F -> nth_error (spec_fronts pop) j = Some G -> (i <= j)%nat ->
  In x F -> In y G -> idom y x = false.
Proof. intros pop. exact (peel_no_later_dominator (length pop) pop). Qed.
Print Assumptions C04_spec_depth_no_later_dominator.

(* ------------------------------------------------------------------------------------------
   sortNondominated: full statement, every population size, any number of objectives,
   duplicates, ties, every k (Z), both values of first_front_only. *)
Theorem C04_sort_nd_correct : forall pop k ffo,
  NoDup (map uid pop) -> same_len (map iw pop) -> pop <> [] ->
  exists fs, sort_nd pop k ffo = Some fs /\ Forall2 (@Permutation ind) fs (spec_sort pop k ffo).
Proof. exact sort_nd_correct. Qed.
Print Assumptions C04_sort_nd_correct.

(* every returned element is an input individual ... *)
Theorem C04_sort_nd_elements_are_inputs : forall pop k ffo fs,
  NoDup (map uid pop) -> same_len (map iw pop) -> pop <> [] -> sort_nd pop k ffo = Some fs ->
  forall x, In x (concat fs) -> In x pop.
Proof. exact nd_elements_are_inputs. Qed.
Print Assumptions C04_sort_nd_elements_are_inputs.

(* ... and appears once *)
Theorem C04_sort_nd_each_once : forall pop k ffo fs,
  NoDup (map uid pop) -> same_len (map iw pop) -> pop <> [] -> sort_nd pop k ffo = Some fs ->
  NoDup (map uid (concat fs)).
Proof. exact nd_each_once. Qed.
Print Assumptions C04_sort_nd_each_once.

(* equal-fitness individuals are always in the same front *)
Theorem C04_sort_nd_same_fitness_same_front : forall pop k ffo fs,
  NoDup (map uid pop) -> same_len (map iw pop) -> pop <> [] -> sort_nd pop k ffo = Some fs ->
  forall F x y, In F fs -> In x F -> In y pop -> iw x = iw y -> In y F.
Proof. exact nd_same_fitness_same_front. Qed.
Print Assumptions C04_sort_nd_same_fitness_same_front.

(* k = 0: no front *)
Theorem C04_sort_nd_k0 : forall pop ffo, sort_nd pop 0 ffo = Some [].
Proof. exact nd_k0. Qed.
Print Assumptions C04_sort_nd_k0.

(* asked for the first k: exactly the leading fronts needed to reach min(k, n) *)
Theorem C04_sort_nd_leading_fronts : forall pop k,
  NoDup (map uid pop) -> same_len (map iw pop) -> pop <> [] -> k <> 0 ->
  exists fs j, sort_nd pop k false = Some fs /\
    (j < length (spec_fronts pop))%nat /\
    Forall2 (@Permutation ind) fs (firstn (S j) (spec_fronts pop)) /\
    (forall j', (0 < j' <= j)%nat -> ztotal (firstn j' (spec_fronts pop)) < Z.min (zlen pop) k) /\
    Z.min (zlen pop) k <= ztotal fs.
Proof. exact nd_leading_fronts. Qed.
Print Assumptions C04_sort_nd_leading_fronts.

(* first front only: exactly the non-dominated set *)
Theorem C04_sort_nd_first_front_only : forall pop k,
  NoDup (map uid pop) -> same_len (map iw pop) -> pop <> [] -> k <> 0 ->
  exists F, sort_nd pop k true = Some [F] /\ NoDup (map uid F) /\
            forall x, In x F <-> In x pop /\ forall y, In y pop -> idom y x = false.
Proof. exact nd_first_front_only. Qed.
Print Assumptions C04_sort_nd_first_front_only.

(* ------------------------------------------------------------------------------------------
   sortLogNondominated.
   FULL STATEMENT (target):
     forall pop k ffo, NoDup (map uid pop) -> same_len (map iw pop) -> pop <> [] ->
       2 <= number of objectives ->
       exists r, sort_log pop k ffo = Some r /\ Forall2 Permutation (log_fronts r) (spec_sort pop k ffo)
   Proved here: the wrapper, for ANY rank map that satisfies the rank recurrence
   (rank f = 0, or 1 + the rank of some dominator, and > the rank of every dominator). *)
Theorem C04_log_wrapper_correct : forall pop sorted front k ffo,
  NoDup (map uid pop) -> same_len (map iw pop) -> pop <> [] ->
  Permutation sorted (kkeys (group_inds pop)) -> kkeys front = kkeys (group_inds pop) ->
  rank_rec (kkeys (group_inds pop)) front ->
  log_ranks pop = Some (sorted, front) ->
  exists r, sort_log pop k ffo = Some r /\ Forall2 (@Permutation ind) (log_fronts r) (spec_sort pop k ffo).
Proof. intros pop sorted front k ffo H1 H2 H3 H4 H5 H6 H7. exact (log_wrapper_correct pop H1 H2 H3 sorted front H4 H5 H6 k ffo H7). Qed.
Print Assumptions C04_log_wrapper_correct.

(* non-vacuity: a population meeting the hypotheses, with a duplicate and a tie *)
Example C04_nonvacuous :
  let pop := [(0%nat, [1; 2]); (1%nat, [2; 1]); (2%nat, [0; 0]); (3%nat, [1; 2])] in
  NoDup (map uid pop) /\ same_len (map iw pop) /\ pop <> [] /\
  sort_nd pop 4 false = Some [[(0%nat, [1; 2]); (3%nat, [1; 2]); (1%nat, [2; 1])]; [(2%nat, [0; 0])]] /\
  spec_sort pop 4 false = [[(0%nat, [1; 2]); (1%nat, [2; 1]); (3%nat, [1; 2])]; [(2%nat, [0; 0])]].
Proof.
  cbn zeta. split; [|split; [|split; [discriminate|split; vm_compute; reflexivity]]].
  - cbn. repeat constructor; cbn; intuition discriminate.
  - intros a b Ha Hb. cbn in Ha, Hb. intuition (subst; reflexivity).
Qed.
