(* Property C04 — theorems only.
   Models: Model/C04_NDSort.v (tools.sortNondominated, peeling specification),
           Model/C04_LogSort.v (tools.sortLogNondominated and helpers).
   An individual is (uid, wvalues); uid = position in the input list (object identity). *)
From Coq Require Import List ZArith Bool Permutation.
From DV Require Import Base.PyTuple Base.PyList Model.C04_NDSort Model.C04_LogSort
  Proofs.C04_NDSort Proofs.C04_NDLoop Proofs.C04_Spec Proofs.C04_LogWrap Proofs.C04_LogRank
  Proofs.C04_LogSweep Proofs.C04_LogBase Proofs.C04_LogTop Proofs.C04_LogFuel Proofs.C04_LogFinal.
Import ListNotations.
Local Open Scope Z_scope.

(* ------------------------------------------------------------------------------------------
   The specification is what the statement says (dominance depth by peeling). *)

(* spec_fronts: front i = the individuals dominated by nobody once fronts 0..i-1 are removed *)
Theorem C04_spec_is_peeling : forall pop, NoDup (map uid pop) -> is_peeling pop (spec_fronts pop).
Proof. exact spec_fronts_is_peeling. Qed.
Print Assumptions C04_spec_is_peeling.

(* the fronts partition the population *)
Theorem C04_spec_partition : forall pop,
  same_len (map iw pop) -> Permutation (concat (spec_fronts pop)) pop.
Proof. exact spec_fronts_partition. Qed.
Print Assumptions C04_spec_partition.

(* depth: a member of front i+1 has a dominator in front i; nobody in the same or a later front
   dominates a member of front i *)
Theorem C04_spec_depth_dominator : forall pop i F x,
  nth_error (spec_fronts pop) (S i) = Some F -> In x F ->
  exists G y, nth_error (spec_fronts pop) i = Some G /\ In y G /\ idom y x = true.
Proof. intros pop. exact (peel_dominator (length pop) pop). Qed.
Print Assumptions C04_spec_depth_dominator.

Theorem C04_spec_depth_no_later_dominator : forall pop i j F G x y,
  nth_error (spec_fronts pop) i = Some F -> nth_error (spec_fronts pop) j = Some G -> (i <= j)%nat ->
  In x F -> In y G -> idom y x = false.
Proof. intros pop. exact (peel_no_later_dominator (length pop) pop). Qed.
Print Assumptions C04_spec_depth_no_later_dominator.

(* ------------------------------------------------------------------------------------------
   sortNondominated: full statement, every population size, any number of objectives,
   duplicates, ties, every k (Z), both values of first_front_only. *)
Theorem C04_sort_nd_correct : forall pop k ffo,
  NoDup (map uid pop) -> same_len (map iw pop) -> pop <> [] ->
  exists fs, sort_nd pop k ffo = Some fs /\ Forall2 (@Permutation ind) fs (spec_sort pop k ffo).
Proof. exact sort_nd_correct. Qed.
Print Assumptions C04_sort_nd_correct.

(* every returned element is an input individual ... *)
Theorem C04_sort_nd_elements_are_inputs : forall pop k ffo fs,
  NoDup (map uid pop) -> same_len (map iw pop) -> pop <> [] -> sort_nd pop k ffo = Some fs ->
  forall x, In x (concat fs) -> In x pop.
Proof. exact nd_elements_are_inputs. Qed.
Print Assumptions C04_sort_nd_elements_are_inputs.

(* ... and appears once *)
Theorem C04_sort_nd_each_once : forall pop k ffo fs,
  NoDup (map uid pop) -> same_len (map iw pop) -> pop <> [] -> sort_nd pop k ffo = Some fs ->
  NoDup (map uid (concat fs)).
Proof. exact nd_each_once. Qed.
Print Assumptions C04_sort_nd_each_once.

(* equal-fitness individuals are always in the same front *)
Theorem C04_sort_nd_same_fitness_same_front : forall pop k ffo fs,
  NoDup (map uid pop) -> same_len (map iw pop) -> pop <> [] -> sort_nd pop k ffo = Some fs ->
  forall F x y, In F fs -> In x F -> In y pop -> iw x = iw y -> In y F.
Proof. exact nd_same_fitness_same_front. Qed.
Print Assumptions C04_sort_nd_same_fitness_same_front.

(* k = 0: no front *)
Theorem C04_sort_nd_k0 : forall pop ffo, sort_nd pop 0 ffo = Some [].
Proof. exact nd_k0. Qed.
Print Assumptions C04_sort_nd_k0.

(* asked for the first k: exactly the leading fronts needed to reach min(k, n) *)
Theorem C04_sort_nd_leading_fronts : forall pop k,
  NoDup (map uid pop) -> same_len (map iw pop) -> pop <> [] -> k <> 0 ->
  exists fs j, sort_nd pop k false = Some fs /\
    (j < length (spec_fronts pop))%nat /\
    Forall2 (@Permutation ind) fs (firstn (S j) (spec_fronts pop)) /\
    (forall j', (0 < j' <= j)%nat -> ztotal (firstn j' (spec_fronts pop)) < Z.min (zlen pop) k) /\
    Z.min (zlen pop) k <= ztotal fs.
Proof. exact nd_leading_fronts. Qed.
Print Assumptions C04_sort_nd_leading_fronts.

(* first front only: exactly the non-dominated set *)
Theorem C04_sort_nd_first_front_only : forall pop k,
  NoDup (map uid pop) -> same_len (map iw pop) -> pop <> [] -> k <> 0 ->
  exists F, sort_nd pop k true = Some [F] /\ NoDup (map uid F) /\
            forall x, In x F <-> In x pop /\ forall y, In y pop -> idom y x = false.
Proof. exact nd_first_front_only. Qed.
Print Assumptions C04_sort_nd_first_front_only.

(* ------------------------------------------------------------------------------------------
   sortLogNondominated (Fortin et al.): full statement, every population size, every number of
   objectives >= 2, duplicates, ties, every k, both values of first_front_only.
   Values are integers (the model of `median` is exact for integer-valued floats, see level note). *)
Theorem C04_sort_log_correct : forall pop k ffo,
  NoDup (map uid pop) -> same_len (map iw pop) -> pop <> [] ->
  (forall x, In x pop -> (2 <= length (iw x))%nat) ->
  exists r, sort_log pop k ffo = Some r /\ Forall2 (@Permutation ind) (log_fronts r) (spec_sort pop k ffo).
Proof. exact sort_log_correct. Qed.
Print Assumptions C04_sort_log_correct.

(* the quadratic and the divide-and-conquer procedure always produce the same ranking *)
Theorem C04_sorts_agree : forall pop k ffo,
  NoDup (map uid pop) -> same_len (map iw pop) -> pop <> [] ->
  (forall x, In x pop -> (2 <= length (iw x))%nat) ->
  exists fs r, sort_nd pop k ffo = Some fs /\ sort_log pop k ffo = Some r /\
               Forall2 (@Permutation ind) (log_fronts r) fs.
Proof. exact sorts_agree. Qed.
Print Assumptions C04_sorts_agree.

Theorem C04_sort_log_elements_are_inputs : forall pop k ffo r,
  NoDup (map uid pop) -> same_len (map iw pop) -> pop <> [] ->
  (forall x, In x pop -> (2 <= length (iw x))%nat) -> sort_log pop k ffo = Some r ->
  forall x, In x (concat (log_fronts r)) -> In x pop.
Proof. exact log_elements_are_inputs. Qed.
Print Assumptions C04_sort_log_elements_are_inputs.

Theorem C04_sort_log_each_once : forall pop k ffo r,
  NoDup (map uid pop) -> same_len (map iw pop) -> pop <> [] ->
  (forall x, In x pop -> (2 <= length (iw x))%nat) -> sort_log pop k ffo = Some r ->
  NoDup (map uid (concat (log_fronts r))).
Proof. exact log_each_once. Qed.
Print Assumptions C04_sort_log_each_once.

Theorem C04_sort_log_same_fitness_same_front : forall pop k ffo r,
  NoDup (map uid pop) -> same_len (map iw pop) -> pop <> [] ->
  (forall x, In x pop -> (2 <= length (iw x))%nat) -> sort_log pop k ffo = Some r ->
  forall F x y, In F (log_fronts r) -> In x F -> In y pop -> iw x = iw y -> In y F.
Proof. exact log_same_fitness_same_front. Qed.
Print Assumptions C04_sort_log_same_fitness_same_front.

Theorem C04_sort_log_k0 : forall pop ffo, sort_log pop 0 ffo = Some (LFronts []).
Proof. exact log_k0. Qed.
Print Assumptions C04_sort_log_k0.

Theorem C04_sort_log_leading_fronts : forall pop k,
  NoDup (map uid pop) -> same_len (map iw pop) -> pop <> [] ->
  (forall x, In x pop -> (2 <= length (iw x))%nat) -> k <> 0 ->
  exists fs j, sort_log pop k false = Some (LFronts fs) /\
    (j < length (spec_fronts pop))%nat /\
    Forall2 (@Permutation ind) fs (firstn (S j) (spec_fronts pop)) /\
    (forall j', (0 < j' <= j)%nat -> ztotal (firstn j' (spec_fronts pop)) < Z.min (zlen pop) k) /\
    Z.min (zlen pop) k <= ztotal fs.
Proof. exact log_leading_fronts. Qed.
Print Assumptions C04_sort_log_leading_fronts.

(* first front only: a flat list (the return shape differs from sortNondominated), exactly the
   non-dominated set *)
Theorem C04_sort_log_first_front_only : forall pop k,
  NoDup (map uid pop) -> same_len (map iw pop) -> pop <> [] ->
  (forall x, In x pop -> (2 <= length (iw x))%nat) -> k <> 0 ->
  exists F, sort_log pop k true = Some (LFlat F) /\ NoDup (map uid F) /\
            forall x, In x F <-> In x pop /\ forall y, In y pop -> idom y x = false.
Proof. exact log_first_front_only. Qed.
Print Assumptions C04_sort_log_first_front_only.

(* supporting theorems about the helpers (each holds for every input meeting its precondition) *)
Theorem C04_helperA_correct : forall Mlen fuel m S fr fr',
  (1 <= m)%nat -> (Datatypes.S m <= Mlen)%nat -> Apre Mlen m S fr ->
  helperA fuel S (Z.of_nat m) fr = Some fr' -> A_postR (dom_pref m) S fr fr'.
Proof. exact helperA_correct. Qed.
Print Assumptions C04_helperA_correct.

Theorem C04_helperB_correct : forall Mlen fuel m L H fr fr',
  (1 <= m)%nat -> (S m <= Mlen)%nat -> Bpre Mlen L H fr ->
  helperB fuel L H (Z.of_nat m) fr = Some fr' -> B_postR (ge_pref m) L H fr fr'.
Proof. exact helperB_correct. Qed.
Print Assumptions C04_helperB_correct.

Theorem C04_sweepA_correct : forall fs front,
  ordered2 fs -> (forall f, In f fs -> (2 <= length f)%nat) -> (forall f, In f fs -> In f (kkeys front)) ->
  A_postR (dom_pref 1) fs front (sweepA fs front).
Proof. exact sweepA_correct. Qed.
Print Assumptions C04_sweepA_correct.

Theorem C04_sweepB_correct : forall best worst front,
  sorted2 best -> sorted2 worst -> NoDup worst ->
  (forall l, In l best -> (2 <= length l)%nat) -> (forall h, In h worst -> (2 <= length h)%nat) ->
  (forall l, In l best -> ~ In l worst) -> (forall h, In h worst -> In h (kkeys front)) ->
  B_postR (ge_pref 1) best worst front (sweepB best worst front).
Proof. exact sweepB_correct. Qed.
Print Assumptions C04_sweepB_correct.

(* the recursion never exhausts the fuel the model gives it *)
Theorem C04_log_ranks_total : forall pop,
  pop <> [] -> (forall x, In x pop -> (2 <= length (iw x))%nat) ->
  exists sorted front, log_ranks pop = Some (sorted, front).
Proof. exact log_ranks_total. Qed.
Print Assumptions C04_log_ranks_total.

(* the wrapper, for ANY rank map satisfying the rank recurrence *)
Theorem C04_log_wrapper_correct : forall pop sorted front k ffo,
  NoDup (map uid pop) -> same_len (map iw pop) -> pop <> [] ->
  Permutation sorted (kkeys (group_inds pop)) -> kkeys front = kkeys (group_inds pop) ->
  rank_rec (kkeys (group_inds pop)) front ->
  log_ranks pop = Some (sorted, front) ->
  exists r, sort_log pop k ffo = Some r /\ Forall2 (@Permutation ind) (log_fronts r) (spec_sort pop k ffo).
Proof. intros pop sorted front k ffo H1 H2 H3 H4 H5 H6 H7. exact (log_wrapper_correct pop H1 H2 H3 sorted front H4 H5 H6 k ffo H7). Qed.
Print Assumptions C04_log_wrapper_correct.

(* non-vacuity: a population meeting the hypotheses, with a duplicate and a tie *)
Example C04_nonvacuous :
  let pop := [(0%nat, [1; 2]); (1%nat, [2; 1]); (2%nat, [0; 0]); (3%nat, [1; 2])] in
  NoDup (map uid pop) /\ same_len (map iw pop) /\ pop <> [] /\
  sort_nd pop 4 false = Some [[(0%nat, [1; 2]); (3%nat, [1; 2]); (1%nat, [2; 1])]; [(2%nat, [0; 0])]] /\
  spec_sort pop 4 false = [[(0%nat, [1; 2]); (1%nat, [2; 1]); (3%nat, [1; 2])]; [(2%nat, [0; 0])]] /\
  (forall x, In x pop -> (2 <= length (iw x))%nat) /\
  sort_log pop 4 false = Some (LFronts [[(1%nat, [2; 1]); (0%nat, [1; 2]); (3%nat, [1; 2])]; [(2%nat, [0; 0])]]).
Proof.
  cbn zeta. split; [|split; [|split; [discriminate|split; [vm_compute; reflexivity|split; [vm_compute; reflexivity|split]]]]].
  - cbn. repeat constructor; cbn; intuition discriminate.
  - intros a b Ha Hb. cbn in Ha, Hb. intuition (subst; reflexivity).
  - intros x Hx. cbn in Hx. intuition (subst; cbn; auto).
  - vm_compute. reflexivity.
Qed.
