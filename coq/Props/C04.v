(* Property C04 — theorems only (placeholder until Proofs/C04_*.v are in; see below). *)
From Coq Require Import List ZArith Bool.
From DV Require Import Base.PyTuple Base.PyList Model.C04_NDSort Model.C04_LogSort.
Import ListNotations.
Local Open Scope Z_scope.

Example C04_nonvacuous :
  sort_nd [(0%nat, [1; 2]); (1%nat, [2; 1]); (2%nat, [0; 0]); (3%nat, [1; 2])] 4 false
  = Some [[(0%nat, [1; 2]); (3%nat, [1; 2]); (1%nat, [2; 1])]; [(2%nat, [0; 0])]].
Proof. vm_compute. reflexivity. Qed.
