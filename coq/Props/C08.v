(* Property C08 — theorems only.
   Model: Model/C08_Archive.v (deap/tools/support.py, classes HallOfFame and ParetoFront).
   hof_run m batches / pf_run batches : the archive after showing the update batches in order
   (None = an exception was raised).  seen = concat batches = everything ever shown.
   ind / fitness / similar are arbitrary: any individual type, any weighted-fitness function
   (1..n objectives, any weights), any similarity operator meeting the stated hypotheses.
   The archive stores values (deep copies); see the level note for what that means. *)
From Coq Require Import List ZArith Bool.
From DV Require Import Base.PyTuple Base.PyList Model.C01_Fitness Model.C08_Archive Model.C08_Heap
  Proofs.C08_Lists Proofs.C08_Refine Proofs.C08_Hof Proofs.C08_Pf Proofs.C08_More Proofs.C08_HeapSim.
Import ListNotations.
Local Open Scope Z_scope.

(* ---------------------------------------------------------------- HallOfFame *)

(* For ANY similarity operator and any history: update never raises, the parallel lists never
   drift (keys = reversed fitnesses of items), items are best first, at most m, all shown. *)
Theorem C08_hof_shape :
  forall (ind : Type) (fitness : ind -> list Z) (similar : ind -> ind -> bool)
         (m : Z) (batches : list (list ind)),
  1 <= m ->
  exists h, hof_run ind fitness similar m batches = Some h /\
    keys h = rev (map fitness (items h)) /\
    (forall i j a b, (i < j)%nat -> nth_error (items h) i = Some a -> nth_error (items h) j = Some b ->
                     fit_lt (fitness a) (fitness b) = false) /\
    zlen (items h) <= m /\
    (forall a, In a (items h) -> In a (concat batches)).
Proof. exact hof_shape_thm. Qed.
Print Assumptions C08_hof_shape.

(* members are pairwise distinct under the similarity operator (symmetric operator) *)
Theorem C08_hof_distinct :
  forall (ind : Type) (fitness : ind -> list Z) (similar : ind -> ind -> bool),
  (forall x y, similar x y = similar y x) ->
  forall (m : Z) (batches : list (list ind)),
  1 <= m ->
  exists h, hof_run ind fitness similar m batches = Some h /\
    forall i j a b, i <> j -> nth_error (items h) i = Some a -> nth_error (items h) j = Some b ->
                    similar a b = false.
Proof. exact hof_distinct_thm. Qed.
Print Assumptions C08_hof_distinct.

(* hof_inv of DESIGN section 5, all clauses together *)
Theorem C08_hof_inv :
  forall (ind : Type) (fitness : ind -> list Z) (similar : ind -> ind -> bool),
  (forall x y, similar x y = similar y x) ->
  (forall x, similar x x = true) ->
  forall (m : Z) (batches : list (list ind)),
  1 <= m ->
  (forall a b, In a (concat batches) -> In b (concat batches) -> similar a b = true -> fitness a = fitness b) ->
  exists h, hof_run ind fitness similar m batches = Some h /\
    keys h = rev (map fitness (items h)) /\
    (forall i j a b, (i < j)%nat -> nth_error (items h) i = Some a -> nth_error (items h) j = Some b ->
                     fit_lt (fitness a) (fitness b) = false) /\
    zlen (items h) <= m /\
    (forall i j a b, i <> j -> nth_error (items h) i = Some a -> nth_error (items h) j = Some b ->
                     similar a b = false) /\
    (forall a, In a (items h) -> In a (concat batches)).
Proof. exact hof_inv_thm. Qed.
Print Assumptions C08_hof_inv.

(* no distinct individual ever shown is strictly better than the worst member:
   every s ever shown is similar to a member, or the archive is full and
   not (fitness s > fitness self[-1]) *)
Theorem C08_hof_best_of_seen :
  forall (ind : Type) (fitness : ind -> list Z) (similar : ind -> ind -> bool),
  (forall x y, similar x y = similar y x) ->
  (forall x, similar x x = true) ->
  forall (m : Z) (batches : list (list ind)),
  1 <= m ->
  (forall a b, In a (concat batches) -> In b (concat batches) -> similar a b = true -> fitness a = fitness b) ->
  exists h, hof_run ind fitness similar m batches = Some h /\
    forall s, In s (concat batches) ->
      (exists a, In a (items h) /\ similar s a = true) \/
      (zlen (items h) = m /\
       forall worst, py_get (items h) (-1) = Some worst -> fit_gt (fitness s) (fitness worst) = false).
Proof. exact hof_best_of_seen_thm. Qed.
Print Assumptions C08_hof_best_of_seen.

(* while at most m pairwise-distinct individuals were shown (every pairwise non-similar list of
   shown individuals has length <= m), every individual shown is present up to similarity.
   nosim l : no element of l is similar to a later element (Proofs/C08_Hof.v). *)
Theorem C08_hof_all_when_room :
  forall (ind : Type) (fitness : ind -> list Z) (similar : ind -> ind -> bool),
  (forall x y, similar x y = similar y x) ->
  (forall x, similar x x = true) ->
  forall (m : Z) (batches : list (list ind)),
  1 <= m ->
  (forall a b, In a (concat batches) -> In b (concat batches) -> similar a b = true -> fitness a = fitness b) ->
  (forall l, nosim ind similar l -> incl l (concat batches) -> zlen l <= m) ->
  exists h, hof_run ind fitness similar m batches = Some h /\
    forall s, In s (concat batches) -> exists a, In a (items h) /\ similar s a = true.
Proof. exact hof_all_when_room_thm. Qed.
Print Assumptions C08_hof_all_when_room.

(* size: the hall of fame is full as soon as m pairwise-distinct individuals were shown; otherwise
   it holds at least as many members as any pairwise-distinct sample of what was shown (so, with
   C08_hof_inv, exactly min(m, number of distinct individuals shown)); similar an equivalence *)
Theorem C08_hof_size :
  forall (ind : Type) (fitness : ind -> list Z) (similar : ind -> ind -> bool),
  (forall x y, similar x y = similar y x) ->
  (forall x, similar x x = true) ->
  (forall x y z, similar x y = true -> similar y z = true -> similar x z = true) ->
  forall (m : Z) (batches : list (list ind)),
  1 <= m ->
  (forall a b, In a (concat batches) -> In b (concat batches) -> similar a b = true -> fitness a = fitness b) ->
  exists h, hof_run ind fitness similar m batches = Some h /\
    forall l, nosim ind similar l -> incl l (concat batches) -> zlen l <= zlen (items h) \/ zlen (items h) = m.
Proof. exact hof_size_thm. Qed.
Print Assumptions C08_hof_size.

(* ---------------------------------------------------------------- ParetoFront *)

(* pf_inv: never raises, keys mirror items, lexicographic order, members mutually non-dominated;
   for ANY similarity operator, fitnesses of one common length *)
Theorem C08_pf_inv :
  forall (ind : Type) (fitness : ind -> list Z) (similar : ind -> ind -> bool)
         (batches : list (list ind)) (nobj : nat),
  (forall s, In s (concat batches) -> length (fitness s) = nobj) ->
  exists h, pf_run ind fitness similar batches = Some h /\
    keys h = rev (map fitness (items h)) /\
    (forall i j a b, (i < j)%nat -> nth_error (items h) i = Some a -> nth_error (items h) j = Some b ->
                     fit_lt (fitness a) (fitness b) = false) /\
    (forall a b, In a (items h) -> In b (items h) -> fit_dom (fitness a) (fitness b) = false).
Proof. exact pf_inv_thm. Qed.
Print Assumptions C08_pf_inv.

(* pf_exact: the archive is exactly the distinct individuals shown whose fitness no fitness
   shown dominates, one copy each *)
Theorem C08_pf_exact :
  forall (ind : Type) (fitness : ind -> list Z) (similar : ind -> ind -> bool),
  (forall x, similar x x = true) ->
  (forall x y, similar x y = similar y x) ->
  forall (batches : list (list ind)) (nobj : nat),
  (forall s, In s (concat batches) -> length (fitness s) = nobj) ->
  exists h, pf_run ind fitness similar batches = Some h /\
    (forall a, In a (items h) ->
       In a (concat batches) /\ forall t, In t (concat batches) -> fit_dom (fitness t) (fitness a) = false) /\
    (forall s, In s (concat batches) ->
       (forall t, In t (concat batches) -> fit_dom (fitness t) (fitness s) = false) ->
       exists a, In a (items h) /\ fitness s = fitness a /\ similar s a = true) /\
    (forall i j a b, i <> j -> nth_error (items h) i = Some a -> nth_error (items h) j = Some b ->
       fitness a = fitness b -> similar a b = false).
Proof. exact pf_exact_thm. Qed.
Print Assumptions C08_pf_exact.

(* ---------------------------------------------------------------- continuing from a non-empty archive *)

(* After a direct remove / insert, or after maxsize or the similarity operator was changed between
   calls, the archive holds some members S.  If S is sorted, within the (new) capacity and pairwise
   non-similar under the (new) operator, every later sequence of updates keeps the whole invariant
   HInv (Proofs/C08_Hof.v: sorted, size, pairwise non-similar, members shown, best-of-seen,
   all-when-room) with  seen = S ++ everything shown afterwards. *)
Theorem C08_hof_continue :
  forall (ind : Type) (fitness : ind -> list Z) (similar : ind -> ind -> bool),
  (forall x y, similar x y = similar y x) ->
  (forall x, similar x x = true) ->
  forall (m : Z) (S : list ind) (batches : list (list ind)),
  1 <= m -> desc ind fitness S -> zlen S <= m -> nosim ind similar S ->
  (forall a b, In a (S ++ concat batches) -> In b (S ++ concat batches) -> similar a b = true -> fitness a = fitness b) ->
  exists h, hof_run_from ind fitness similar m (mirror ind fitness S) batches = Some h /\
    keys h = rev (map fitness (items h)) /\
    HInv ind fitness similar m (items h) (S ++ concat batches).
Proof. exact hof_continue_thm. Qed.
Print Assumptions C08_hof_continue.

(* the same for the Pareto archive: S mutually non-dominated, without twins, sorted; PInv
   (Proofs/C08_Pf.v) = mutual non-domination, every shown individual dominated by or twin of a
   member, members shown and undominated by anything shown, no twins, sorted *)
Theorem C08_pf_continue :
  forall (ind : Type) (fitness : ind -> list Z) (similar : ind -> ind -> bool),
  (forall x y, similar x y = similar y x) ->
  (forall x, similar x x = true) ->
  forall (n : nat) (S : list ind) (batches : list (list ind)),
  mutual ind fitness S -> notwin ind fitness similar S -> desc ind fitness S ->
  all_len ind fitness n (S ++ concat batches) ->
  exists h, pf_run_from ind fitness similar (mirror ind fitness S) batches = Some h /\
    keys h = rev (map fitness (items h)) /\
    PInv ind fitness similar (items h) (S ++ concat batches).
Proof. exact pf_continue_thm. Qed.
Print Assumptions C08_pf_continue.

(* ---------------------------------------------------------------- deep copies *)

(* Heap-level model (Model/C08_Heap.v): individuals are mutable objects in a store, populations and
   the archive hold references, the user may overwrite any of his nu objects in place at any moment
   (HSet), insert copies by allocating a fresh object.  For every such history (either class, any
   similarity operator reading the objects, exceptions included) what an observer sees of the
   archive after every step -- the fitness values behind the keys and the objects behind the items,
   read through the store -- is the value-level archive (the model of all theorems above) fed with
   the snapshots of the submitted objects taken at each call; an in-place modification (HSet) leaves
   it unchanged (vtrace emits the same state).  Hence members are unaffected by later changes to
   the populations, and every theorem above holds for the heap-level archive's view. *)
Theorem C08_deepcopy_independent :
  forall (sim : obj -> obj -> bool) (nu : nat) (kind : option Z) (u : heap) (hops : list hop),
  length u = nu -> Forall (hop_ok nu) hops ->
  map (option_map view) (h_trace sim kind (u, mkharch [] []) hops) = vtrace sim kind u empty hops.
Proof. exact heap_simulation_init. Qed.
Print Assumptions C08_deepcopy_independent.

(* ---------------------------------------------------------------- the rest of the interface *)

(* any history of update / insert / remove(any index) / clear on either class: every state reached
   without an exception has keys = reversed fitnesses of items, and items best first *)
Theorem C08_api_mirror_sorted :
  forall (ind : Type) (fitness : ind -> list Z) (similar : ind -> ind -> bool)
         (kind : option Z) (ops : list (op ind)),
  (match kind with Some m => 1 <= m | None => True end) ->
  Forall (fun o => match o with
                   | Some h => keys h = rev (map fitness (items h)) /\ desc ind fitness (items h)
                   | None => True end)
         (trace ind fitness similar kind empty ops).
Proof. exact api_good. Qed.
Print Assumptions C08_api_mirror_sorted.

(* remove with an index outside [-len, len) raises *)
Theorem C08_remove_out_of_range :
  forall (ind : Type) (h : hof ind) (i : Z), i < - hlen h \/ hlen h <= i -> remove ind h i = None.
Proof. exact remove_out_of_range. Qed.
Print Assumptions C08_remove_out_of_range.

(* clear(): the archive after a history of updates and clears is the archive of the batches shown
   after the last clear, so all theorems above apply with seen = those batches *)
Theorem C08_clear_resets :
  forall (ind : Type) (fitness : ind -> list Z) (similar : ind -> ind -> bool)
         (kind : option Z) (us : list (uop ind)),
  (match kind with Some m => 1 <= m | None => True end) ->
  final ind fitness similar kind us =
  match kind with
  | Some m => hof_run ind fitness similar m (after_last_clear ind us [])
  | None => pf_run ind fitness similar (after_last_clear ind us [])
  end.
Proof. exact final_is_run. Qed.
Print Assumptions C08_clear_resets.

(* Fitness.dominates of the C01 model with the default slice is fit_dom on the weighted values *)
Theorem C08_dominates_is_C01 : forall a b : C01_Fitness.fit,
  C01_Fitness.dominates a b C01_Fitness.slice_all = fit_dom (C01_Fitness.wv a) (C01_Fitness.wv b).
Proof. exact dominates_default_slice. Qed.
Print Assumptions C08_dominates_is_C01.

(* the meaning of the comparison functions used above (C01): lexicographic order / dominance *)
Theorem C08_order_meaning : forall a b : list Z,
  (fit_lt a b = true <-> lex_lt a b) /\
  (fit_gt a b = true <-> lex_lt b a) /\
  (fit_dom a b = true <->
     Forall (fun p => fst p >= snd p) (zip a b) /\ Exists (fun p => fst p > snd p) (zip a b)).
Proof.
  intros a b. split; [apply fit_lt_spec|]. split; [rewrite fit_gt_lt; apply fit_lt_spec|apply fit_dom_spec].
Qed.
Print Assumptions C08_order_meaning.

(* ---------------------------------------------------------------- non-vacuity *)
(* the default operator (equality of the list contents) meets the hypotheses *)
Example C08_simeq_ok :
  (forall x, csimilar SimEq x x = true) /\ (forall x y, csimilar SimEq x y = csimilar SimEq y x).
Proof.
  assert (R : forall l, zl_eqb l l = true) by (induction l; cbn; rewrite ?Z.eqb_refl; auto).
  assert (S : forall l l', zl_eqb l l' = zl_eqb l' l).
  { induction l; destruct l'; cbn; auto. rewrite Z.eqb_sym. now rewrite IHl. }
  split; intros; cbn; auto.
Qed.

(* a concrete history: capacity 2, a re-submission, an equal-fitness newcomer, an eviction *)
Example C08_nonvacuous_hof :
  let A := mkind 0 [0] [1; 5] in let B := mkind 1 [1] [3; 0] in
  let C := mkind 2 [2] [2; 2] in let D := mkind 3 [3] [1; 5] in
  hof_run cind wv (csimilar SimEq) 2 [[A; B]; []; [A; D]; [C]]
  = Some (mkhof [[2; 2]; [3; 0]] [B; C]).
Proof. vm_compute. reflexivity. Qed.

(* one individual dominating two members at once *)
Example C08_nonvacuous_pf :
  let A := mkind 0 [0] [0; 2] in let B := mkind 1 [1] [1; 1] in
  let C := mkind 2 [2] [2; 0] in let D := mkind 3 [3] [1; 2] in
  pf_run cind wv (csimilar SimEq) [[A; B; C]; [D; D]]
  = Some (mkhof [[1; 2]; [2; 0]] [C; D]).
Proof. vm_compute. reflexivity. Qed.

(* why the equal-fitness hypothesis of C08_hof_best_of_seen is needed (DESIGN Appendix B item 5):
   B is similar to the member A but scored better, so it is rejected; A is later evicted; B is then
   distinct from every member and strictly better than the worst one.  (Pairwise distinctness and
   the size bound hold regardless: C08_hof_shape, C08_hof_distinct.) *)
Example C08_equal_fitness_hypothesis_needed :
  let A := mkind 0 [0; 0] [1] in let B := mkind 1 [0; 1] [5] in
  let C := mkind 2 [1; 0] [2] in let D := mkind 3 [2; 0] [3] in
  hof_run cind wv (csimilar SimHead) 2 [[A; C]; [B]; [D]] = Some (mkhof [[2]; [3]] [D; C]) /\
  csimilar SimHead B A = true /\ csimilar SimHead B D = false /\ csimilar SimHead B C = false /\
  fit_gt (wv B) (wv C) = true.
Proof. vm_compute. repeat split. Qed.

(* the round-1 miss: a newcomer dominating two members that are not adjacent in the sorted archive *)
Example C08_nonvacuous_pf_noncontiguous :
  let A := mkind 0 [0] [3; 2; 0] in let B := mkind 1 [1] [2; 9; 0] in
  let C := mkind 2 [2] [1; 1; 1] in let D := mkind 3 [3] [4; 3; 1] in
  pf_run cind wv (csimilar SimEq) [[A; B; C]; [D]]
  = Some (mkhof [[2; 9; 0]; [4; 3; 1]] [D; B]).
Proof. vm_compute. reflexivity. Qed.
