(* Property C08 — theorems only (placeholder while the proofs are being built). *)
From Coq Require Import List ZArith Bool.
From DV Require Import Base.PyTuple Base.PyList Model.C08_Archive.
Import ListNotations.
Local Open Scope Z_scope.

Example C08_nonvacuous :
  hof_run cind wv (csimilar SimEq) 2 [[mkind 0 [0] [1]; mkind 1 [1] [3]]; []; [mkind 2 [2] [2]]]
  = Some (mkhof [[2]; [3]] [mkind 1 [1] [3]; mkind 2 [2] [2]]).
Proof. vm_compute. reflexivity. Qed.
