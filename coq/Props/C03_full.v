(* Property C03, end to end — the loop theorems of Props/C03.v composed with C02's theorems about
   varAnd / varOr.  Theorems only.  Model: Model/C03_Full.v (eaSimple, eaMuPlusLambda,
   eaMuCommaLambda of deap/algorithms.py running over the object heap of Model/C02_Variation.v and
   calling its var_and / var_or).  Proofs: Proofs/C03_Compose.v.

   In Props/C03.v the result of the variation step is an oracle answer constrained by the
   hypothesis off_ok (+ off_invalid_distinct) -- "the C02 contract".  Here that hypothesis is GONE:
   the offspring are computed by C02's model from explicit draws and operator oracles, and
   C03_full_variation_contract_* show that C02's theorems (parents untouched, offspring independent,
   valid => copy of a parent, count) establish off_ok / off_invalid_distinct.  The statements hold
     - for every number of generations (ngen = number of selection answers),
     - for every stream d of draws of deap.algorithms' `random`  (hypothesis: the run returns, i.e.
       equals FOk _; C03_full_simple_returns shows eaSimple returns whenever the stream holds
       ngen * (len//2 + len) values of random());
     - for every pair of operator oracles mate_o / mut_o (functions of the global call number and
       of the contents of their arguments) inside C02's frame (they write only to their argument
       objects and return arguments or new objects: Model/C02_Variation.v do_mate / do_mut); for
       eaSimple additionally C02's own hypothesis for varAnd: mate returns two different objects.
   What remains a hypothesis, explicitly:
     finit_ok h0 pop   every individual has a Fitness object, the members of the caller's list are
                       allocated objects, two different members do not share a Fitness object, a
                       fitness set beforehand equals evaluate(genotype);
     sel_in n k sel    the selection contract: toolbox.select answered k positions inside its
                       argument list of length n (static: n and k are known from len(population), mu,
                       lambda_);
     evaluate          is a function of the genotype (a Coq function);
     fle               total and transitive, for the hall of fame / elitism statements only;
     the known finding about one unevaluated object listed twice concerns generation 0 only
     (C03_full_calls_gen0 carries NoDup as a premise of "each once"); for every later generation
     "each once" is unconditional.
   fview b reads the heap of the composed state as a state of Model/C03_Loops.v (every allocated
   individual with its genotype and the values of the Fitness object it points to), so InvC / InvH
   are literally the invariants of Props/C03.v. *)
From Coq Require Import List ZArith Bool Arith Lia.
From DV Require Model.C02_Variation.
From DV Require Import Model.C03_Loops Proofs.C03_Loops Model.C03_Full Proofs.C03_Compose.
Import ListNotations.
Local Open Scope nat_scope.

Section Statements.
Context {G F T : Type}.
Variable evaluate : G -> F.
Variable fle : F -> F -> bool.
Variables ltb leb : T -> T -> bool.
Variable add : T -> T -> T.
Variable one : T.
Variable mate_o : nat -> G * option F -> G * option F -> V.mate_ans G F.
Variable mut_o : nat -> G * option F -> V.mut_ans G F.
Notation heap := (V.heap G F).
Notation store := (@store G F).
Notation fstate := (@fstate G F T).

(* C02's hypothesis for varAnd *)
Definition mate_distinct : Prop :=
  forall k x y, V.ret_distinct (V.ma_r1 (mate_o k x y)) (V.ma_r2 (mate_o k x y)).

(* ---------------- C02's theorems discharge the variation contract of the loop model ---------------- *)
(* st is the store of the loop model, h0 the heap (Rel: st is h0 read on the live objects, which own
   their Fitness objects); the answer of the variation oracle is `contents (hp s') off` *)
Theorem C03_full_variation_contract_and : forall (h0 : heap) (st : store) inp cxpb mutpb d k0 s' off,
  mate_distinct -> Rel h0 st -> Forall (live st) inp ->
  V.var_and ltb (mate_at mate_o k0) (mut_at mut_o k0) cxpb mutpb (V.start h0 d) inp = (s', inr off) ->
  off_ok st inp (contents (V.hp s') off) /\ off_invalid_distinct (contents (V.hp s') off) /\
  length off = length inp /\ Rel (V.hp s') (add_objs st (contents (V.hp s') off)).
Proof. exact (var_and_contract ltb mate_o mut_o). Qed.

Theorem C03_full_variation_contract_or : forall (h0 : heap) (st : store) inp lambda_ cxpb mutpb d k0 s' off,
  Rel h0 st -> Forall (live st) inp ->
  V.var_or ltb leb add one (mate_at mate_o k0) (mut_at mut_o k0) lambda_ cxpb mutpb (V.start h0 d) inp = (s', inr off) ->
  off_ok st inp (contents (V.hp s') off) /\ off_invalid_distinct (contents (V.hp s') off) /\
  length off = Z.to_nat lambda_ /\ Rel (V.hp s') (add_objs st (contents (V.hp s') off)).
Proof. exact (var_or_contract ltb leb add one mate_o mut_o). Qed.

(* a returning run of the composed model IS a run of the loop model of Props/C03.v whose oracle
   answers all satisfy their contracts (run_ok), from an initial store satisfying init_ok *)
Theorem C03_full_run_ok_simple : forall cxpb mutpb h0 d pop sels (b : fstate),
  mate_distinct -> finit_ok evaluate h0 pop -> Forall (sel_in (length pop) (length pop)) sels ->
  full_simple evaluate fle ltb mate_o mut_o cxpb mutpb h0 d pop sels = FOk b ->
  exists answers, length answers = length sels /\
    init_ok evaluate (st_of h0 pop) pop /\
    run_ok (step_simple evaluate fle) ans_ok_simple 1 (gen0 evaluate fle (init (st_of h0 pop) pop)) answers /\
    Forall (fun a => off_invalid_distinct (a_off a)) answers /\
    SRel b (ea_simple evaluate fle (st_of h0 pop) pop answers).
Proof. exact (fun cxpb mutpb h0 d pop sels b Md => full_simple_link evaluate fle ltb mate_o mut_o Md cxpb mutpb h0 d pop sels b). Qed.

Theorem C03_full_run_ok_plus : forall mu lambda_ cxpb mutpb h0 d pop sels (b : fstate),
  finit_ok evaluate h0 pop -> sels_plus (length pop) mu (Z.to_nat lambda_) sels ->
  full_plus evaluate fle ltb leb add one mate_o mut_o lambda_ cxpb mutpb h0 d pop sels = FOk b ->
  exists answers, length answers = length sels /\
    init_ok evaluate (st_of h0 pop) pop /\
    run_ok (step_plus evaluate fle) (ans_ok_plus mu (Z.to_nat lambda_)) 1
           (gen0 evaluate fle (init (st_of h0 pop) pop)) answers /\
    Forall (fun a => off_invalid_distinct (a_off a)) answers /\
    SRel b (ea_plus evaluate fle (st_of h0 pop) pop answers).
Proof. exact (full_plus_link evaluate fle ltb leb add one mate_o mut_o). Qed.

Theorem C03_full_run_ok_comma : forall mu lambda_ cxpb mutpb h0 d pop sels (b : fstate),
  finit_ok evaluate h0 pop -> Forall (sel_in (Z.to_nat lambda_) mu) sels ->
  full_comma evaluate fle ltb leb add one mate_o mut_o mu lambda_ cxpb mutpb h0 d pop sels = FOk b ->
  exists answers, length answers = length sels /\
    init_ok evaluate (st_of h0 pop) pop /\
    run_ok (step_comma evaluate fle) (ans_ok_comma mu (Z.to_nat lambda_)) 1
           (gen0 evaluate fle (init (st_of h0 pop) pop)) answers /\
    Forall (fun a => off_invalid_distinct (a_off a)) answers /\
    SRel b (ea_comma evaluate fle (st_of h0 pop) pop answers).
Proof. exact (full_comma_link evaluate fle ltb leb add one mate_o mut_o). Qed.

(* ---------------- loop_inv at every generation boundary ---------------- *)
(* InvC: every member of the population valid with fitness = evaluate(genotype); logbook gens
   0,1,2,...; one record per generation with nevals = number of evaluate calls; every Statistics
   snapshot truthful; last record = current population; every evaluated individual and every member
   shown to the hall of fame.  A boundary is the end of the run on a prefix of the selection answers. *)
Theorem C03_full_loop_inv_simple : forall cxpb mutpb h0 d pop sels1 sels2 (e : fstate),
  mate_distinct -> finit_ok evaluate h0 pop ->
  Forall (sel_in (length pop) (length pop)) (sels1 ++ sels2) ->
  full_simple evaluate fle ltb mate_o mut_o cxpb mutpb h0 d pop (sels1 ++ sels2) = FOk e ->
  exists b, full_simple evaluate fle ltb mate_o mut_o cxpb mutpb h0 d pop sels1 = FOk b /\
    InvC evaluate (fview b) /\ length (f_log b) = S (length sels1) /\
    length (f_pop b) = length pop /\ extends_history (fview b) (fview e).
Proof. exact (fun cxpb mutpb h0 d pop sels1 sels2 e Md => full_simple_every_boundary evaluate fle ltb mate_o mut_o Md cxpb mutpb h0 d pop sels1 sels2 e). Qed.

Theorem C03_full_loop_inv_plus : forall mu lambda_ cxpb mutpb h0 d pop sels1 sels2 (e : fstate),
  finit_ok evaluate h0 pop -> sels_plus (length pop) mu (Z.to_nat lambda_) (sels1 ++ sels2) ->
  full_plus evaluate fle ltb leb add one mate_o mut_o lambda_ cxpb mutpb h0 d pop (sels1 ++ sels2) = FOk e ->
  exists b, full_plus evaluate fle ltb leb add one mate_o mut_o lambda_ cxpb mutpb h0 d pop sels1 = FOk b /\
    InvC evaluate (fview b) /\ length (f_log b) = S (length sels1) /\
    length (f_pop b) = match sels1 with [] => length pop | _ => mu end /\
    extends_history (fview b) (fview e).
Proof. exact (full_plus_every_boundary evaluate fle ltb leb add one mate_o mut_o). Qed.

Theorem C03_full_loop_inv_comma : forall mu lambda_ cxpb mutpb h0 d pop sels1 sels2 (e : fstate),
  finit_ok evaluate h0 pop -> Forall (sel_in (Z.to_nat lambda_) mu) (sels1 ++ sels2) ->
  full_comma evaluate fle ltb leb add one mate_o mut_o mu lambda_ cxpb mutpb h0 d pop (sels1 ++ sels2) = FOk e ->
  exists b, full_comma evaluate fle ltb leb add one mate_o mut_o mu lambda_ cxpb mutpb h0 d pop sels1 = FOk b /\
    InvC evaluate (fview b) /\ length (f_log b) = S (length sels1) /\
    length (f_pop b) = match sels1 with [] => length pop | _ => mu end /\
    extends_history (fview b) (fview e).
Proof. exact (full_comma_every_boundary evaluate fle ltb leb add one mate_o mut_o). Qed.

(* ---------------- who is evaluated, how often, nevals ---------------- *)
(* fcalls_exact b s' gen inp s1 off (Proofs/C03_Compose.v): in the generation from b to s', varAnd /
   varOr was called on inp and returned off (final variation state s1, with C02's call log);
   evaluate was called exactly on the offspring invalid at that moment, in order, each ONCE, with their
   genotype; the record carries gen and nevals = that number; every offspring that went through
   mate / mutate is among them; an offspring that was not evaluated went through no operator and
   carries the genotype and the valid fitness of a member of inp. *)
Theorem C03_full_calls_gen0 : forall h0 (d : list (V.draw T)) pop,
  finit_ok evaluate h0 pop ->
  let s' := fgen0 evaluate fle (finit h0 d pop) in
  exists log r,
    f_calls s' = [log] /\ f_log s' = [r] /\
    map fst log = filter (invalid_in h0) pop /\
    Forall (fun c => snd c = V.geno (V.ind_at h0 (fst c))) log /\
    r_gen r = 0 /\ r_nevals r = length log /\
    (NoDup (filter (invalid_in h0) pop) -> NoDup (map fst log)).
Proof. exact (full_gen0_calls evaluate fle). Qed.

Theorem C03_full_calls_simple : forall cxpb mutpb h0 d pop sels1 sel (b s' : fstate),
  mate_distinct -> finit_ok evaluate h0 pop ->
  Forall (sel_in (length pop) (length pop)) (sels1 ++ [sel]) ->
  full_simple evaluate fle ltb mate_o mut_o cxpb mutpb h0 d pop sels1 = FOk b ->
  fstep_simple evaluate fle ltb mate_o mut_o cxpb mutpb (S (length sels1)) b sel = FOk s' ->
  exists s1 off,
    call_var_and ltb mate_o mut_o cxpb mutpb b (select_by (f_pop b) sel) = (s1, inr off) /\
    f_pop s' = off /\ length off = length pop /\
    fcalls_exact b s' (S (length sels1)) (select_by (f_pop b) sel) s1 off.
Proof. exact (fun cxpb mutpb h0 d pop sels1 sel b s' Md => full_simple_calls evaluate fle ltb mate_o mut_o Md cxpb mutpb h0 d pop sels1 sel b s'). Qed.

Theorem C03_full_calls_plus : forall mu lambda_ cxpb mutpb h0 d pop sels1 sel (b s' : fstate),
  finit_ok evaluate h0 pop -> sels_plus (length pop) mu (Z.to_nat lambda_) (sels1 ++ [sel]) ->
  full_plus evaluate fle ltb leb add one mate_o mut_o lambda_ cxpb mutpb h0 d pop sels1 = FOk b ->
  fstep_plus evaluate fle ltb leb add one mate_o mut_o lambda_ cxpb mutpb (S (length sels1)) b sel = FOk s' ->
  exists s1 off,
    call_var_or ltb leb add one mate_o mut_o lambda_ cxpb mutpb b (f_pop b) = (s1, inr off) /\
    f_pop s' = select_by (f_pop b ++ off) sel /\ length off = Z.to_nat lambda_ /\ length (f_pop s') = mu /\
    fcalls_exact b s' (S (length sels1)) (f_pop b) s1 off.
Proof. exact (full_plus_calls evaluate fle ltb leb add one mate_o mut_o). Qed.

Theorem C03_full_calls_comma : forall mu lambda_ cxpb mutpb h0 d pop sels1 sel (b s' : fstate),
  finit_ok evaluate h0 pop -> Forall (sel_in (Z.to_nat lambda_) mu) (sels1 ++ [sel]) ->
  full_comma evaluate fle ltb leb add one mate_o mut_o mu lambda_ cxpb mutpb h0 d pop sels1 = FOk b ->
  fstep_comma evaluate fle ltb leb add one mate_o mut_o lambda_ cxpb mutpb (S (length sels1)) b sel = FOk s' ->
  exists s1 off,
    call_var_or ltb leb add one mate_o mut_o lambda_ cxpb mutpb b (f_pop b) = (s1, inr off) /\
    f_pop s' = select_by off sel /\ length off = Z.to_nat lambda_ /\ length (f_pop s') = mu /\
    fcalls_exact b s' (S (length sels1)) (f_pop b) s1 off.
Proof. exact (full_comma_calls evaluate fle ltb leb add one mate_o mut_o). Qed.

(* ---------------- when eaSimple returns ---------------- *)
Theorem C03_full_simple_returns : forall cxpb mutpb h0 pop sels us rest,
  mate_distinct -> finit_ok evaluate h0 pop -> Forall (sel_in (length pop) (length pop)) sels ->
  length us = length sels * (Nat.div2 (length pop) + length pop) ->
  exists e, full_simple evaluate fle ltb mate_o mut_o cxpb mutpb h0 (map V.DRandom us ++ rest) pop sels = FOk e /\
            f_dr e = rest.
Proof. exact (full_simple_total evaluate fle ltb mate_o mut_o). Qed.

(* ---------------- hall of fame; mu+lambda elitism (fitness order = total preorder) ---------------- *)
Section Order.
Hypothesis fle_total : forall a b, fle a b = true \/ fle b a = true.
Hypothesis fle_trans : forall a b c, fle a b = true -> fle b c = true -> fle a c = true.

(* InvH: the hall of fame's best >= every evaluated fitness, every fitness any record logged, every
   member of the population; each record's own best >= what it logged *)
Theorem C03_full_hof_simple : forall cxpb mutpb h0 d pop sels1 sels2 (e : fstate),
  mate_distinct -> finit_ok evaluate h0 pop ->
  Forall (sel_in (length pop) (length pop)) (sels1 ++ sels2) ->
  full_simple evaluate fle ltb mate_o mut_o cxpb mutpb h0 d pop (sels1 ++ sels2) = FOk e ->
  exists b, full_simple evaluate fle ltb mate_o mut_o cxpb mutpb h0 d pop sels1 = FOk b /\
            InvH evaluate fle (fview b).
Proof. exact (full_simple_hof evaluate fle ltb mate_o mut_o fle_total fle_trans). Qed.

Theorem C03_full_hof_plus : forall mu lambda_ cxpb mutpb h0 d pop sels1 sels2 (e : fstate),
  finit_ok evaluate h0 pop -> sels_plus (length pop) mu (Z.to_nat lambda_) (sels1 ++ sels2) ->
  full_plus evaluate fle ltb leb add one mate_o mut_o lambda_ cxpb mutpb h0 d pop (sels1 ++ sels2) = FOk e ->
  exists b, full_plus evaluate fle ltb leb add one mate_o mut_o lambda_ cxpb mutpb h0 d pop sels1 = FOk b /\
            InvH evaluate fle (fview b).
Proof. exact (full_plus_hof evaluate fle ltb leb add one mate_o mut_o fle_total fle_trans). Qed.

Theorem C03_full_hof_comma : forall mu lambda_ cxpb mutpb h0 d pop sels1 sels2 (e : fstate),
  finit_ok evaluate h0 pop -> Forall (sel_in (Z.to_nat lambda_) mu) (sels1 ++ sels2) ->
  full_comma evaluate fle ltb leb add one mate_o mut_o mu lambda_ cxpb mutpb h0 d pop (sels1 ++ sels2) = FOk e ->
  exists b, full_comma evaluate fle ltb leb add one mate_o mut_o mu lambda_ cxpb mutpb h0 d pop sels1 = FOk b /\
            InvH evaluate fle (fview b).
Proof. exact (full_comma_hof evaluate fle ltb leb add one mate_o mut_o fle_total fle_trans). Qed.

(* eaMuPlusLambda with toolbox.select = tools.selBest, mu >= 1, mu <= len(population) + lambda_:
   at every generation each fitness present in the population before is matched or beaten by a
   member of the population afterwards *)
Theorem C03_full_plus_elitist : forall mu lambda_ cxpb mutpb h0 d pop ngen (b s' : fstate),
  finit_ok evaluate h0 pop -> mu <= length pop + Z.to_nat lambda_ -> 1 <= mu ->
  full_plus_best evaluate fle ltb leb add one mate_o mut_o mu lambda_ cxpb mutpb h0 d pop ngen = FOk b ->
  fstep_plus_best evaluate fle ltb leb add one mate_o mut_o mu lambda_ cxpb mutpb (S ngen) b tt = FOk s' ->
  forall x f, In x (f_pop b) -> V.fit_of (f_hp b) x = Some f ->
  exists y fy, In y (f_pop s') /\ V.fit_of (f_hp s') y = Some fy /\ fle f fy = true.
Proof. exact (fun mu lambda_ cxpb mutpb => full_plus_best_elitist evaluate fle ltb leb add one mate_o mut_o mu lambda_ cxpb mutpb fle_total fle_trans). Qed.
End Order.

(* ... and such a run is a run of eaMuPlusLambda for selection answers satisfying the selection
   contract, so C03_full_loop_inv_plus / _hof_plus / _calls_plus apply to it *)
Theorem C03_full_plus_best_is_plus : forall mu lambda_ cxpb mutpb h0 d pop ngen (e : fstate),
  finit_ok evaluate h0 pop -> mu <= length pop + Z.to_nat lambda_ ->
  full_plus_best evaluate fle ltb leb add one mate_o mut_o mu lambda_ cxpb mutpb h0 d pop ngen = FOk e ->
  exists sels, length sels = ngen /\ sels_plus (length pop) mu (Z.to_nat lambda_) sels /\
    full_plus evaluate fle ltb leb add one mate_o mut_o lambda_ cxpb mutpb h0 d pop sels = FOk e.
Proof. exact (full_plus_best_is_plus evaluate fle ltb leb add one mate_o mut_o). Qed.

End Statements.

Print Assumptions C03_full_variation_contract_and.
Print Assumptions C03_full_variation_contract_or.
Print Assumptions C03_full_run_ok_simple.
Print Assumptions C03_full_run_ok_plus.
Print Assumptions C03_full_run_ok_comma.
Print Assumptions C03_full_loop_inv_simple.
Print Assumptions C03_full_loop_inv_plus.
Print Assumptions C03_full_loop_inv_comma.
Print Assumptions C03_full_calls_gen0.
Print Assumptions C03_full_calls_simple.
Print Assumptions C03_full_calls_plus.
Print Assumptions C03_full_calls_comma.
Print Assumptions C03_full_simple_returns.
Print Assumptions C03_full_hof_simple.
Print Assumptions C03_full_hof_plus.
Print Assumptions C03_full_hof_comma.
Print Assumptions C03_full_plus_elitist.
Print Assumptions C03_full_plus_best_is_plus.

(* ---------------- non-vacuity: the hypotheses are satisfiable, the runs return ---------------- *)
(* genotype = fitness = number type = nat, evaluate = identity; two parents, the first evaluated
   (fitness 10 = its genotype), the second not; an in-place mate returning its arguments swapped, a
   mutate returning a new object (the operators of C02_nonvacuous) *)
Definition fx_h0 : V.heap nat nat :=
  V.mkheap (fun u => V.mkind (10 + u) u) (fun v => if Nat.eqb v 0 then Some 10 else None) 2 2.
Definition fx_mate (k : nat) (x y : nat * option nat) : V.mate_ans nat nat :=
  V.mkmate (fst y, snd x) (fst x, snd y) V.RArg2 V.RArg1.
Definition fx_mut (k : nat) (x : nat * option nat) : V.mut_ans nat nat :=
  V.mkmut x (V.UNew (S (fst x), snd x)).

Example C03_full_hypotheses_nonvacuous :
  finit_ok (fun g : nat => g) fx_h0 [0; 1] /\
  (forall k x y, V.ret_distinct (V.ma_r1 (fx_mate k x y)) (V.ma_r2 (fx_mate k x y))) /\
  Forall (sel_in 2 2) [[1; 0]; [0; 0]] /\ sels_plus 2 1 3 [[4]; [0]] /\ Forall (sel_in 3 1) [[2]; [0]].
Proof.
  split; [|split; [|split; [|split]]].
  - constructor.
    + intros u Hu. destruct u as [|[|u]]; cbn in *; lia.
    + repeat constructor.
    + intros u v [<-|[<-|[]]] [<-|[<-|[]]]; cbn; congruence.
    + apply Forall_cons; [right; reflexivity|apply Forall_cons; [left; reflexivity|apply Forall_nil]].
  - intros; exact I.
  - repeat constructor.
  - cbn. repeat split; repeat constructor.
  - repeat constructor.
Qed.

(* eaSimple, two generations: generation 1 mates (draw 0 < 5) and mutates the second offspring
   (draws 9, 1 against mutpb 5), generation 2 varies nothing (draws 9 9 9) *)
Example C03_full_simple_nonvacuous :
  exists e, full_simple (fun g : nat => g) Nat.leb Nat.ltb fx_mate fx_mut 5 5 fx_h0
              (map V.DRandom [0; 9; 1; 9; 9; 9]) [0; 1] [[1; 0]; [0; 0]] = FOk e /\
            map (@r_gen nat nat) (f_log e) = [0; 1; 2] /\ map (@r_nevals nat nat) (f_log e) = [1; 2; 0] /\
            length (f_pop e) = 2 /\ f_dr e = [].
Proof. eexists. vm_compute. repeat split. Qed.

(* eaMuPlusLambda (mu = 1, lambda_ = 3) and eaMuCommaLambda, two generations: a crossover, a mutation
   and a reproduction in generation 1; three reproductions in generation 2 *)
Example C03_full_plus_nonvacuous :
  exists e, full_plus (fun g : nat => g) Nat.leb Nat.ltb Nat.leb Nat.add 10 fx_mate fx_mut 3 3 3 fx_h0
              [V.DRandom 0; V.DSample 2 1 0; V.DRandom 4; V.DChoice 2 0; V.DRandom 8; V.DChoice 2 0;
               V.DRandom 8; V.DChoice 1 0; V.DRandom 8; V.DChoice 1 0; V.DRandom 9; V.DChoice 1 0]
              [0; 1] [[4]; [0]] = FOk e /\
            map (@r_gen nat nat) (f_log e) = [0; 1; 2] /\ map (@r_nevals nat nat) (f_log e) = [1; 2; 0] /\
            length (f_pop e) = 1 /\ f_dr e = [].
Proof. eexists. vm_compute. repeat split. Qed.

Example C03_full_comma_nonvacuous :
  exists e, full_comma (fun g : nat => g) Nat.leb Nat.ltb Nat.leb Nat.add 10 fx_mate fx_mut 1 3 3 3 fx_h0
              [V.DRandom 0; V.DSample 2 1 0; V.DRandom 4; V.DChoice 2 0; V.DRandom 8; V.DChoice 2 0;
               V.DRandom 8; V.DChoice 1 0; V.DRandom 8; V.DChoice 1 0; V.DRandom 9; V.DChoice 1 0]
              [0; 1] [[2]; [0]] = FOk e /\
            map (@r_gen nat nat) (f_log e) = [0; 1; 2] /\ map (@r_nevals nat nat) (f_log e) = [1; 2; 0] /\
            length (f_pop e) = 1.
Proof. eexists. vm_compute. repeat split. Qed.

(* mu+lambda with selBest, one generation *)
Example C03_full_plus_best_nonvacuous :
  exists e, full_plus_best (fun g : nat => g) Nat.leb Nat.ltb Nat.leb Nat.add 10 fx_mate fx_mut 2 3 3 3 fx_h0
              [V.DRandom 0; V.DSample 2 1 0; V.DRandom 4; V.DChoice 2 0; V.DRandom 8; V.DChoice 2 0]
              [0; 1] 1 = FOk e /\ length (f_pop e) = 2.
Proof. eexists. vm_compute. repeat split. Qed.

(* a raising run: random.sample on a population of one individual leaves the loop with ValueError *)
Example C03_full_raise_nonvacuous :
  full_plus (fun g : nat => g) Nat.leb Nat.ltb Nat.leb Nat.add 10 fx_mate fx_mut 3 3 3 fx_h0
            [V.DRandom 0] [0] [[0]] = FRaise V.ValueError.
Proof. vm_compute. reflexivity. Qed.

(* ---------------- the correspondence runner validates the hypotheses ---------------- *)
(* If Corr.C03_Full.check accepts a recorded run of the implementation, the hypotheses of the theorems
   above hold for that run (initial heap, mate returns two different objects in every recorded call,
   selection contract), the model consumed exactly the recorded draws and operator calls, and the state
   compared with the implementation is the result of full_simple / full_plus / full_comma. *)
From Coq Require Import PrimFloat.
From DV Require Import Base.Corr Corr.C03 Proofs.C03_Corr Corr.C03_Full Proofs.C03_FullCorr.

Theorem C03_full_corr_validates : forall k ngen p w mu lambda_ cxpb mutpb objs pop draws script sels oc ol os ofin oi,
  check (CFull k ngen p w mu lambda_ cxpb mutpb objs pop draws script sels oc ol os ofin oi) = true ->
  finit_ok (ev_fun p) (heap_of objs) pop /\
  (forall j x y, V.ret_distinct (V.ma_r1 (mate_of script j x y)) (V.ma_r2 (mate_of script j x y))) /\
  sels_ok k (length pop) mu (Z.to_nat lambda_) (map os_idx sels) /\
  length sels = ngen /\
  exists e, full_kind p w script k mu lambda_ cxpb mutpb (heap_of objs) draws pop (map os_idx sels) = FOk e /\
            state_matches (fview e) oc ol os ofin = true /\ f_dr e = [] /\ f_kc e = length script /\ oi = true.
Proof. exact check_full_validates. Qed.
Print Assumptions C03_full_corr_validates.

(* End to end: for every recorded run of the implementation the runner accepts, the state of the
   composed model that agrees with everything observed satisfies the invariants; nothing is assumed about
   what varAnd / varOr returned. *)
Theorem C03_full_accepted_simple_run : forall ngen p w mu lambda_ cxpb mutpb objs pop draws script sels oc ol os ofin oi,
  check (CFull FSimple ngen p w mu lambda_ cxpb mutpb objs pop draws script sels oc ol os ofin oi) = true ->
  exists e, full_simple (ev_fun p) (wfle w) PrimFloat.ltb (mate_of script) (mut_of script) cxpb mutpb
                        (heap_of objs) draws pop (map os_idx sels) = FOk e /\
    InvC (ev_fun p) (fview e) /\ InvH (ev_fun p) (wfle w) (fview e) /\
    length (f_log e) = S ngen /\ length (f_pop e) = length pop /\
    state_matches (fview e) oc ol os ofin = true.
Proof. exact accepted_full_simple_run. Qed.
Print Assumptions C03_full_accepted_simple_run.

Theorem C03_full_accepted_plus_run : forall ngen p w mu lambda_ cxpb mutpb objs pop draws script sels oc ol os ofin oi,
  check (CFull FPlus ngen p w mu lambda_ cxpb mutpb objs pop draws script sels oc ol os ofin oi) = true ->
  exists e, full_plus (ev_fun p) (wfle w) PrimFloat.ltb PrimFloat.leb PrimFloat.add 1%float (mate_of script) (mut_of script)
                      lambda_ cxpb mutpb (heap_of objs) draws pop (map os_idx sels) = FOk e /\
    InvC (ev_fun p) (fview e) /\ InvH (ev_fun p) (wfle w) (fview e) /\
    length (f_log e) = S ngen /\ length (f_pop e) = match ngen with 0 => length pop | _ => mu end /\
    state_matches (fview e) oc ol os ofin = true.
Proof. exact accepted_full_plus_run. Qed.
Print Assumptions C03_full_accepted_plus_run.

Theorem C03_full_accepted_comma_run : forall ngen p w mu lambda_ cxpb mutpb objs pop draws script sels oc ol os ofin oi,
  check (CFull FComma ngen p w mu lambda_ cxpb mutpb objs pop draws script sels oc ol os ofin oi) = true ->
  exists e, full_comma (ev_fun p) (wfle w) PrimFloat.ltb PrimFloat.leb PrimFloat.add 1%float (mate_of script) (mut_of script)
                       mu lambda_ cxpb mutpb (heap_of objs) draws pop (map os_idx sels) = FOk e /\
    InvC (ev_fun p) (fview e) /\ InvH (ev_fun p) (wfle w) (fview e) /\
    length (f_log e) = S ngen /\ length (f_pop e) = match ngen with 0 => length pop | _ => mu end /\
    state_matches (fview e) oc ol os ofin = true.
Proof. exact accepted_full_comma_run. Qed.
Print Assumptions C03_full_accepted_comma_run.
