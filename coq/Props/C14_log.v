(* Property C14 — the multi-objective selection theorems for the sorter the code calls.

   StrategyMultiObjective._select sorts with tools.sortLogNondominated(candidates, len(candidates)).
   Props/C14.v (C14_select_rank_then_hv, C14_select_exactly_mu, C14_fronts_are_ranks) is about a
   model that peels.  Here the fronts are those of C04's model of sortLogNondominated
   (Model/C04_LogSort.v : sort_log), composed through C04's theorems: mo_select_log
   (Model/C14_LogSelect.v) is _select with `sort_log (candidates) (len candidates) False`.
   Candidates are given by their integer weighted values (C04's models are over integers; any
   finite set of floats is order-isomorphic to integers, and the harness replays float candidates
   through their per-objective ranks).  spec_fronts is C04's peeling specification of the Pareto
   fronts (C04_spec_is_peeling). *)
From Coq Require Import ZArith List Permutation.
From mathcomp Require Import all_ssreflect.
From DV Require Import Model.C14_exec Model.C04_NDSort Model.C04_LogSort Model.C14_LogSelect
  Proofs.C14_MO Proofs.C14_LogSelect.
Set Implicit Arguments. Unset Strict Implicit. Unset Printing Implicit Defensive.

(* the model of Props/C14.v is the same selection, on the peeled fronts *)
Theorem C14_log_select_same_code :
  forall (T : Type) (Op : Ops T) mu (wvs : seq (seq T)) hv,
  mo_select Op mu wvs hv =
  if Nat.leb (length wvs) mu then (List.seq 0 (length wvs), [::], [::])
  else mo_select_fronts mu (nd_fronts Op wvs) hv.
Proof. exact: mo_select_is_fronts. Qed.
Print Assumptions C14_log_select_same_code.

(* rank, then hypervolume: sort_log succeeds, its fronts are (front by front) permutations of the
   leading peeling fronts of the candidates and cover all candidates; _select keeps the leading
   fronts that fit entirely and reduces the next one by repeatedly removing the individual the
   indicator designates *)
Theorem C14_log_select_rank_then_hv :
  forall (mu d : nat) (wvs : seq (seq Z)) (hv : seq nat),
  (forall w, List.In w wvs -> length w = d) -> (2 <= d)%N -> (mu < size wvs)%N ->
  let pop := cand_pop wvs in
  let n := size wvs in
  exists fs j0,
    [/\ sort_log pop (Z.of_nat n) false = Some (LFronts fs),
        (j0 < length (spec_fronts pop))%coq_nat,
        List.Forall2 (@Permutation ind) fs (List.firstn j0.+1 (spec_fronts pop)) &
        let fronts := List.map (List.map uid) fs in
        let j := nfit mu fronts 0 in
        let ch := flatten (take j fronts) in
        [/\ perm_eq (flatten fronts) (iota 0 n), (j < size fronts)%N &
            mo_select_log mu wvs hv = Some
              (if size ch == mu then (ch, flatten (drop j fronts), [::])
               else let fj := nth [::] fronts j in
                    let k := (mu - size ch)%N in
                    let: (m', rem, seen) := hv_removals (size fj - k) fj hv [::] [::] in
                    (ch ++ m', flatten (drop j.+1 fronts) ++ rem, seen))]].
Proof. exact: mo_select_log_spec. Qed.
Print Assumptions C14_log_select_rank_then_hv.

(* exactly mu survivors; chosen ++ not_chosen rearranges all the candidates (indicator indices in range) *)
Theorem C14_log_select_exactly_mu :
  forall (mu d : nat) (wvs : seq (seq Z)) (hv : seq nat),
  (forall w, List.In w wvs -> length w = d) -> (2 <= d)%N -> (mu < size wvs)%N ->
  let pop := cand_pop wvs in
  let n := size wvs in
  exists fs,
    sort_log pop (Z.of_nat n) false = Some (LFronts fs) /\
    let fronts := List.map (List.map uid) fs in
    let j := nfit mu fronts 0 in
    let fj := nth [::] fronts j in
    let k := (mu - size (flatten (take j fronts)))%N in
    (hv_ok (size fj - k) fj hv ->
     exists chosen not_chosen seen,
       [/\ mo_select_log mu wvs hv = Some (chosen, not_chosen, seen), size chosen = mu &
           perm_eq (chosen ++ not_chosen) (iota 0 n)]).
Proof. exact: mo_select_log_exactly_mu. Qed.
Print Assumptions C14_log_select_exactly_mu.

(* the two selection theorems for ANY fronts covering more than mu candidates *)
Theorem C14_log_select_fronts_exactly_mu :
  forall (mu : nat) (fronts : seq (seq nat)) (hv : seq nat),
  (mu < size (flatten fronts))%N ->
  let j := nfit mu fronts 0 in
  let fj := nth [::] fronts j in
  let k := (mu - size (flatten (take j fronts)))%N in
  hv_ok (size fj - k) fj hv ->
  let: (chosen, not_chosen, seen) := mo_select_fronts mu fronts hv in
  size chosen = mu /\ perm_eq (chosen ++ not_chosen) (flatten fronts).
Proof. exact: mo_select_fronts_exactly_mu. Qed.
Print Assumptions C14_log_select_fronts_exactly_mu.

(* non-vacuity: 5 candidates with 2 objectives (a duplicate, three fronts), mu = 3: the first front
   (3 members: candidates 0, 3, 1 in the sorter's order) fits exactly *)
Example C14_log_nonvacuous :
  let wvs := [:: [:: 1; 2]; [:: 2; 1]; [:: 0; 0]; [:: 1; 2]; [:: -1; 0]]%Z in
  mo_select_log 3 wvs [::] = Some ([:: 1; 0; 3], [:: 2; 4], [::]) /\
  mo_select_log 2 wvs [:: 1] = Some ([:: 1; 3], [:: 2; 4; 0], [:: [:: 1; 0; 3]]).
Proof. by vm_compute. Qed.
