(* Property C11 — theorems only (placeholder while the harness is brought up). *)
From Coq Require Import List ZArith Bool.
From DV Require Import Model.C11_GPTree.
Import ListNotations.
Example C11_placeholder : height [] = Ok 0%Z. Proof. reflexivity. Qed.
