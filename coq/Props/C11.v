(* Property C11 — GP trees stay well-formed, well-typed and within limits under all operators.
   Theorems only.  Model: Model/C11_GPTree.v (deap/gp.py);  lemmas: Proofs/C11_*.v.

   Vocabulary
     tree / flatten   inductive tree and its prefix list (the PrimitiveTree contents)
     wft t            complete prefix expression: every node has exactly `arity` children
     typed sub e t    wft, the root's return type is accepted at e (sub ret e), and every child is
                      accepted at its parent's argument type; `sub` = issubclass on the types
     plug c u         tree with subtree u in the one-hole context c; |cpre c| = prefix index of u's root
     theight, node_depths, leaf_depths     recursive height / depths
     pset_ok sub ps   what PrimitiveSetTyped._add establishes for pset.primitives / pset.terminals
                      (theorem C11_add_establishes_pset_ok below)
   Every operator result is quantified over ALL draw lists `ds`: the model rejects draws outside the
   ranges `random` guarantees, so `... ds = Ok (out, ds')` ranges exactly over the possible runs. *)
From Coq Require Import List ZArith NArith Bool.
From DV Require Import Model.C11_GPTree Model.C11_PSet Proofs.C11_Tree Proofs.C11_Gen Proofs.C11_Ops Proofs.C11_Cx
  Proofs.C11_PSet Proofs.C11_Safe Proofs.C11_Parse Proofs.C11_PySlice Proofs.C11_Main.
From DV Require Base.PyList.
Import ListNotations.
Local Open Scope Z_scope.

(* ---- subtree search: the slice returned for the index of u's root is exactly u's span ---- *)
Theorem C11_search_subtree_span : forall c u, wft (plug c u) ->
  let b := length (cpre c) in
  search_subtree (flatten (plug c u)) b = Ok (b, (b + size u)%nat) /\
  get_slice (flatten (plug c u)) b (b + size u) = flatten u /\
  nth_error (flatten (plug c u)) b = Some (root u).
Proof. exact search_subtree_span. Qed.
Print Assumptions C11_search_subtree_span.

(* the same through Python's index convention (non-negative index, or index - len; below -len: IndexError) —
   repo commit 992a71c "fix: PrimitiveTree.searchSubtree accepts a negative index" *)
Theorem C11_search_subtree_py_span : forall c u, wft (plug c u) ->
  let l := flatten (plug c u) in let b := length (cpre c) in
  search_subtree_py l (Z.of_nat b) = Ok (b, (b + size u)%nat) /\
  search_subtree_py l (Z.of_nat b - zlen l) = Ok (b, (b + size u)%nat) /\
  (forall i, i < - zlen l -> search_subtree_py l i = Err EIndex).
Proof. exact search_subtree_py_span. Qed.
Print Assumptions C11_search_subtree_py_span.

(* ... and every index of the list is the root of such a subtree *)
Theorem C11_every_index_roots_a_subtree : forall t i, (i < length (flatten t))%nat ->
  exists c u, t = plug c u /\ length (cpre c) = i.
Proof. exact every_index_roots_a_subtree. Qed.
Print Assumptions C11_every_index_roots_a_subtree.

(* that subtree is unique *)
Theorem C11_subtree_at_unique : forall c u c' u',
  wft (plug c u) -> plug c u = plug c' u' -> length (cpre c) = length (cpre c') -> u = u'.
Proof. exact subtree_at_unique. Qed.
Print Assumptions C11_subtree_at_unique.

(* the vocabulary is decidable: `complete` / `wt_list` (Model/C11_Spec.v, evaluated by the correspondence
   runner against the harness's independent checker) decide "complete prefix expression" and
   "well typed at e" *)
Theorem C11_complete_iff : forall l, complete l = true <-> exists t, wft t /\ l = flatten t.
Proof. exact complete_iff. Qed.
Print Assumptions C11_complete_iff.

Theorem C11_wt_list_iff : forall sub e l,
  wt_list sub e l = true <-> exists t, l = flatten t /\ typed sub e t.
Proof. exact wt_list_iff. Qed.
Print Assumptions C11_wt_list_iff.

(* ---- reported height = depth of the deepest node ---- *)
Theorem C11_height_is_depth : forall t, wft t ->
  height (flatten t) = Ok (theight t) /\
  Forall (fun d => 0 <= d <= theight t) (node_depths 0 t) /\ In (theight t) (node_depths 0 t).
Proof. exact height_is_depth. Qed.
Print Assumptions C11_height_is_depth.

(* ---- generators ---- *)
(* gen_post mode min max t out :=
     exists k, out = flatten k /\ wft k /\ typed sub t k /\ min <= theight k <= max /\
       (full: every leaf depth = theight k | grow: every leaf depth >= min)                       *)
Theorem C11_gen_wf_typed_height : forall sub ps, pset_ok sub ps ->
  forall mode minh maxh t ds out ds', 0 <= minh ->
  generate ps mode minh maxh t ds = Ok (out, ds') ->
  exists k, out = flatten k /\ wft k /\ typed sub t k /\
    minh <= theight k <= maxh /\
    match mode with
    | GFull => Forall (fun x => x = theight k) (leaf_depths 0 k)
    | GGrow => Forall (fun x => minh <= x) (leaf_depths 0 k)
    end.
Proof. exact generate_spec. Qed.
Print Assumptions C11_gen_wf_typed_height.

(* genFull / genGrow / genHalfAndHalf with type_ = None (pset.ret) or given *)
Theorem C11_gen_expr_spec : forall sub ps, pset_ok sub ps ->
  forall g ot ds out ds', 0 <= g_min g ->
  gen_expr ps g ot ds = Ok (out, ds') ->
  gen_expr_post sub g (match ot with Some x => x | None => p_ret ps end) out.
Proof. exact gen_expr_spec. Qed.
Print Assumptions C11_gen_expr_spec.

(* the generator loop always terminates within the recorded draws *)
Theorem C11_generate_terminates : forall ps mode minh maxh t ds, 0 <= minh ->
  generate ps mode minh maxh t ds <> Err EFuel.
Proof. exact generate_no_fuel_error. Qed.
Print Assumptions C11_generate_terminates.

(* ---- closure of the variation operators ---- *)
Theorem C11_cx_one_point_closed : forall sub, (forall a, sub a tobj = true) ->
  forall top1 top2 t1 t2 ds o1 o2 ds',
  typed sub top1 t1 -> typed sub top2 t2 ->
  (nret (root t1) = tobj -> untyped_nodes (flatten t1) /\ untyped_nodes (flatten t2)) ->
  cx_one_point (flatten t1) (flatten t2) ds = Ok ((o1, o2), ds') ->
  exists t1' t2', o1 = flatten t1' /\ o2 = flatten t2' /\ typed sub top1 t1' /\ typed sub top2 t2' /\
    (size t1' + size t2' = size t1 + size t2)%nat.                     (* cx_node_count *)
Proof. exact cx_one_point_closed. Qed.
Print Assumptions C11_cx_one_point_closed.

(* FULL STATEMENT (property text: "every pair of such trees"), including the pair made of ONE tree object passed
   twice:   forall t ds o1 o2 ds', typed sub top t -> cx_one_point_same (flatten t) ds = Ok ((o1, o2), ds') ->
            exists t', o1 = flatten t' /\ typed sub top t'.
   REFUTED for the same object (known finding C11.cx_same_object): the second slice assignment uses a slice computed
   before the first one changed the list.  add(add(x, y), neg(neg(x))) crossed with itself at points 2 and 1 gives
   the list [add; x; y; y; neg; neg; x] (orphan nodes).  C11_cx_one_point_closed above is the _partial: it holds
   whenever the two arguments are distinct objects (which is what the functional model `cx_one_point` describes). *)
Definition kf_add := mknode 30%N [0%N; 0%N] 0%N false 0.
Definition kf_neg := mknode 31%N [0%N] 0%N false 0.
Definition kf_x := mknode 32%N [] 0%N false 0.
Definition kf_y := mknode 33%N [] 0%N false 0.
Definition kf_tree := [kf_add; kf_add; kf_x; kf_y; kf_neg; kf_neg; kf_x].
Theorem C11_cx_one_point_same_object_refuted :
  complete kf_tree = true /\
  exists ds o1 o2, cx_one_point_same kf_tree ds = Ok ((o1, o2), []) /\ complete o1 = false.
Proof.
  split; [vm_compute; reflexivity|].
  exists [DChoice 1 0; DChoice 6 1; DChoice 6 0]. eexists. eexists. split; vm_compute; reflexivity.
Qed.
Print Assumptions C11_cx_one_point_same_object_refuted.

Theorem C11_cx_leaf_biased_same_object_refuted :
  exists ds o1 o2, cx_leaf_biased_same 0 1 kf_tree ds = Ok ((o1, o2), []) /\ complete o1 = false.
Proof.
  exists [DRandom 1 2; DRandom 1 2; DChoice 1 0; DChoice 3 2; DChoice 3 1]. eexists. eexists.
  split; vm_compute; reflexivity.
Qed.
Print Assumptions C11_cx_leaf_biased_same_object_refuted.

Theorem C11_cx_one_point_closed_partial : forall sub, (forall a, sub a tobj = true) ->
  forall top1 top2 t1 t2 ds o1 o2 ds',
  typed sub top1 t1 -> typed sub top2 t2 ->
  (nret (root t1) = tobj -> untyped_nodes (flatten t1) /\ untyped_nodes (flatten t2)) ->
  cx_one_point (flatten t1) (flatten t2) ds = Ok ((o1, o2), ds') ->
  exists t1' t2', o1 = flatten t1' /\ o2 = flatten t2' /\ typed sub top1 t1' /\ typed sub top2 t2' /\
    (size t1' + size t2' = size t1 + size t2)%nat.
Proof. exact cx_one_point_closed. Qed.
Print Assumptions C11_cx_one_point_closed_partial.

Theorem C11_cx_leaf_biased_closed : forall sub pn pd top1 top2 t1 t2 ds o1 o2 ds',
  typed sub top1 t1 -> typed sub top2 t2 ->
  cx_leaf_biased pn pd (flatten t1) (flatten t2) ds = Ok ((o1, o2), ds') ->
  exists t1' t2', o1 = flatten t1' /\ o2 = flatten t2' /\ typed sub top1 t1' /\ typed sub top2 t2' /\
    (size t1' + size t2' = size t1 + size t2)%nat.
Proof. exact cx_leaf_biased_closed. Qed.
Print Assumptions C11_cx_leaf_biased_closed.

Theorem C11_mut_uniform_closed : forall sub,
  (forall a b c, sub a b = true -> sub b c = true -> sub a c = true) ->
  forall ps, pset_ok sub ps ->
  forall top t g ds out ds', 0 <= g_min g -> typed sub top t ->
  mut_uniform ps g (flatten t) ds = Ok (out, ds') ->
  exists t', out = flatten t' /\ typed sub top t'.
Proof. exact mut_uniform_closed. Qed.
Print Assumptions C11_mut_uniform_closed.

Theorem C11_mut_node_replacement_closed : forall sub,
  (forall a b c, sub a b = true -> sub b c = true -> sub a c = true) ->
  forall ps, pset_ok sub ps ->
  forall top t ds out ds', typed sub top t ->
  mut_node_replacement ps (flatten t) ds = Ok (out, ds') ->
  exists t', out = flatten t' /\ typed sub top t' /\ size t' = size t.
Proof. exact mut_node_replacement_closed. Qed.
Print Assumptions C11_mut_node_replacement_closed.

Theorem C11_mut_ephemeral_closed : forall sub top t mode ds out ds', typed sub top t ->
  mut_ephemeral mode (flatten t) ds = Ok (out, ds') ->
  exists t', out = flatten t' /\ typed sub top t' /\ size t' = size t.
Proof. exact mut_ephemeral_closed. Qed.
Print Assumptions C11_mut_ephemeral_closed.

(* insert never shrinks *)
Theorem C11_mut_insert_closed : forall sub, (forall a, sub a a = true) ->
  (forall a b c, sub a b = true -> sub b c = true -> sub a c = true) ->
  forall ps, pset_ok sub ps ->
  forall top t ds out ds', typed sub top t ->
  mut_insert ps (flatten t) ds = Ok (out, ds') ->
  exists t', out = flatten t' /\ typed sub top t' /\ (size t <= size t')%nat.
Proof. exact mut_insert_closed. Qed.
Print Assumptions C11_mut_insert_closed.

(* shrink never grows *)
Theorem C11_mut_shrink_closed : forall sub,
  (forall a b c, sub a b = true -> sub b c = true -> sub a c = true) ->
  forall top t ds out ds', typed sub top t ->
  mut_shrink (flatten t) ds = Ok (out, ds') ->
  exists t', out = flatten t' /\ typed sub top t' /\ (size t' <= size t)%nat.
Proof. exact mut_shrink_closed. Qed.
Print Assumptions C11_mut_shrink_closed.

(* ---- staticLimit ---- *)
(* within k maxv l := exists m, measure k l = Ok m /\ m <= maxv   (key = height | len) *)
Theorem C11_static_limit_respected : forall k maxv op inputs ds res ds',
  Forall (within k maxv) inputs ->
  static_limit k maxv op inputs ds = Ok (res, ds') ->
  Forall (within k maxv) res.
Proof. exact static_limit_respected. Qed.
Print Assumptions C11_static_limit_respected.

(* a wrapped operator returns, position by position, the operator's own output or one of the inputs;
   hence any closure property of the operator carries over *)
Theorem C11_static_limit_closed : forall (P : list node -> Prop) k maxv op inputs ds res ds',
  Forall P inputs ->
  (forall outs ds1, op inputs ds = Ok (outs, ds1) -> Forall P outs) ->
  static_limit k maxv op inputs ds = Ok (res, ds') -> Forall P res.
Proof. exact static_limit_closed. Qed.
Print Assumptions C11_static_limit_closed.

(* ---- the guards never fire (total correctness modulo the pool hypothesis) ----
   benign e := e = EDraw (draw list rejected: not a possible run) \/ e = EEmpty (random.choice on an
   empty pool: the IndexError the real code raises when the set offers nothing at a requested type).
   So on well-typed trees searchSubtree never runs off the list, height never pops an empty stack and
   the IndexError / ValueError checks of PrimitiveTree.__setitem__ never trigger. *)
Theorem C11_generators_fail_only_on_empty_pool : forall ps g ot ds e, 0 <= g_min g <= g_max g ->
  gen_expr ps g ot ds = Err e -> benign e.
Proof. exact gen_expr_err. Qed.
Print Assumptions C11_generators_fail_only_on_empty_pool.

(* offers ps tys: tys is closed under the argument types of the primitives offered at its members, and the set
   has a primitive and a terminal at each of them.  Then generation cannot fail at all. *)
Theorem C11_generate_never_fails_when_offered : forall ps tys mode minh maxh t ds e,
  offers ps tys -> In t tys -> 0 <= minh <= maxh ->
  generate ps mode minh maxh t ds = Err e -> e = EDraw.
Proof. exact generate_never_fails_when_offered. Qed.
Print Assumptions C11_generate_never_fails_when_offered.

Theorem C11_cx_one_point_safe : forall sub top1 top2 t1 t2 ds e,
  typed sub top1 t1 -> typed sub top2 t2 ->
  cx_one_point (flatten t1) (flatten t2) ds = Err e -> benign e.
Proof. exact cx_one_point_safe. Qed.
Print Assumptions C11_cx_one_point_safe.

Theorem C11_cx_leaf_biased_safe : forall sub pn pd top1 top2 t1 t2 ds e,
  typed sub top1 t1 -> typed sub top2 t2 ->
  cx_leaf_biased pn pd (flatten t1) (flatten t2) ds = Err e -> benign e.
Proof. exact cx_leaf_biased_safe. Qed.
Print Assumptions C11_cx_leaf_biased_safe.

Theorem C11_mut_uniform_safe : forall sub ps, pset_ok sub ps -> forall top t g ds e,
  0 <= g_min g <= g_max g -> typed sub top t ->
  mut_uniform ps g (flatten t) ds = Err e -> benign e.
Proof. exact mut_uniform_safe. Qed.
Print Assumptions C11_mut_uniform_safe.

Theorem C11_mut_node_replacement_safe : forall sub ps, pset_ok sub ps -> forall top t ds e,
  typed sub top t -> mut_node_replacement ps (flatten t) ds = Err e -> benign e.
Proof. exact mut_node_replacement_safe. Qed.
Print Assumptions C11_mut_node_replacement_safe.

Theorem C11_mut_ephemeral_safe : forall mode l ds e,
  mode <> EOther -> mut_ephemeral mode l ds = Err e -> benign e.
Proof. exact mut_ephemeral_safe. Qed.
Print Assumptions C11_mut_ephemeral_safe.

Theorem C11_mut_insert_safe : forall sub, (forall a, sub a a = true) ->
  (forall a b c, sub a b = true -> sub b c = true -> sub a c = true) ->
  forall ps, pset_ok sub ps -> forall top t ds e,
  typed sub top t -> mut_insert ps (flatten t) ds = Err e -> benign e.
Proof. exact mut_insert_safe. Qed.
Print Assumptions C11_mut_insert_safe.

Theorem C11_mut_shrink_safe : forall sub top t ds e,
  typed sub top t -> mut_shrink (flatten t) ds = Err e -> benign e.
Proof. exact mut_shrink_safe. Qed.
Print Assumptions C11_mut_shrink_safe.

Theorem C11_static_limit_safe : forall k maxv op inputs ds e,
  (forall e', op inputs ds = Err e' -> benign e') ->
  (forall outs ds1, op inputs ds = Ok (outs, ds1) -> Forall (fun o => exists m, measure k o = Ok m) outs) ->
  static_limit k maxv op inputs ds = Err e -> benign e.
Proof. exact static_limit_safe. Qed.
Print Assumptions C11_static_limit_safe.

(* ---- the model's slice forms are Python's slice semantics (Base/PyList.v: slice.indices clamping) ---- *)
Theorem C11_set_slice_is_python : forall (l val : list node) (b e : nat), (b < length l)%nat ->
  firstn b l ++ val ++ skipn (Nat.max b e) l =
  PyList.py_slice_assign l (Some (Z.of_nat b)) (Some (Z.of_nat e)) val.
Proof. exact set_slice_is_python. Qed.
Print Assumptions C11_set_slice_is_python.

Theorem C11_get_slice_is_python : forall (l : list node) (b e : nat), (b <= e <= length l)%nat ->
  get_slice l b e = PyList.py_sub l (Z.of_nat b) (Z.of_nat e).
Proof. exact get_slice_is_python. Qed.
Print Assumptions C11_get_slice_is_python.

(* ---- the primitive-set tables: pset_ok is what `_add` establishes ---- *)
(* ops = the sequence of _add calls (is-Primitive flag, node); primitives have arity >= 1, terminals 0 *)
Theorem C11_add_establishes_pset_ok : forall sub,
  (forall a b c, sub a b = true -> sub b c = true -> sub a c = true) ->
  forall ops r rn rd, Forall op_ok ops ->
  let s := build sub ops in pset_ok sub (mkpset (s_prims s) (s_terms s) r rn rd).
Proof. exact build_pset_ok. Qed.
Print Assumptions C11_add_establishes_pset_ok.

(* the same with defaultdict reads interleaved (a read of a missing key creates an empty pool) *)
Theorem C11_tables_sound_with_reads : forall sub,
  (forall a b c, sub a b = true -> sub b c = true -> sub a c = true) ->
  forall ops r rn rd, Forall pop_ok ops ->
  let s := run_pops sub ops in pset_ok sub (mkpset (s_prims s) (s_terms s) r rn rd).
Proof. exact run_pops_pset_ok. Qed.
Print Assumptions C11_tables_sound_with_reads.

(* and the pools are complete: every node added so far that returns a subtype of a registered type
   is listed there (so a node is always a candidate for replacing itself) *)
Theorem C11_add_tables_complete : forall sub, (forall a, sub a a = true) ->
  forall ops, let s := build sub ops in
  (forall t p, In (true, p) ops -> has_key (s_prims s) t = true -> sub (nret p) t = true ->
               In p (lookup (s_prims s) t)) /\
  (forall t p, In (false, p) ops -> has_key (s_terms s) t = true -> sub (nret p) t = true ->
               In p (lookup (s_terms s) t)).
Proof. exact build_complete. Qed.
Print Assumptions C11_add_tables_complete.

(* ---- non-vacuity: a typed set with a subclass, a generated tree, an operator run ---- *)
Definition ex_sub (a b : ty) : bool := (N.eqb a b || N.eqb b 0 || (N.eqb a 2 && N.eqb b 1))%N.   (* 2 <: 1 <: object *)
Definition ex_f := mknode 10%N [1%N; 2%N] 1%N false 0.     (* f : (T1, T2) -> T1 *)
Definition ex_g := mknode 11%N [1%N] 2%N false 0.          (* g : T1 -> T2 *)
Definition ex_a := mknode 12%N [] 1%N false 0.             (* a : T1 *)
Definition ex_b := mknode 13%N [] 2%N false 0.             (* b : T2 *)
Definition ex_e := mknode 14%N [] 2%N true 0.              (* ephemeral : T2 *)
Definition ex_ps := mkpset [(1%N, [ex_f; ex_g]); (2%N, [ex_g])] [(1%N, [ex_a; ex_b; ex_e]); (2%N, [ex_b; ex_e])] 1%N 1 2.
Definition ex_tree := T ex_f [T ex_a []; T ex_g [T ex_b []]].

(* why C11_cx_one_point_closed needs its hypothesis on `object`-rooted trees (DESIGN Appendix B 7): in a strongly
   typed set whose root type is `object` the "Not STGP" shortcut of cxOnePoint ignores types.
   h : (T1, T2) -> object;  h(a, b) x h(a, b) with points 2 and 1 gives h(a, a), and a : T1 is not a T2. *)
Definition ex_h := mknode 20%N [1%N; 2%N] 0%N false 0.
Example C11_cx_object_root_is_excluded_for_a_reason :
  let t := T ex_h [T ex_a []; T ex_b []] in
  typed ex_sub 0%N t /\
  exists o1 o2, cx_one_point (flatten t) (flatten t) [DChoice 1 0; DChoice 2 1; DChoice 2 0] = Ok ((o1, o2), []) /\
                wt_list ex_sub 0%N o1 = false.
Proof. split; [cbn; repeat split|]. eexists. eexists. split; [vm_compute; reflexivity|vm_compute; reflexivity]. Qed.

Example C11_nonvacuous :
  pset_ok ex_sub ex_ps /\
  typed ex_sub 1%N ex_tree /\
  generate ex_ps GFull 1 2 1%N [DRandint 1 2 1; DChoice 2 0; DChoice 3 1; DChoice 2 1; DEph 14%N 5] =
    Ok ([ex_f; ex_b; set_val ex_e 5], []) /\
  mut_shrink (flatten (T ex_f [T ex_f [T ex_a []; T ex_b []]; T ex_g [T ex_b []]])) [DChoice 1 0; DChoice 1 0] =
    Ok (flatten ex_tree, []) /\
  search_subtree (flatten ex_tree) 2 = Ok (2%nat, 4%nat) /\
  height (flatten ex_tree) = Ok 2.
Proof.
  split; [|split; [|repeat split; vm_compute; reflexivity]].
  - split; intros t p H; unfold prims, terms, ex_ps, p_prims, p_terms in H; cbn [lookup] in H;
      (destruct (N.eqb 1 t) eqn:E1;
       [apply N.eqb_eq in E1; subst t
       |destruct (N.eqb 2 t) eqn:E2; [apply N.eqb_eq in E2; subst t|contradiction]]);
      cbn [In] in H; repeat (destruct H as [<-|H]; [split; [reflexivity|cbn; congruence]|]); contradiction.
  - cbn. repeat split.
Qed.
