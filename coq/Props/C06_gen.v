(* Property C06 -- tie (T): the definitions regenerated on this run from the source text of
   deap/tools/selection.py and selTournamentDCD of deap/tools/emo.py (coq/Gen/C06_gen.v, written by
   harness/c06_py2coq.py) are the hand model of Model/C06_Select.v, and the C06 theorems hold of them.
   A function the translator refused is represented in Gen/C06_gen.v by the hand model itself (the
   harness reports which ones: `tie: correspondence-only (translator refused ...)`); for those the
   statements below say nothing new. *)
From Coq Require Import List Bool Arith ZArith QArith Qround Permutation Sorted.
From DV Require Import Base.PyList Base.C06_Py Model.C06_Select Model.C06_GenRt.
From DV Require Import Proofs.C06_Sort Proofs.C06_Basic Proofs.C06_Roulette Proofs.C06_SUS Proofs.C06_Lexicase
  Proofs.C06_DCD Proofs.C06_Safety.
From DV Require Import Gen.C06_gen Proofs.C06_gen_equiv.
Import ListNotations.
Local Open Scope nat_scope.

Theorem C06_gen_source_is_model :
  (forall inds k ds, gen_selRandom inds k ds = selRandom inds k ds) /\
  (forall inds k ds, gen_selBest inds k ds = Ok (selBest inds k) ds) /\
  (forall inds k ds, gen_selWorst inds k ds = Ok (selWorst inds k) ds) /\
  (forall inds k ts ds, gen_selTournament inds k ts ds = selTournament inds k ts ds) /\
  (forall w inds k ds, gen_selRoulette w inds k ds = selRoulette w inds k ds) /\
  (forall w inds k ds, gen_selStochasticUniversalSampling w inds k ds = selSUS w inds k ds) /\
  (forall inds k fs ps ff ds, gen_selDoubleTournament inds k fs ps ff ds = selDoubleTournament inds k fs ps ff ds) /\
  (forall w inds k ds, uniform w inds -> gen_selLexicase w inds k ds = selLexicase w inds k ds) /\
  (forall w inds k eps ds, uniform w inds ->
     gen_selEpsilonLexicase w inds k eps ds = selEpsilonLexicase w inds k eps ds) /\
  (forall w inds k ds, uniform w inds ->
     gen_selAutomaticEpsilonLexicase w inds k ds = selAutomaticEpsilonLexicase w inds k ds) /\
  (forall inds k ds, gen_selTournamentDCD inds k ds = selTournamentDCD inds k ds).
Proof. exact source_is_model. Qed.
Print Assumptions C06_gen_source_is_model.

Theorem C06_gen_selRandom_spec : forall inds k ds out rest,
  gen_selRandom inds k ds = Ok out rest -> length out = k /\ Forall (fun x => In x inds) out.
Proof. exact gen_selRandom_spec. Qed.
Print Assumptions C06_gen_selRandom_spec.

Theorem C06_gen_selBest_spec : forall inds k ds out rest,
  gen_selBest inds k ds = Ok out rest ->
  rest = ds /\ length out = Nat.min k (length inds) /\
  StronglySorted (fun a b => f_le b a = true) out /\
  exists others, Permutation inds (out ++ others) /\ forall x y, In x others -> In y out -> f_le x y = true.
Proof. exact gen_selBest_spec. Qed.
Print Assumptions C06_gen_selBest_spec.

Theorem C06_gen_selWorst_spec : forall inds k ds out rest,
  gen_selWorst inds k ds = Ok out rest ->
  rest = ds /\ length out = Nat.min k (length inds) /\
  StronglySorted (fun a b => f_le a b = true) out /\
  exists others, Permutation inds (out ++ others) /\ forall x y, In x others -> In y out -> f_le y x = true.
Proof. exact gen_selWorst_spec. Qed.
Print Assumptions C06_gen_selWorst_spec.

Theorem C06_gen_selTournament_spec : forall inds k tournsize ds out rest,
  gen_selTournament inds k tournsize ds = Ok out rest ->
  length out = k /\
  Forall (fun w => In w inds /\
     exists aspirants d d',
       gen_selRandom inds tournsize d = Ok aspirants d' /\
       length aspirants = tournsize /\ Forall (fun a => In a inds) aspirants /\
       In w aspirants /\ forall a, In a aspirants -> f_le a w = true) out.
Proof. exact gen_selTournament_spec. Qed.
Print Assumptions C06_gen_selTournament_spec.

Theorem C06_gen_selDoubleTournament_spec : forall inds k fitness_size parsimony_size fitness_first ds out rest,
  gen_selDoubleTournament inds k fitness_size parsimony_size fitness_first ds = Ok out rest ->
  (1 <= parsimony_size)%Q /\ (parsimony_size <= 2)%Q /\ length out = k /\
  (fitness_first = true ->
     Forall (size_winner parsimony_size (fit_winner fitness_size (fun x => In x inds))) out) /\
  (fitness_first = false ->
     Forall (fit_winner fitness_size (size_winner parsimony_size (fun x => In x inds))) out).
Proof. exact gen_selDoubleTournament_spec. Qed.
Print Assumptions C06_gen_selDoubleTournament_spec.

Theorem C06_gen_selRoulette_spec : forall w inds k ds out rest,
  Forall (fun x => 0 < val0 w x)%Q inds -> inds <> [] ->
  gen_selRoulette w inds k ds = Ok out rest ->
  let s := py_sorted_rev f_lt inds in
  let S := sum_fits w inds in
  (0 < S /\ S == tot w s)%Q /\ length out = k /\ Forall (fun x => In x inds) out /\
  exists us, ds = map DRandom us ++ rest /\
    Forall2 (fun u x => (0 <= u /\ u < 1)%Q /\
               exists j, nth_error s j = Some x /\
                         (cum w s j <= u * S /\ u * S < cum w s (Datatypes.S j))%Q) us out.
Proof. exact gen_selRoulette_spec. Qed.
Print Assumptions C06_gen_selRoulette_spec.

Theorem C06_gen_selSUS_k0 : forall w inds ds,
  forallb (has_val0 w) inds = true -> gen_selStochasticUniversalSampling w inds 0 ds = Ok [] ds.
Proof. exact gen_selSUS_k0. Qed.
Print Assumptions C06_gen_selSUS_k0.

Theorem C06_gen_selSUS_spec : forall w inds k u ds out rest,
  Forall (fun x => 0 < val0 w x)%Q inds -> inds <> [] -> NoDup (map uid inds) -> (0 < k)%nat ->
  gen_selStochasticUniversalSampling w inds k (DRandom u :: ds) = Ok out rest -> (0 < u)%Q ->
  let S := sum_fits w inds in
  rest = ds /\ (u < 1)%Q /\ (0 < S)%Q /\ length out = k /\ Forall (fun x => In x inds) out /\
  forall x, In x inds ->
    let share := (inject_Z (Z.of_nat k) * val0 w x / S)%Q in
    (Qfloor share <= Z.of_nat (count_uid (uid x) out))%Z /\
    (Z.of_nat (count_uid (uid x) out) <= Qceiling share)%Z.
Proof. exact gen_selSUS_spec. Qed.
Print Assumptions C06_gen_selSUS_spec.

Theorem C06_gen_selLexicase_undominated : forall w inds k ds out rest,
  uniform w inds -> gen_selLexicase w inds k ds = Ok out rest ->
  length out = k /\
  Forall (fun win => In win inds /\ forall y, In y inds -> ~ case_dominates w (length w) y win) out.
Proof. exact gen_selLexicase_undominated. Qed.
Print Assumptions C06_gen_selLexicase_undominated.

Theorem C06_gen_selEpsilonLexicase_partial : forall w inds k eps ds out rest,
  uniform w inds -> (0 <= eps)%Q -> gen_selEpsilonLexicase w inds k eps ds = Ok out rest ->
  length out = k /\
  Forall (fun win => In win inds /\
            forall y, In y inds -> ~ case_dominates_beyond w (length w) eps y win) out.
Proof. exact gen_selEpsilonLexicase_partial. Qed.
Print Assumptions C06_gen_selEpsilonLexicase_partial.

Theorem C06_gen_eps_survivor : forall w inds k eps ds out rest,
  uniform w inds -> gen_selEpsilonLexicase w inds k eps ds = Ok out rest ->
  length out = k /\ Forall (survivor_round w (step_eps eps w) (fun _ _ => eps) inds) out.
Proof. exact gen_eps_survivor. Qed.
Print Assumptions C06_gen_eps_survivor.

Theorem C06_gen_auto_eps_survivor : forall w inds k ds out rest,
  uniform w inds -> gen_selAutomaticEpsilonLexicase w inds k ds = Ok out rest ->
  length out = k /\ Forall (survivor_round w (step_auto w) (mad_of w) inds) out.
Proof. exact gen_auto_eps_survivor. Qed.
Print Assumptions C06_gen_auto_eps_survivor.

Theorem C06_gen_selTournamentDCD_spec : forall inds k ds out rest,
  NoDup (map uid inds) -> (k mod 4 = 0)%nat ->
  gen_selTournamentDCD inds k ds = Ok out rest ->
  (k <= length inds)%nat /\ length out = k /\ Forall (fun x => In x inds) out /\
  forall u, (count_uid u out <= 2)%nat.
Proof. exact gen_selTournamentDCD_spec. Qed.
Print Assumptions C06_gen_selTournamentDCD_spec.

Theorem C06_gen_no_raise :
  (forall inds k ds e, inds <> [] -> gen_selRandom inds k ds <> Raise e) /\
  (forall inds k ts ds e, inds <> [] -> (1 <= ts)%nat -> gen_selTournament inds k ts ds <> Raise e) /\
  (forall inds k fs ps ff ds e, inds <> [] -> (1 <= fs)%nat -> (1 <= ps)%Q -> (ps <= 2)%Q ->
     gen_selDoubleTournament inds k fs ps ff ds <> Raise e) /\
  (forall w inds k ds e, Forall (fun x => 0 < val0 w x)%Q inds -> gen_selRoulette w inds k ds <> Raise e) /\
  (forall w inds k ds e, Forall (fun x => 0 < val0 w x)%Q inds -> inds <> [] ->
     gen_selStochasticUniversalSampling w inds k ds <> Raise e) /\
  (forall inds k ds e, (k <= length inds)%nat -> (k mod 4 = 0)%nat -> gen_selTournamentDCD inds k ds <> Raise e).
Proof. exact gen_no_raise. Qed.
Print Assumptions C06_gen_no_raise.

