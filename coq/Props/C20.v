(* Property C20 -- theorems only (placeholder, extended below). *)
From Coq Require Import Reals ZArith List Bool.
From DV Require Import Base.PyList Base.C20_Num Model.C20_BenchSpec Proofs.C20_GenEq Gen.C20_bench_gen.
Import ListNotations.

Theorem C20_sphere_eq_spec : forall x : list R, bm_sphere x = spec_bm_sphere x.
Proof. exact ge_sphere. Qed.
Print Assumptions C20_sphere_eq_spec.
