(* Property C20 -- theorems only.  They are stated about the definitions REGENERATED from the working tree
   (coq/Gen/C20_bench_gen.v: bm_* = deap/benchmarks/__init__.py, bin_* = binary.py, gp_* = gp.py,
   mp_* = movingpeaks.py, tl_* = tools.py) and proved from Proofs/C20_GenEq.v (generated = published
   formula, for every input) and Proofs/C20_Spec.v (facts about the published formulas).
   Over the reals: floating-point rounding is outside these theorems (see design_notes/C20.md). *)
From Coq Require Import Reals ZArith List Bool Lia Lra.
From DV Require Import Base.PyList Base.C20_Num Model.C20_BenchSpec Proofs.C20_Reals Proofs.C20_Spec Proofs.C20_GenEq
  Gen.C20_bench_gen.
Import ListNotations.
Local Open Scope R_scope.

(* ================================================================================================ *)
(* 1. every benchmark returns the value of its published defining formula (spec_* of               *)
(*    Model/C20_BenchSpec.v), for every input of the stated shape                                   *)
(* ================================================================================================ *)

(* continuous single-objective functions (deap/benchmarks/__init__.py) *)
Theorem C20_continuous_are_published :
  (forall x : list R, bm_plane x = spec_bm_plane x) /\
  (forall x : list R, bm_sphere x = spec_bm_sphere x) /\
  (forall x : list R, bm_cigar x = spec_bm_cigar x) /\
  (forall x : list R, bm_rosenbrock x = spec_bm_rosenbrock x) /\
  (forall x : list R, bm_h1 x = spec_bm_h1 x) /\
  (forall x : list R, bm_ackley x = spec_bm_ackley x) /\
  (forall x : list R, bm_bohachevsky x = spec_bm_bohachevsky x) /\
  (forall x : list R, bm_griewank x = spec_bm_griewank x) /\
  (forall x : list R, bm_rastrigin x = spec_bm_rastrigin x) /\
  (forall x : list R, bm_rastrigin_scaled x = spec_bm_rastrigin_scaled x) /\
  (forall x : list R, bm_rastrigin_skew x = spec_bm_rastrigin_skew x) /\
  (forall x : list R, bm_schaffer x = spec_bm_schaffer x) /\
  (forall x : list R, bm_schwefel x = spec_bm_schwefel x) /\
  (forall x : list R, bm_himmelblau x = spec_bm_himmelblau x) /\
  (forall (x : list R) a c, bm_shekel x a c = spec_bm_shekel x a c).
Proof.
  repeat apply conj.
  - exact ge_plane.
  - exact ge_sphere.
  - exact ge_cigar.
  - exact ge_rosenbrock.
  - exact ge_h1.
  - exact ge_ackley.
  - exact ge_bohachevsky.
  - exact ge_griewank.
  - exact ge_rastrigin.
  - exact ge_rastrigin_scaled.
  - exact ge_rastrigin_skew.
  - exact ge_schaffer.
  - exact ge_schwefel.
  - exact ge_himmelblau.
  - exact ge_shekel.
Qed.

(* multi-objective functions *)
Theorem C20_multiobjective_are_published :
  (forall x : list R, bm_kursawe x = spec_bm_kursawe x) /\
  (forall x : list R, bm_schaffer_mo x = spec_bm_schaffer_mo x) /\
  (forall x : list R, bm_zdt1 x = spec_bm_zdt1 x) /\
  (forall x : list R, bm_zdt2 x = spec_bm_zdt2 x) /\
  (forall x : list R, bm_zdt3 x = spec_bm_zdt3 x) /\
  (forall x : list R, bm_zdt4 x = spec_bm_zdt4 x) /\
  (forall x : list R, bm_zdt6 x = spec_bm_zdt6 x) /\
  (forall x : list R, bm_fonseca x = spec_bm_fonseca x) /\
  (forall x : list R, bm_poloni x = spec_bm_poloni x) /\
  (forall (x : list R) lambda, bm_dent x lambda = spec_bm_dent x lambda) /\
  (forall (x : list R) M, (1 <= M)%Z -> (M - 1 <= zlen x)%Z -> bm_dtlz1 x M = spec_bm_dtlz1 x M) /\
  (forall (x : list R) M, (1 <= M)%Z -> (M - 1 <= zlen x)%Z -> bm_dtlz2 x M = spec_bm_dtlz2 x M) /\
  (forall (x : list R) M, (1 <= M)%Z -> (M - 1 <= zlen x)%Z -> bm_dtlz3 x M = spec_bm_dtlz3 x M) /\
  (forall (x : list R) M alpha, (1 <= M)%Z -> (M - 1 <= zlen x)%Z -> bm_dtlz4 x M alpha = spec_bm_dtlz4 x M alpha) /\
  (forall (x : list R) M, (2 <= M)%Z -> (M - 1 <= zlen x)%Z -> bm_dtlz5 x M = spec_bm_dtlz5 x M) /\
  (forall (x : list R) M, (2 <= M)%Z -> (M - 1 <= zlen x)%Z -> bm_dtlz6 x M = spec_bm_dtlz6 x M) /\
  (forall (x : list R) M, (1 <= M)%Z -> bm_dtlz7 x M = spec_bm_dtlz7 x M).
Proof.
  repeat apply conj.
  - exact ge_kursawe.
  - exact ge_schaffer_mo.
  - exact ge_zdt1.
  - exact ge_zdt2.
  - exact ge_zdt3.
  - exact ge_zdt4.
  - exact ge_zdt6.
  - exact ge_fonseca.
  - exact ge_poloni.
  - exact ge_dent.
  - exact ge_dtlz1.
  - exact ge_dtlz2.
  - exact ge_dtlz3.
  - exact ge_dtlz4.
  - exact ge_dtlz5.
  - exact ge_dtlz6.
  - exact ge_dtlz7.
Qed.

(* symbolic-regression targets (deap/benchmarks/gp.py) *)
Theorem C20_gp_are_published :
  (forall d : list R, gp_kotanchek d = spec_gp_kotanchek d) /\
  (forall d : list R, gp_salustowicz_1d d = spec_gp_salustowicz_1d d) /\
  (forall d : list R, gp_salustowicz_2d d = spec_gp_salustowicz_2d d) /\
  (forall d : list R, gp_unwrapped_ball d = spec_gp_unwrapped_ball d) /\
  (forall d : list R, gp_rational_polynomial d = spec_gp_rational_polynomial d) /\
  (forall d : list R, gp_sin_cos d = spec_gp_sin_cos d) /\
  (forall d : list R, gp_ripple d = spec_gp_ripple d) /\
  (forall d : list R, gp_rational_polynomial2 d = spec_gp_rational_polynomial2 d).
Proof.
  repeat apply conj.
  - exact ge_kotanchek.
  - exact ge_salustowicz_1d.
  - exact ge_salustowicz_2d.
  - exact ge_unwrapped_ball.
  - exact ge_rational_polynomial.
  - exact ge_sin_cos.
  - exact ge_ripple.
  - exact ge_rational_polynomial2.
Qed.

(* binary functions, over Z (deap/benchmarks/binary.py) *)
Theorem C20_binary_are_published :
  (forall b, bin_trap b = spec_bin_trap b) /\
  (forall b, bin_inv_trap b = spec_bin_inv_trap b) /\
  (forall b, (1 <= length b)%nat -> bin_chuang_f1 b = spec_bin_chuang_f1 b) /\
  (forall b, (2 <= length b)%nat -> is_bit (last2_bit b) -> is_bit (last_bit b) -> bin_chuang_f2 b = spec_bin_chuang_f2 b) /\
  (forall b, (3 <= length b)%nat -> bin_chuang_f3 b = spec_bin_chuang_f3 b) /\
  (forall b order, (1 <= order)%Z -> Forall is_bit b -> bin_royal_road1 b order = spec_bin_royal_road1 b order) /\
  (forall b order, (1 <= order)%Z -> Forall is_bit b -> bin_royal_road2 b order = spec_bin_royal_road2 b order).
Proof.
  repeat apply conj.
  - exact ge_trap.
  - exact ge_inv_trap.
  - exact ge_chuang_f1.
  - exact ge_chuang_f2.
  - exact ge_chuang_f3.
  - exact ge_royal_road1.
  - exact ge_royal_road2.
Qed.

(* the three peak functions of deap/benchmarks/movingpeaks.py *)
Theorem C20_peaks_are_published :
  (forall (x p : list R) h w, mp_cone x p h w = spec_mp_cone x p h w) /\
  (forall (x p : list R) h w, mp_sphere x p h w = spec_mp_sphere x p h w) /\
  (forall (x p : list R) h w, mp_function1 x p h w = spec_mp_function1 x p h w).
Proof.
  repeat apply conj.
  - exact ge_mp_cone.
  - exact ge_mp_sphere.
  - exact ge_mp_function1.
Qed.

(* one entry per objective: the single-objective functions return 1 value, the two-objective ones 2, for every input *)
Theorem C20_one_entry_per_objective : forall (x : list R) a c lambda,
  length (bm_plane x) = 1%nat /\
  length (bm_sphere x) = 1%nat /\
  length (bm_cigar x) = 1%nat /\
  length (bm_rosenbrock x) = 1%nat /\
  length (bm_h1 x) = 1%nat /\
  length (bm_ackley x) = 1%nat /\
  length (bm_bohachevsky x) = 1%nat /\
  length (bm_griewank x) = 1%nat /\
  length (bm_rastrigin x) = 1%nat /\
  length (bm_rastrigin_scaled x) = 1%nat /\
  length (bm_rastrigin_skew x) = 1%nat /\
  length (bm_schaffer x) = 1%nat /\
  length (bm_schwefel x) = 1%nat /\
  length (bm_himmelblau x) = 1%nat /\
  length (bm_shekel x a c) = 1%nat /\
  length (bm_kursawe x) = 2%nat /\
  length (bm_schaffer_mo x) = 2%nat /\
  length (bm_zdt1 x) = 2%nat /\
  length (bm_zdt2 x) = 2%nat /\
  length (bm_zdt3 x) = 2%nat /\
  length (bm_zdt4 x) = 2%nat /\
  length (bm_zdt6 x) = 2%nat /\
  length (bm_fonseca x) = 2%nat /\
  length (bm_poloni x) = 2%nat /\
  length (bm_dent x lambda) = 2%nat.
Proof.
  intros x a c lambda. rewrite ge_plane, ge_sphere, ge_cigar, ge_rosenbrock, ge_h1, ge_ackley, ge_bohachevsky, ge_griewank, ge_rastrigin, ge_rastrigin_scaled, ge_rastrigin_skew, ge_schaffer, ge_schwefel, ge_himmelblau, ge_shekel, ge_kursawe, ge_schaffer_mo, ge_zdt1, ge_zdt2, ge_zdt3, ge_zdt4, ge_zdt6, ge_fonseca, ge_poloni, ge_dent.
  repeat apply conj; reflexivity.
Qed.

(* one entry per objective for the scalable family *)
Theorem C20_dtlz_one_entry_per_objective : forall (x : list R) M alpha, (2 <= M)%Z -> (M - 1 <= zlen x)%Z ->
  length (bm_dtlz1 x M) = Z.to_nat M /\ length (bm_dtlz2 x M) = Z.to_nat M /\
  length (bm_dtlz3 x M) = Z.to_nat M /\ length (bm_dtlz4 x M alpha) = Z.to_nat M /\
  length (bm_dtlz5 x M) = Z.to_nat M /\ length (bm_dtlz6 x M) = Z.to_nat M /\
  length (bm_dtlz7 x M) = Z.to_nat M.
Proof.
  intros x M alpha H1 H2.
  rewrite ge_dtlz1, ge_dtlz2, ge_dtlz3, ge_dtlz4, ge_dtlz5, ge_dtlz6, ge_dtlz7 by (try assumption; lia).
  apply dtlz_lengths; assumption.
Qed.


(* section 1 -- conjunction of the theorems above; carries the Print Assumptions of this group
   (one call per group: each call costs about 1.7 s) *)
Theorem C20_sec1_published : ltac:(let t := type of (conj C20_continuous_are_published (conj C20_multiobjective_are_published (conj C20_gp_are_published (conj C20_binary_are_published (conj C20_peaks_are_published (conj C20_one_entry_per_objective C20_dtlz_one_entry_per_objective)))))) in exact t).
Proof. exact (conj C20_continuous_are_published (conj C20_multiobjective_are_published (conj C20_gp_are_published (conj C20_binary_are_published (conj C20_peaks_are_published (conj C20_one_entry_per_objective C20_dtlz_one_entry_per_objective)))))). Qed.
Print Assumptions C20_sec1_published.

(* ================================================================================================ *)
(* 2. tabulated optima of the continuous single-objective functions                                 *)
(* ================================================================================================ *)
Theorem C20_optima_exact : forall n,
  bm_plane (zeros n) = [0] /\ bm_sphere (zeros n) = [0] /\ bm_cigar (zeros n) = [0] /\
  bm_rosenbrock (ones_R n) = [0] /\ ((1 <= n)%nat -> bm_ackley (zeros n) = [0]) /\
  bm_bohachevsky (zeros n) = [0] /\ bm_griewank (zeros n) = [0] /\ bm_rastrigin (zeros n) = [0] /\
  bm_rastrigin_scaled (zeros n) = [0] /\ bm_rastrigin_skew (zeros n) = [0] /\ bm_schaffer (zeros n) = [0] /\
  bm_himmelblau [3; 2] = [0].
Proof.
  intro n.
  rewrite ge_plane, ge_sphere, ge_cigar, ge_rosenbrock, ge_ackley, ge_bohachevsky, ge_griewank, ge_rastrigin,
    ge_rastrigin_scaled, ge_rastrigin_skew, ge_schaffer, ge_himmelblau.
  repeat split.
  - apply opt_plane. - apply opt_sphere. - apply opt_cigar. - apply opt_rosenbrock. - apply opt_ackley.
  - apply opt_bohachevsky. - apply opt_griewank. - apply opt_rastrigin. - apply opt_rastrigin_scaled.
  - apply opt_rastrigin_skew. - apply opt_schaffer. - apply opt_himmelblau_1.
Qed.

(* the three other minima of Himmelblau are tabulated as 6-digit decimals: the value there is within 1e-9 of 0 *)
Theorem C20_himmelblau_decimal_minima :
  (exists v, bm_himmelblau [-2805118 / 1000000; 3131312 / 1000000] = [v] /\ 0 <= v <= 1 / 1000000000) /\
  (exists v, bm_himmelblau [-3779310 / 1000000; -3283186 / 1000000] = [v] /\ 0 <= v <= 1 / 1000000000) /\
  (exists v, bm_himmelblau [3584428 / 1000000; -1848126 / 1000000] = [v] /\ 0 <= v <= 1 / 1000000000).
Proof.
  destruct opt_himmelblau_234 as (A & B & C).
  repeat split; eexists; (split; [rewrite ge_himmelblau; apply himmelblau_spec|]); assumption.
Qed.


(* the tabulated values are GLOBAL optima: no input does better (minimisation; h1 is maximised, tabulated value 2).
   plane is linear and unbounded: its tabulated point is not a minimum and no such bound exists. *)
Theorem C20_tabulated_values_are_global_bounds : forall x : list R,
  lower_bounded (bm_sphere x) 0 /\ lower_bounded (bm_cigar x) 0 /\ lower_bounded (bm_rosenbrock x) 0 /\
  lower_bounded (bm_himmelblau x) 0 /\ lower_bounded (bm_rastrigin x) 0 /\ lower_bounded (bm_rastrigin_skew x) 0 /\
  lower_bounded (bm_rastrigin_scaled x) 0 /\ lower_bounded (bm_bohachevsky x) 0 /\ lower_bounded (bm_schaffer x) 0 /\
  lower_bounded (bm_griewank x) 0 /\ ((1 <= length x)%nat -> lower_bounded (bm_ackley x) 0) /\
  (exists y, bm_h1 x = [y] /\ y <= 2).
Proof.
  intro x.
  rewrite ge_sphere, ge_cigar, ge_rosenbrock, ge_himmelblau, ge_rastrigin, ge_rastrigin_skew, ge_rastrigin_scaled,
    ge_bohachevsky, ge_schaffer, ge_griewank, ge_ackley, ge_h1.
  repeat apply conj.
  - apply min_sphere. - apply min_cigar. - apply min_rosenbrock. - apply min_himmelblau. - apply min_rastrigin.
  - apply min_rastrigin_skew. - apply min_rastrigin_scaled. - apply min_bohachevsky. - apply min_schaffer.
  - apply min_griewank. - apply min_ackley. - apply max_h1.
Qed.


(* section 2, exact part -- conjunction of the theorems above; carries the Print Assumptions of this group
   (one call per group: each call costs about 1.7 s) *)
Theorem C20_sec2_optima_exact : ltac:(let t := type of (conj C20_optima_exact (conj C20_himmelblau_decimal_minima C20_tabulated_values_are_global_bounds)) in exact t).
Proof. exact (conj C20_optima_exact (conj C20_himmelblau_decimal_minima C20_tabulated_values_are_global_bounds)). Qed.
Print Assumptions C20_sec2_optima_exact.

(* Schwefel at x_i = 420.96874636: |f| <= 1e-4 N;  h1 at (8.6998, 6.7665): |f - 2| <= 1e-3  (interval arithmetic) *)
Theorem C20_schwefel_optimum : forall n,
  exists v, bm_schwefel (repeat (42096874636 / 100000000) n) = [v] /\ Rabs v <= INR n * (1 / 10000).
Proof. intro n. rewrite ge_schwefel. apply opt_schwefel. Qed.

Theorem C20_h1_optimum : exists v, bm_h1 [86998 / 10000; 67665 / 10000] = [v] /\ Rabs (v - 2) <= 1 / 1000.
Proof. rewrite ge_h1. exact opt_h1. Qed.


(* section 2, interval-arithmetic part -- conjunction of the theorems above; carries the Print Assumptions of this group
   (one call per group: each call costs about 1.7 s) *)
Theorem C20_sec2_optima_interval : ltac:(let t := type of (conj C20_schwefel_optimum C20_h1_optimum) in exact t).
Proof. exact (conj C20_schwefel_optimum C20_h1_optimum). Qed.
Print Assumptions C20_sec2_optima_interval.

(* ================================================================================================ *)
(* 3. front identities, for every input                                                             *)
(* ================================================================================================ *)
Theorem C20_dtlz1_sum : forall (x : list R) M, (1 <= M)%Z -> (M - 1 <= zlen x)%Z ->
  Rsum (bm_dtlz1 x M) = (1 + dtlz_g13 (dtlz_xm x M)) / 2.
Proof. intros x M H1 H2. rewrite ge_dtlz1 by assumption. apply dtlz1_sum. Qed.

Theorem C20_dtlz2_6_norm : forall (x : list R) M alpha, (2 <= M)%Z -> (M - 1 <= zlen x)%Z ->
  enorm (bm_dtlz2 x M) = 1 + dtlz_g2 (dtlz_xm x M) /\
  enorm (bm_dtlz3 x M) = 1 + dtlz_g13 (dtlz_xm x M) /\
  enorm (bm_dtlz4 x M alpha) = 1 + dtlz_g2 (dtlz_xm x M) /\
  enorm (bm_dtlz5 x M) = 1 + dtlz_g2 (dtlz_xm x M) /\
  enorm (bm_dtlz6 x M) = 1 + dtlz_g6 (dtlz_xm x M).
Proof.
  intros x M alpha H1 H2. rewrite ge_dtlz2, ge_dtlz3, ge_dtlz4, ge_dtlz5, ge_dtlz6 by (try assumption; lia).
  repeat split.
  - apply dtlz2_norm. - apply dtlz3_norm. - apply dtlz4_norm. - apply dtlz5_norm. - apply dtlz6_norm.
Qed.

Theorem C20_zdt_f2 : forall x : list R,
  nth 1 (bm_zdt1 x) 0 = zdt_g x * zdt1_h (nth 0 (bm_zdt1 x) 0) (zdt_g x) /\
  nth 1 (bm_zdt2 x) 0 = zdt_g x * zdt2_h (nth 0 (bm_zdt2 x) 0) (zdt_g x) /\
  nth 1 (bm_zdt3 x) 0 = zdt_g x * zdt3_h (nth 0 (bm_zdt3 x) 0) (zdt_g x) /\
  nth 1 (bm_zdt4 x) 0 = zdt4_g x * zdt1_h (nth 0 (bm_zdt4 x) 0) (zdt4_g x) /\
  nth 1 (bm_zdt6 x) 0 = zdt6_g x * zdt2_h (nth 0 (bm_zdt6 x) 0) (zdt6_g x).
Proof. intro x. rewrite ge_zdt1, ge_zdt2, ge_zdt3, ge_zdt4, ge_zdt6. apply zdt_f2. Qed.

Theorem C20_zdt1_front : forall (x1 : R) n, (1 <= n)%nat -> bm_zdt1 (x1 :: repeat 0 n) = [x1; 1 - sqrt x1].
Proof. intros. rewrite ge_zdt1. apply zdt1_front. assumption. Qed.


Theorem C20_dtlz2_front_unit : forall (x : list R) M, (1 <= M)%Z -> (M - 1 <= zlen x)%Z ->
  Forall (fun v => v = 1 / 2) (dtlz_xm x M) -> enorm (bm_dtlz2 x M) = 1.
Proof. intros x M H1 H2. rewrite ge_dtlz2 by assumption. apply dtlz2_front_unit. Qed.


(* section 3 -- conjunction of the theorems above; carries the Print Assumptions of this group
   (one call per group: each call costs about 1.7 s) *)
Theorem C20_sec3_fronts : ltac:(let t := type of (conj C20_dtlz1_sum (conj C20_dtlz2_6_norm (conj C20_zdt_f2 (conj C20_zdt1_front C20_dtlz2_front_unit)))) in exact t).
Proof. exact (conj C20_dtlz1_sum (conj C20_dtlz2_6_norm (conj C20_zdt_f2 (conj C20_zdt1_front C20_dtlz2_front_unit)))). Qed.
Print Assumptions C20_sec3_fronts.

(* ================================================================================================ *)
(* 4. decorators: what the wrapped function is fed                                                  *)
(* ================================================================================================ *)
Theorem C20_translate_feeds : forall t x : list R, length t = length x ->
  length (tl_translate_arg t x) = length x /\
  forall i, (i < length x)%nat -> nth i (tl_translate_arg t x) 0 = nth i x 0 - nth i t 0.
Proof. intros t x. rewrite ge_translate_arg. apply translate_feeds. Qed.

Theorem C20_translate_inverse : forall t y : list R, length t = length y ->
  tl_translate_arg t (map2 Rplus y t) = y.
Proof. intros t y. rewrite ge_translate_arg. apply translate_inverse. Qed.

Theorem C20_scale_feeds : forall s x : list R, length s = length x ->
  length (tl_scale_arg (tl_scale_factor s) x) = length x /\
  forall i, (i < length x)%nat -> nth i (tl_scale_arg (tl_scale_factor s) x) 0 = nth i x 0 / nth i s 1.
Proof. intros s x. rewrite ge_scale_arg, ge_scale_factor. apply scale_feeds. Qed.

Theorem C20_scale_inverse : forall s y : list R, length s = length y -> Forall (fun v => v <> 0) s ->
  tl_scale_arg (tl_scale_factor s) (map2 Rmult y s) = y.
Proof. intros s y. rewrite ge_scale_arg, ge_scale_factor. apply scale_inverse. Qed.

(* Hypothesis = contract of numpy.linalg.inv: the stored matrix is a left inverse of the rotation matrix *)
Theorem C20_rotate_feeds : forall (M Minv : list (list R)) n (x y : list R),
  (forall z, length z = n -> matvec Minv (matvec M z) = z) ->
  length y = n -> matvec M y = x -> tl_rotate_arg Minv x = y.
Proof. intros M Minv n x y. rewrite ge_rotate_arg. apply rotate_feeds. Qed.

(* the same with the contract stated as a matrix equation: Minv . M = I (n x n, list-of-rows matrices) *)
Theorem C20_rotate_feeds_matrix : forall (M Minv : list (list R)) (x y : list R),
  Forall (fun row => length row = length y) M ->
  matmul Minv M (length y) = identity (length y) ->
  matvec M y = x -> tl_rotate_arg Minv x = y.
Proof. intros M Minv x y. rewrite ge_rotate_arg. apply rotate_feeds_matrix. Qed.

Theorem C20_noise_feeds : forall (fs : list (option R)) (x r : list R),
  tl_noise_arg fs x = x /\
  forall i, (i < length r)%nat -> (i < length fs)%nat ->
    nth i (tl_noise_post fs x r) 0 = match nth i fs None with None => nth i r 0 | Some d => nth i r 0 + d end.
Proof.
  intros fs x r. rewrite ge_noise_arg, ge_noise_post. split; [reflexivity|]. intros i. apply noise_adds.
Qed.

Theorem C20_bin2float_feeds : forall (mn mx : R) nbits (b : list Z) i, (1 <= nbits)%Z -> Forall is_bit b ->
  (i < length b / Z.to_nat nbits)%nat ->
  let k := bits_value (block b (i * Z.to_nat nbits) (Z.to_nat nbits)) in
  nth i (bin_bin2float_arg mn mx nbits b) 0 = mn + IZR k / IZR (2 ^ nbits - 1) * (mx - mn) /\
  (0 <= k <= 2 ^ nbits - 1)%Z /\
  (mn <= mx -> mn <= nth i (bin_bin2float_arg mn mx nbits b) 0 <= mx).
Proof. intros mn mx nbits b i H1. rewrite ge_bin2float_arg by assumption. apply bin2float_feeds. assumption. Qed.

Theorem C20_bin2float_length : forall (mn mx : R) nbits (b : list Z), (1 <= nbits)%Z ->
  length (bin_bin2float_arg mn mx nbits b) = (length b / Z.to_nat nbits)%nat.
Proof.
  intros mn mx nbits b H1. rewrite ge_bin2float_arg by assumption. unfold spec_bin2float_arg.
  rewrite map_length, seq_length. reflexivity.
Qed.


(* section 4 -- conjunction of the theorems above; carries the Print Assumptions of this group
   (one call per group: each call costs about 1.7 s) *)
Theorem C20_sec4_decorators : ltac:(let t := type of (conj C20_translate_feeds (conj C20_translate_inverse (conj C20_scale_feeds (conj C20_scale_inverse (conj C20_rotate_feeds (conj C20_rotate_feeds_matrix (conj C20_noise_feeds (conj C20_bin2float_feeds C20_bin2float_length)))))))) in exact t).
Proof. exact (conj C20_translate_feeds (conj C20_translate_inverse (conj C20_scale_feeds (conj C20_scale_inverse (conj C20_rotate_feeds (conj C20_rotate_feeds_matrix (conj C20_noise_feeds (conj C20_bin2float_feeds C20_bin2float_length)))))))). Qed.
Print Assumptions C20_sec4_decorators.

(* ================================================================================================ *)
(* 5. moving peaks                                                                                  *)
(* ================================================================================================ *)
Theorem C20_mp_eval_is_max : forall fs ps hs ws basis (x : list R),
  let vals := peak_values fs ps hs ws x ++ match basis with Some b => [b x] | None => [] end in
  vals <> [] ->
  exists m, mp_call fs ps hs ws basis x = [m] /\ In m vals /\ forall v, In v vals -> v <= m.
Proof. intros fs ps hs ws basis x. rewrite ge_mp_call. apply mp_eval_is_max. Qed.

(* the regenerated peak-count arithmetic of changePeaks, iterated over any number of changes with any draws *)
Definition count_after (minp maxp : Z) (sev : R) (n0 : Z) (draws : list (R * R)) : Z :=
  fold_left (fun n d => mp_cp_count minp maxp sev n (fst d) (snd d)) draws n0.

Theorem C20_mp_count_in_limits : forall minp maxp (sev : R) n0 draws,
  (minp <= n0 <= maxp)%Z -> (minp <= count_after minp maxp sev n0 draws <= maxp)%Z.
Proof.
  intros minp maxp sev n0 draws H. unfold count_after.
  replace (fold_left _ draws n0) with (mp_count_after minp maxp sev n0 draws).
  - apply mp_count_in_limits. exact H.
  - unfold mp_count_after. revert n0 H. induction draws as [|d r IH]; intros n0 H; [reflexivity|].
    cbn [fold_left]. rewrite ge_mp_cp_count. apply IH. apply mp_count_step. exact H.
Qed.


(* section 5 -- conjunction of the theorems above; carries the Print Assumptions of this group
   (one call per group: each call costs about 1.7 s) *)
Theorem C20_sec5_moving_peaks : ltac:(let t := type of (conj C20_mp_eval_is_max C20_mp_count_in_limits) in exact t).
Proof. exact (conj C20_mp_eval_is_max C20_mp_count_in_limits). Qed.
Print Assumptions C20_sec5_moving_peaks.

(* ================================================================================================ *)
(* non-vacuity: the hypotheses are satisfiable and the statements speak about concrete values        *)
(* ================================================================================================ *)
Example C20_nonvacuous :
  (2 <= 3)%Z /\ (3 - 1 <= zlen [1/10; 2/10; 3/10; 4/10; 5/10; 6/10; 7/10])%Z /\
  length (dtlz_xc [1/10; 2/10; 3/10; 4/10; 5/10; 6/10; 7/10] 3) = 2%nat /\
  Forall is_bit [1; 0; 1; 1]%Z /\ bin_royal_road1 [1; 1; 0; 1; 1; 1]%Z 2 = [4]%Z /\
  bin_trap [1; 1; 1; 1]%Z = 4%Z /\ bin_chuang_f1 [0; 0; 0; 0; 1; 1; 1; 1; 0]%Z = [7]%Z /\
  (1 <= count_after 1 10 (1/10) 1 [(1/4, 9/10); (3/4, 9/10)]%R <= 10)%Z.
Proof.
  repeat split; try (unfold zlen; cbn; lia); try reflexivity.
  - repeat constructor; (left; reflexivity) || (right; reflexivity).
  - apply C20_mp_count_in_limits. lia.
  - apply C20_mp_count_in_limits. lia.
Qed.

Example C20_rotate_contract_nonvacuous :
  matmul [[1 / 2; 0]; [0; 1 / 4]] [[2; 0]; [0; 4]] 2 = identity 2 /\
  Forall (fun row : list R => length row = 2%nat) [[2; 0]; [0; 4]].
Proof.
  split; [|repeat constructor].
  unfold matmul, identity. cbn [map seq lincomb vadd vscale map2 repeat Nat.eqb].
  repeat (apply (f_equal2 cons)); try reflexivity; try lra.
Qed.
