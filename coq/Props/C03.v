(* Property C03 — packaged evolutionary loops keep fitnesses, counts and logs truthful.
   Theorems only.  Model: Model/C03_Loops.v (deap/algorithms.py eaSimple, eaMuPlusLambda,
   eaMuCommaLambda, eaGenerateUpdate; deap/gp.py harm).  Proofs: Proofs/C03_Loops.v.

   Reading guide.
   * A run is the model applied to the list of per-generation oracle answers (ngen = its length).
     "At every generation boundary" is expressed by splitting the answers as l1 ++ l2: the state
     after l1 is a boundary of the run on l1 ++ l2, and its logbook / call log are prefixes of the
     final ones (extends_history).
   * InvC s (Proofs) packs, for the state s at a boundary:
       ic_pop          every individual of the population has fit = Some (evaluate genotype)
       ic_gens         the logbook's gen column is 0,1,2,... (consecutive, in order)
       ic_nevals       one call log per record; nevals of the record = number of evaluate calls
       ic_snap         every snapshot a Statistics object took at any earlier boundary contains only
                       valid fitnesses equal to evaluate(genotype)
       ic_last         the last record is the snapshot of the current population
       ic_shown_calls  every evaluated individual was passed to halloffame.update
       ic_shown_pop    every member of the population was passed to halloffame.update
   * InvH s: the best fitness of the hall of fame is >= every evaluated fitness, every fitness any
     record logged, every fitness in the population; each record's own best (the hall of fame at
     that boundary) is >= what that record logged.
   * calls_exact s s' gen off: in the generation leading from s to s' evaluate was called exactly
     on the objects of off (the individuals returned by variation) whose fitness was invalid, in
     order, with their genotype, each once (when they are distinct objects), nevals = that number,
     and the record carries gen.
   Hypotheses (names as in Proofs): init_ok (pre-set fitnesses of the initial population are
   truthful), run_ok .. ans_ok_* (selection returns the requested number of elements of its
   argument; variation satisfies the C02 contract off_ok; generate returns new distinct objects),
   for harm: the event stream fits the code path (result Ok; Mismatch = a guard of the real code
   or an operator contract fails, OutOfFuel is impossible by C03_harm_fuel_suffices).
   The in-place update of the caller's list is by construction of the model: s_pop IS the content
   of the caller's list object (`population[:] = ...`); the correspondence run checks object
   identity on the implementation. *)
From Coq Require Import List ZArith Bool Arith Lia QArith.
From DV Require Import Model.C03_Loops Proofs.C03_Loops.
Import ListNotations.
Local Close Scope Q_scope.
Local Open Scope nat_scope.

Section Statements.
Context {G F : Type}.
Variable evaluate : G -> F.
Variable fle : F -> F -> bool.
Notation store := (@store G F).
Notation state := (@state G F).
Notation ans := (@ans G F).
Notation ev := (@ev G).

(* ---------------- loop_inv: at every boundary ---------------- *)
Theorem C03_loop_inv_simple : forall (st : store) (pop : list uid) (l1 l2 : list ans),
  init_ok evaluate st pop ->
  run_ok (step_simple evaluate fle) ans_ok_simple 1 (gen0 evaluate fle (init st pop)) (l1 ++ l2) ->
  let b := ea_simple evaluate fle st pop l1 in
  InvC evaluate b /\ length (s_log b) = S (length l1) /\
  length (s_pop b) = length pop /\
  extends_history b (ea_simple evaluate fle st pop (l1 ++ l2)).
Proof. exact (simple_every_boundary evaluate fle). Qed.

Theorem C03_loop_inv_plus : forall (mu lam : nat) (st : store) (pop : list uid) (l1 l2 : list ans),
  init_ok evaluate st pop ->
  run_ok (step_plus evaluate fle) (ans_ok_plus mu lam) 1 (gen0 evaluate fle (init st pop)) (l1 ++ l2) ->
  let b := ea_plus evaluate fle st pop l1 in
  InvC evaluate b /\ length (s_log b) = S (length l1) /\
  length (s_pop b) = match l1 with [] => length pop | _ => mu end /\
  extends_history b (ea_plus evaluate fle st pop (l1 ++ l2)).
Proof. exact (plus_every_boundary evaluate fle). Qed.

Theorem C03_loop_inv_comma : forall (mu lam : nat) (st : store) (pop : list uid) (l1 l2 : list ans),
  init_ok evaluate st pop ->
  run_ok (step_comma evaluate fle) (ans_ok_comma mu lam) 1 (gen0 evaluate fle (init st pop)) (l1 ++ l2) ->
  let b := ea_comma evaluate fle st pop l1 in
  InvC evaluate b /\ length (s_log b) = S (length l1) /\
  length (s_pop b) = match l1 with [] => length pop | _ => mu end /\
  extends_history b (ea_comma evaluate fle st pop (l1 ++ l2)).
Proof. exact (comma_every_boundary evaluate fle). Qed.

(* generate-update: records 0 .. ngen-1 (DESIGN Appendix B item 2); ngen = 0 returns the empty
   population and an empty logbook (after the fix: eaGenerateUpdate raised UnboundLocalError) *)
Theorem C03_loop_inv_gu : forall (l1 l2 : list ans),
  run_ok (step_gu evaluate fle) ans_ok_gu 0 (init empty_store []) (l1 ++ l2) ->
  let b := ea_gu evaluate fle l1 in
  InvC evaluate b /\ length (s_log b) = length l1 /\
  extends_history b (ea_gu evaluate fle (l1 ++ l2)).
Proof. exact (gu_every_boundary evaluate fle). Qed.

Theorem C03_gu_ngen0 : ea_gu evaluate fle [] = init empty_store [].
Proof. reflexivity. Qed.

Theorem C03_loop_inv_harm : forall (cxpb mutpb : Q) (nbrindsmodel : Z) (st : store) (pop : list uid)
    (l1 l2 : list (list ev)) (e : state),
  init_ok evaluate st pop ->
  ea_harm evaluate fle cxpb mutpb nbrindsmodel st pop (l1 ++ l2) = Ok e ->
  exists b, ea_harm evaluate fle cxpb mutpb nbrindsmodel st pop l1 = Ok b /\
    InvC evaluate b /\ length (s_log b) = S (length l1) /\
    length (s_pop b) = length pop /\ extends_history b e.
Proof. exact (harm_every_boundary evaluate fle). Qed.

(* the fuel given to harm's inner while is always sufficient: out-of-fuel never happens *)
Theorem C03_harm_fuel_suffices : forall (cxpb mutpb : Q) (nbr : nat) (l : list (list ev)) (gen : nat) (s : state),
  run_harm evaluate fle cxpb mutpb nbr gen s l <> OutOfFuel.
Proof. exact (run_harm_fuel evaluate fle). Qed.

(* ---------------- who is evaluated, how often, and nevals ---------------- *)
Theorem C03_calls_gen0 : forall (st : store) (pop : list uid),
  let s' := gen0 evaluate fle (init st pop) in
  exists log r,
    s_calls s' = [log] /\ s_log s' = [r] /\
    map fst log = invalid_of st pop /\
    Forall (fun c => exists i, st (fst c) = Some i /\ geno i = snd c) log /\
    r_gen r = 0 /\ r_nevals r = length log /\
    (NoDup (invalid_of st pop) -> NoDup (map fst log)).
Proof. exact (gen0_calls evaluate fle). Qed.

Theorem C03_calls_simple : forall (gen : nat) (s : state) (a : ans),
  ans_ok_simple s a -> calls_exact s (step_simple evaluate fle gen s a) gen (a_off a).
Proof. exact (simple_calls evaluate fle). Qed.

Theorem C03_calls_plus : forall (mu lam gen : nat) (s : state) (a : ans),
  ans_ok_plus mu lam s a -> calls_exact s (step_plus evaluate fle gen s a) gen (a_off a).
Proof. exact (plus_calls evaluate fle). Qed.

Theorem C03_calls_comma : forall (mu lam gen : nat) (s : state) (a : ans),
  ans_ok_comma mu lam s a -> calls_exact s (step_comma evaluate fle gen s a) gen (a_off a).
Proof. exact (comma_calls evaluate fle). Qed.

(* generate-update evaluates every generated individual exactly once, nevals = len(population) *)
Theorem C03_calls_gu : forall (gen : nat) (s : state) (a : ans),
  ans_ok_gu s a ->
  let s' := step_gu evaluate fle gen s a in
  exists log r,
    s_calls s' = s_calls s ++ [log] /\ s_log s' = s_log s ++ [r] /\
    map fst log = map fst (a_off a) /\ NoDup (map fst log) /\
    Forall (fun c => exists i, In (fst c, i) (a_off a) /\ geno i = snd c) log /\
    r_gen r = gen /\ r_nevals r = length log /\ s_pop s' = map fst (a_off a).
Proof. exact (step_gu_calls evaluate fle). Qed.

(* harm: the offspring are new pairwise distinct objects (|offspring| = |population| is in
   C03_loop_inv_harm); exactly those with an invalid fitness are evaluated, once each, in order *)
Theorem C03_calls_harm : forall (cxpb mutpb : Q) (nbr gen : nat) (s : state) (evs : list ev) (s' : state),
  InvC evaluate s -> gen = length (s_log s) ->
  step_harm evaluate fle cxpb mutpb nbr gen s evs = Ok s' ->
  exists st2 off log r,
    harm_offspring cxpb mutpb nbr s evs = Ok (st2, off) /\
    NoDup off /\ Forall (fun x => s_st s x = None) off /\ s_pop s' = off /\
    s_calls s' = s_calls s ++ [log] /\ s_log s' = s_log s ++ [r] /\
    map fst log = invalid_of st2 off /\ NoDup (map fst log) /\
    Forall (fun c => exists i, st2 (fst c) = Some i /\ geno i = snd c) log /\
    r_gen r = gen /\ r_nevals r = length log.
Proof. exact (harm_calls evaluate fle). Qed.

(* ---------------- hall of fame and elitism (fitness order = total preorder) ---------------- *)
Section Order.
Hypothesis fle_total : forall a b, fle a b = true \/ fle b a = true.
Hypothesis fle_trans : forall a b c, fle a b = true -> fle b c = true -> fle a c = true.

Theorem C03_hof_simple : forall (st : store) (pop : list uid) (l1 l2 : list ans),
  init_ok evaluate st pop ->
  run_ok (step_simple evaluate fle) ans_ok_simple 1 (gen0 evaluate fle (init st pop)) (l1 ++ l2) ->
  InvH evaluate fle (ea_simple evaluate fle st pop l1).
Proof. exact (simple_hof_boundary evaluate fle fle_total fle_trans). Qed.

Theorem C03_hof_plus : forall (mu lam : nat) (st : store) (pop : list uid) (l1 l2 : list ans),
  init_ok evaluate st pop ->
  run_ok (step_plus evaluate fle) (ans_ok_plus mu lam) 1 (gen0 evaluate fle (init st pop)) (l1 ++ l2) ->
  InvH evaluate fle (ea_plus evaluate fle st pop l1).
Proof. exact (plus_hof_boundary evaluate fle fle_total fle_trans). Qed.

Theorem C03_hof_comma : forall (mu lam : nat) (st : store) (pop : list uid) (l1 l2 : list ans),
  init_ok evaluate st pop ->
  run_ok (step_comma evaluate fle) (ans_ok_comma mu lam) 1 (gen0 evaluate fle (init st pop)) (l1 ++ l2) ->
  InvH evaluate fle (ea_comma evaluate fle st pop l1).
Proof. exact (comma_hof_boundary evaluate fle fle_total fle_trans). Qed.

Theorem C03_hof_gu : forall (l1 l2 : list ans),
  run_ok (step_gu evaluate fle) ans_ok_gu 0 (init empty_store []) (l1 ++ l2) ->
  InvH evaluate fle (ea_gu evaluate fle l1).
Proof. exact (gu_hof_boundary evaluate fle fle_total fle_trans). Qed.

Theorem C03_hof_harm : forall (cxpb mutpb : Q) (nbrindsmodel : Z) (st : store) (pop : list uid)
    (l1 l2 : list (list ev)) (e : state),
  init_ok evaluate st pop ->
  ea_harm evaluate fle cxpb mutpb nbrindsmodel st pop (l1 ++ l2) = Ok e ->
  exists b, ea_harm evaluate fle cxpb mutpb nbrindsmodel st pop l1 = Ok b /\ InvH evaluate fle b.
Proof. exact (harm_hof_boundary evaluate fle fle_total fle_trans). Qed.

(* plus_elitist: one mu+lambda generation with tools.selBest (mu >= 1): every fitness present in
   the population before is matched or beaten by a member of the population afterwards, hence the
   best fitness never gets worse. *)
Theorem C03_plus_elitist : forall (mu gen : nat) (s : state) (a : ans),
  InvC evaluate s -> off_ok (s_st s) (s_pop s) (a_off a) -> 1 <= mu ->
  let s' := step_plus_best evaluate fle mu gen s a in
  forall x i f, In x (s_pop s) -> s_st s x = Some i -> fit i = Some f ->
  exists y iy fy, In y (s_pop s') /\ s_st s' y = Some iy /\ fit iy = Some fy /\ fle f fy = true.
Proof. exact (plus_best_elitist evaluate fle fle_total fle_trans). Qed.

(* ... and such a generation is a mu+lambda generation satisfying the selection contract, so
   C03_loop_inv_plus / C03_hof_plus / C03_calls_plus apply to it *)
Theorem C03_plus_best_is_plus : forall (mu lam gen : nat) (s : state) (a : ans),
  off_ok (s_st s) (s_pop s) (a_off a) -> length (a_off a) = lam -> mu <= length (s_pop s) + lam ->
  exists idxs, step_plus_best evaluate fle mu gen s a = step_plus evaluate fle gen s (mkans idxs (a_off a)) /\
               ans_ok_plus mu lam s (mkans idxs (a_off a)).
Proof. exact (ans_ok_plus_best evaluate fle). Qed.
End Order.
End Statements.

Print Assumptions C03_loop_inv_simple.
Print Assumptions C03_loop_inv_plus.
Print Assumptions C03_loop_inv_comma.
Print Assumptions C03_loop_inv_gu.
Print Assumptions C03_gu_ngen0.
Print Assumptions C03_loop_inv_harm.
Print Assumptions C03_harm_fuel_suffices.
Print Assumptions C03_calls_gen0.
Print Assumptions C03_calls_simple.
Print Assumptions C03_calls_plus.
Print Assumptions C03_calls_comma.
Print Assumptions C03_calls_gu.
Print Assumptions C03_calls_harm.
Print Assumptions C03_hof_simple.
Print Assumptions C03_hof_plus.
Print Assumptions C03_hof_comma.
Print Assumptions C03_hof_gu.
Print Assumptions C03_hof_harm.
Print Assumptions C03_plus_elitist.
Print Assumptions C03_plus_best_is_plus.

(* ---------------- non-vacuity: the hypotheses are satisfiable ---------------- *)
(* genotype = fitness = nat, evaluate = identity, order = Nat.leb: a total preorder *)
Example C03_order_nonvacuous :
  (forall a b, Nat.leb a b = true \/ Nat.leb b a = true) /\
  (forall a b c, Nat.leb a b = true -> Nat.leb b c = true -> Nat.leb a c = true).
Proof.
  split; intros; rewrite ?Nat.leb_le in *; lia.
Qed.

Definition ex_store : @store nat nat :=
  upd (upd empty_store 0 (mkind 7 (Some 7))) 1 (mkind 3 None).

(* a partly pre-evaluated population of two, one eaSimple generation: selection picks individual 0
   twice, variation returns one changed clone (invalid) and one unchanged clone (copy of 0) *)
Example C03_simple_nonvacuous :
  init_ok (fun g : nat => g) ex_store [0; 1] /\
  run_ok (step_simple (fun g : nat => g) Nat.leb) ans_ok_simple 1
         (gen0 (fun g : nat => g) Nat.leb (init ex_store [0; 1]))
         [mkans [0; 0] [(2, mkind 9 None); (3, mkind 7 (Some 7))]].
Proof.
  split.
  - constructor; [exists (mkind 7 (Some 7)); split; [reflexivity|right; reflexivity]|].
    constructor; [exists (mkind 3 None); split; [reflexivity|left; reflexivity]|constructor].
  - cbn. split; [|exact I]. split; [split; [reflexivity|repeat constructor]|]. split; [|reflexivity].
    constructor.
    + intros u i [E|[E|[]]]; inversion E; subst; left; reflexivity.
    + intros u i i' [E|[E|[]]] [E'|[E'|[]]]; inversion E; inversion E'; subst; try reflexivity; discriminate.
    + intros u i f [E|[E|[]]] Hf; inversion E; subst; cbn in Hf; [discriminate|].
      inversion Hf; subst. exists 0, (mkind 7 (Some 7)). repeat split. left; reflexivity.
Qed.

(* one harm generation on a population of one: nbrindsmodel = 1, the draw 1/2 is neither below
   cxpb = 0 nor (after subtracting) below mutpb = 0, so the aspirant is a clone; it is accepted *)
Example C03_harm_nonvacuous :
  exists s, ea_harm (fun g : nat => g) Nat.leb 0%Q 0%Q 1%Z ex_store [0]
              [[EDraw (1 # 2)%Q; ESelect [0] 1 [0]; EClone 0 2; EAccept 2 true]] = Ok s /\
            s_pop s = [2] /\ map (@r_gen nat nat) (s_log s) = [0; 1].
Proof. eexists. vm_compute. repeat split. Qed.

(* ---------------- known finding: "exactly once for each individual", literally ---------------- *)
(* Full statement (for EVERY initial population, without the distinctness hypothesis):
     forall st pop, init_ok st pop ->
       exists log, s_calls (gen0 (init st pop)) = [log] /\ NoDup (map fst log).
   It is refuted by the faithful model: an unevaluated object listed twice in the caller's list is
   evaluated once per occurrence (invalid_ind is built per list position).  The witness is replayed
   on the implementation on every run (known_findings/C03.json,
   signature C03.duplicate_invalid_object_evaluated_twice). *)
Theorem C03_calls_gen0_each_once_refuted :
  exists (st : @store nat nat) (pop : list uid),
    init_ok (fun g : nat => g) st pop /\
    exists log, s_calls (gen0 (fun g : nat => g) Nat.leb (init st pop)) = [log] /\
                ~ NoDup (map fst log) /\
                map (@r_nevals nat nat) (s_log (gen0 (fun g : nat => g) Nat.leb (init st pop))) = [2].
Proof.
  exists (upd empty_store 0 (mkind 5 None)), [0; 0]. split.
  - assert (H : honest (fun g : nat => g) (upd empty_store 0 (mkind 5 None)) 0)
      by (exists (mkind 5 None); split; [reflexivity|left; reflexivity]).
    unfold init_ok. apply Forall_cons; [exact H|apply Forall_cons; [exact H|apply Forall_nil]].
  - eexists. split; [vm_compute; reflexivity|]. split; [|vm_compute; reflexivity].
    cbn. intro H. inversion H as [|? ? N _]; subst. apply N. left; reflexivity.
Qed.
Print Assumptions C03_calls_gen0_each_once_refuted.

(* proved on the complement of the signature: when the initially invalid individuals are distinct
   objects, each of them is evaluated exactly once (and nobody else) *)
Theorem C03_calls_gen0_each_once_partial : forall (G F : Type) (evaluate : G -> F) (fle : F -> F -> bool)
    (st : @store G F) (pop : list uid),
  NoDup (invalid_of st pop) ->
  exists log, s_calls (gen0 evaluate fle (init st pop)) = [log] /\
              map fst log = invalid_of st pop /\ NoDup (map fst log).
Proof.
  intros G F evaluate fle st pop N.
  destruct (gen0_calls evaluate fle st pop) as [log [r [E1 [_ [E3 [_ [_ [_ E7]]]]]]]].
  exists log. auto.
Qed.
Print Assumptions C03_calls_gen0_each_once_partial.

(* ---------------- the correspondence runner validates the hypotheses ---------------- *)
(* If Corr.C03.check accepts a recorded run of the implementation, the hypotheses of the theorems
   above hold for that run (so their conclusions hold for the model state that was compared with the
   implementation), and the runner's fitness order is a total preorder. *)
From DV Require Import Base.Corr Corr.C03 Proofs.C03_Corr.

Theorem C03_corr_order_is_total_preorder : forall w : list Z,
  (forall a b, wfle w a b = true \/ wfle w b a = true) /\
  (forall a b c, wfle w a b = true -> wfle w b c = true -> wfle w a c = true).
Proof. exact (fun w => conj (wfle_total w) (wfle_trans w)). Qed.
Print Assumptions C03_corr_order_is_total_preorder.

Theorem C03_corr_validates_loop : forall k ngen p w mu lam objs pop gens oc ol os ofin oi,
  k <> KGU ->
  check (CLoop k ngen p w mu lam objs pop gens oc ol os ofin oi) = true ->
  let st0 := add_objs empty_store objs in
  let s0 := gen0 (ev_fun p) (wfle w) (init st0 pop) in
  init_ok (ev_fun p) st0 pop /\
  run_ok (step_kind p w k) (ans_ok_kind k mu lam) 1 s0 (map to_ans gens) /\
  Forall (fun o => off_invalid_distinct (og_off o)) gens /\
  length gens = ngen /\
  state_matches (run_from (step_kind p w k) 1 s0 (map to_ans gens)) oc ol os ofin = true /\
  oi = true.
Proof. exact check_loop_validates. Qed.
Print Assumptions C03_corr_validates_loop.

Theorem C03_corr_validates_gu : forall ngen p w mu lam objs pop gens oc ol os ofin oi,
  check (CLoop KGU ngen p w mu lam objs pop gens oc ol os ofin oi) = true ->
  let s0 := init (add_objs empty_store objs) pop in
  run_ok (step_kind p w KGU) ans_ok_gu 0 s0 (map to_ans gens) /\
  length gens = ngen /\
  state_matches (run_from (step_kind p w KGU) 0 s0 (map to_ans gens)) oc ol os ofin = true /\
  oi = true.
Proof. exact check_gu_validates. Qed.
Print Assumptions C03_corr_validates_gu.

Theorem C03_corr_validates_harm : forall ngen p w cxpb mutpb nbr objs pop gens oc ol os ofin oi,
  check (CHarm ngen p w cxpb mutpb nbr objs pop gens oc ol os ofin oi) = true ->
  let st0 := add_objs empty_store objs in
  init_ok (ev_fun p) st0 pop /\
  exists s, ea_harm (ev_fun p) (wfle w) cxpb mutpb nbr st0 pop gens = Ok s /\
            length gens = ngen /\ state_matches s oc ol os ofin = true /\ oi = true.
Proof. exact check_harm_validates. Qed.
Print Assumptions C03_corr_validates_harm.

(* End to end: for every recorded run of the implementation that the runner accepts, the model state
   that agrees with everything observed on the implementation satisfies the invariants. *)
Theorem C03_accepted_simple_run : forall ngen p w mu lam objs pop gens oc ol os ofin oi,
  check (CLoop KSimple ngen p w mu lam objs pop gens oc ol os ofin oi) = true ->
  let s := ea_simple (ev_fun p) (wfle w) (add_objs empty_store objs) pop (map to_ans gens) in
  InvC (ev_fun p) s /\ InvH (ev_fun p) (wfle w) s /\
  length (s_log s) = S ngen /\ length (s_pop s) = length pop /\
  state_matches s oc ol os ofin = true.
Proof. exact accepted_simple_run. Qed.
Print Assumptions C03_accepted_simple_run.

Theorem C03_accepted_plus_run : forall ngen p w mu lam objs pop gens oc ol os ofin oi,
  check (CLoop KPlus ngen p w mu lam objs pop gens oc ol os ofin oi) = true ->
  let s := ea_plus (ev_fun p) (wfle w) (add_objs empty_store objs) pop (map to_ans gens) in
  InvC (ev_fun p) s /\ InvH (ev_fun p) (wfle w) s /\
  length (s_log s) = S ngen /\ length (s_pop s) = match ngen with 0 => length pop | _ => mu end /\
  state_matches s oc ol os ofin = true.
Proof. exact accepted_plus_run. Qed.
Print Assumptions C03_accepted_plus_run.

Theorem C03_accepted_comma_run : forall ngen p w mu lam objs pop gens oc ol os ofin oi,
  check (CLoop KComma ngen p w mu lam objs pop gens oc ol os ofin oi) = true ->
  let s := ea_comma (ev_fun p) (wfle w) (add_objs empty_store objs) pop (map to_ans gens) in
  InvC (ev_fun p) s /\ InvH (ev_fun p) (wfle w) s /\
  length (s_log s) = S ngen /\ length (s_pop s) = match ngen with 0 => length pop | _ => mu end /\
  state_matches s oc ol os ofin = true.
Proof. exact accepted_comma_run. Qed.
Print Assumptions C03_accepted_comma_run.

Theorem C03_accepted_harm_run : forall ngen p w cxpb mutpb nbr objs pop gens oc ol os ofin oi,
  check (CHarm ngen p w cxpb mutpb nbr objs pop gens oc ol os ofin oi) = true ->
  exists s, ea_harm (ev_fun p) (wfle w) cxpb mutpb nbr (add_objs empty_store objs) pop gens = Ok s /\
    InvC (ev_fun p) s /\ InvH (ev_fun p) (wfle w) s /\
    length (s_log s) = S ngen /\ length (s_pop s) = length pop /\
    state_matches s oc ol os ofin = true.
Proof. exact accepted_harm_run. Qed.
Print Assumptions C03_accepted_harm_run.
