(* Property C03 — theorems only.  Model: Model/C03_Loops.v *)
From Coq Require Import List ZArith Bool Arith QArith.
From DV Require Import Model.C03_Loops Proofs.C03_Loops.
Import ListNotations.
Local Close Scope Q_scope.
Local Open Scope nat_scope.

Theorem C03_gu_ngen0 : forall (G F : Type) (evaluate : G -> F) (fle : F -> F -> bool),
  ea_gu evaluate fle [] = init empty_store [].
Proof. intros; apply gu_ngen0. Qed.
Print Assumptions C03_gu_ngen0.
