(* Property C07 — theorems about selNSGA3 as ONE function of the population
   (Model/C07_Full.v : nsga3_full) and about find_intercepts (Model/C07_Intercepts.v).

   Props/C07.v states the NSGA-III clauses relative to hypotheses about the fronts returned by the
   sorter and takes the intercepts as an input.  Here the sorter is C04's model of
   sortNondominated / sortLogNondominated (the `nd` argument of selNSGA3 selects it), composed through
   C04's theorems, and the intercepts are computed by the model of find_intercepts: the only
   hypotheses left are about the caller's population (distinct individuals, fitnesses of one
   length, at least 2 objectives for the "log" sorter), refs <> [] and 1 <= k <= n.
   `spec_fronts pop` is C04's peeling specification of the Pareto fronts (C04_spec_is_peeling).
   All draws (shuffle codes) and all memories (best/worst point, extreme points) are quantified. *)
From Coq Require Import List ZArith QArith Bool Permutation.
From DV Require Import Base.PyList Base.C07_Num
  Model.C07_Nsga3 Model.C07_RefPoints Model.C07_Intercepts Model.C07_Full
  Model.C04_NDSort Model.C04_LogSort
  Proofs.C04_NDSort Proofs.C07_Nsga3 Proofs.C07_Intercepts Proofs.C07_Full.
Import ListNotations.
Local Open Scope nat_scope.

(* ================================================================== *)
(* selNSGA3 composed with the sorters *)

(* exactly k, all of them input individuals (uids of the population), none twice *)
Theorem C07_full_size_refs : forall (log : bool) (pop : list ind) (k : nat) (refs : list (list Q))
    (mem : option (list Z * list Z)) (pext : option (list (list Z))) (draws : list (list nat)),
  NoDup (map uid pop) -> same_len (map iw pop) -> pop <> [] ->
  (log = true -> forall x, In x pop -> 2 <= length (iw x)) ->
  refs <> [] -> 1 <= k <= length pop ->
  exists o, nsga3_full log pop k refs mem pext draws = Some o /\
    o_ok (f_core o) = true /\ length (o_chosen (f_core o)) = k /\ NoDup (o_chosen (f_core o)) /\
    incl (o_chosen (f_core o)) (map uid pop).
Proof. exact full_size_refs. Qed.
Print Assumptions C07_full_size_refs.

(* never leaves out an individual of a strictly better front than one it selected; the fronts are
   the peeling fronts of the population itself (no hypothesis about what the sorter returned) *)
Theorem C07_full_front_priority : forall (log : bool) (pop : list ind) (k : nat) (refs : list (list Q))
    (mem : option (list Z * list Z)) (pext : option (list (list Z))) (draws : list (list nat)),
  NoDup (map uid pop) -> same_len (map iw pop) -> pop <> [] ->
  (log = true -> forall x, In x pop -> 2 <= length (iw x)) ->
  refs <> [] -> 1 <= k <= length pop ->
  exists o, nsga3_full log pop k refs mem pext draws = Some o /\
    forall i j X Y x y,
      nth_error (spec_fronts pop) i = Some X -> nth_error (spec_fronts pop) j = Some Y -> i < j ->
      In x X -> In y Y -> In (uid y) (o_chosen (f_core o)) -> In (uid x) (o_chosen (f_core o)).
Proof. exact full_front_priority. Qed.
Print Assumptions C07_full_front_priority.

(* the fronts selNSGA3 works on are, front by front, the leading peeling fronts, cut where k is reached *)
Theorem C07_full_fronts_are_peeling : forall (log : bool) (pop : list ind) (k : nat) (refs : list (list Q))
    (mem : option (list Z * list Z)) (pext : option (list (list Z))) (draws : list (list nat)),
  NoDup (map uid pop) -> same_len (map iw pop) -> pop <> [] ->
  (log = true -> forall x, In x pop -> 2 <= length (iw x)) ->
  refs <> [] -> 1 <= k <= length pop ->
  exists o fs j, nsga3_full log pop k refs mem pext draws = Some o /\
    f_fronts o = map (map uid) fs /\ j < length (spec_fronts pop) /\
    Forall2 (@Permutation ind) fs (firstn (S j) (spec_fronts pop)) /\
    length (concat (removelast (f_fronts o))) < k <= length (concat (f_fronts o)).
Proof. exact full_fronts_are_peeling. Qed.
Print Assumptions C07_full_fronts_are_peeling.

(* niche balance, with the model's own fronts, intercepts and association *)
Theorem C07_full_balanced : forall (log : bool) (pop : list ind) (k : nat) (refs : list (list Q))
    (mem : option (list Z * list Z)) (pext : option (list (list Z))) (draws : list (list nat)),
  NoDup (map uid pop) -> same_len (map iw pop) -> pop <> [] ->
  (log = true -> forall x, In x pop -> 2 <= length (iw x)) ->
  refs <> [] -> 1 <= k <= length pop ->
  exists o, nsga3_full log pop k refs mem pext draws = Some o /\
    let fronts := f_fronts o in
    let niches := f_niches o in
    let sc := length (concat (removelast fronts)) in
    let lastf := last fronts [] in
    exists sel,
      o_chosen (f_core o) = concat (removelast fronts) ++ map (fun i => nth i lastf 0) sel /\
      NoDup sel /\ (forall i, In i sel -> i < length lastf) /\ length sel = k - sc /\
      (forall c, c < length refs -> nth c (o_counts (f_core o)) 0 =
                          count_occ_nat (firstn sc niches) c + length (filter (fun i => Nat.eqb (nth (sc + i) niches 0) c) sel)) /\
      (forall a b, (exists i, In i sel /\ nth (sc + i) niches 0 = a) ->
                   (exists i, i < length lastf /\ ~ In i sel /\ nth (sc + i) niches 0 = b) ->
                   nth a (o_counts (f_core o)) 0 <= nth b (o_counts (f_core o)) 0 + 1).
Proof. exact full_balanced. Qed.
Print Assumptions C07_full_balanced.

(* association inside the pipeline: the niche of the i-th sorted individual is associate_one (the first
   argmin of the squared perpendicular distance, C07_associate_argmin / C07_perp_d2_is_line_distance)
   of its fitness vector normalised by the model's own best point and find_intercepts result *)
Theorem C07_full_association : forall log pop k refs mem pext draws o,
  nsga3_full log pop k refs mem pext draws = Some o ->
  exists fs, sort_fronts log pop k = Some fs /\
    let fits := map (fun x => qz (map Z.opp (iw x))) (concat fs) in
    f_icpt o = find_intercepts (map qz (f_ext o)) (qz (f_best o)) (qz (f_worst o))
                               (qz (update_worst None (map (fun x => map Z.opp (iw x)) (concat fs)))) /\
    forall i, i < length fits ->
      nth i (f_niches o) 0 = associate_one q_ops refs (normalise q_ops np_eps (nth i fits []) (qz (f_best o)) (f_icpt o)).
Proof. exact full_association. Qed.
Print Assumptions C07_full_association.

(* ================================================================== *)
(* the exact solver standing for numpy.linalg.solve: any exact solver is a faithful model because
   the result is determined by the system — it returns a solution, every solution equals it, and it
   fails exactly when the matrix has a non-trivial kernel *)
Theorem C07_full_solve_sound : forall n rows x, wf n rows -> length rows = n -> solve n rows = Some x ->
  length x = n /\ forall r, In r rows -> (vdot (fst r) x == snd r)%Q.
Proof. exact solve_sound. Qed.
Print Assumptions C07_full_solve_sound.

Theorem C07_full_solve_unique : forall n rows x y, wf n rows -> solve n rows = Some x ->
  length y = n -> (forall r, In r rows -> (vdot (fst r) y == snd r)%Q) -> Forall2 Qeq y x.
Proof. exact solve_unique. Qed.
Print Assumptions C07_full_solve_unique.

Theorem C07_full_solve_none_singular : forall n rows, wf n rows -> solve n rows = None ->
  exists v, length v = n /\ ~ Forall (fun q => (q == 0)%Q) v /\ forall r, In r rows -> (vdot (fst r) v == 0)%Q.
Proof. exact solve_none_singular. Qed.
Print Assumptions C07_full_solve_none_singular.

Theorem C07_full_solve_some_regular : forall n rows x, wf n rows -> solve n rows = Some x -> length rows = n ->
  forall v, length v = n -> (forall r, In r rows -> (vdot (fst r) v == 0)%Q) -> Forall (fun q => (q == 0)%Q) v.
Proof. exact solve_some_regular. Qed.
Print Assumptions C07_full_solve_some_regular.

(* ================================================================== *)
(* find_intercepts: M extreme points with M coordinates each *)

(* main branch: the returned a are the axis intercepts of the hyperplane through the extreme points,
   sum_j (z_j - best_j) / a_j = 1 for every extreme point z *)
Theorem C07_full_intercepts_plane : forall (ext : list (list Q)) (best worst fw : list Q),
  length ext = length best -> (forall z, In z ext -> length z = length best) ->
  fst (find_intercepts_b ext best worst fw) = BMain ->
  forall z, In z ext -> (vdot (map2 Qminus z best) (map Qinv (find_intercepts ext best worst fw)) == 1)%Q.
Proof. exact find_intercepts_main_plane. Qed.
Print Assumptions C07_full_intercepts_plane.

(* every branch: the result is current_worst, front_worst, or intercepts that pass the guards of the
   code (each above 1e-6, none beyond the worst point once translated back by best_point) *)
Theorem C07_full_intercepts_guards : forall (ext : list (list Q)) (best worst fw : list Q),
  length ext = length best -> (forall z, In z ext -> length z = length best) ->
  let r := find_intercepts ext best worst fw in
  r = worst \/ r = fw \/
  (length r = length best /\
   forall j, j < length best ->
     (icpt_min < nth j r 0)%Q /\ (j < length worst -> (nth j r 0 + nth j best 0 <= nth j worst 0)%Q)).
Proof. exact find_intercepts_guards. Qed.
Print Assumptions C07_full_intercepts_guards.

(* the LinAlgError branch (result current_worst) is taken exactly when the translated extreme points
   are linearly dependent *)
Theorem C07_full_intercepts_singular_iff : forall (ext : list (list Q)) (best worst fw : list Q),
  length ext = length best -> (forall z, In z ext -> length z = length best) ->
  (fst (find_intercepts_b ext best worst fw) = BSingular <->
   exists v, length v = length best /\ ~ Forall (fun q => (q == 0)%Q) v /\
             forall z, In z ext -> (vdot (map2 Qminus z best) v == 0)%Q).
Proof. exact find_intercepts_singular_iff. Qed.
Print Assumptions C07_full_intercepts_singular_iff.

(* all four branches at once: which value is returned, and the condition under which the branch is
   taken, in terms of THE solution x of (extreme_points - best_point) x = 1.  In particular the
   allclose test of the code never decides anything over exact arithmetic: the BGuard branch always
   comes with a violated positivity or worst-point guard *)
Theorem C07_full_intercepts_branches : forall (ext : list (list Q)) (best worst fw : list Q),
  length ext = length best -> (forall z, In z ext -> length z = length best) ->
  match find_intercepts_b ext best worst fw with
  | (BSingular, r) =>
      r = worst /\
      exists v, length v = length best /\ ~ Forall (fun q => (q == 0)%Q) v /\
                forall z, In z ext -> (vdot (map2 Qminus z best) v == 0)%Q
  | (BZero, r) =>
      r = fw /\
      exists x, icpt_solution ext best x /\ (forall y, icpt_solution ext best y -> veq y x) /\
                Exists (fun q => (q == 0)%Q) x
  | (BGuard, r) =>
      r = fw /\
      exists x, icpt_solution ext best x /\ (forall y, icpt_solution ext best y -> veq y x) /\
                Forall (fun q => ~ (q == 0)%Q) x /\
                exists j, j < length best /\
                  ((/ nth j x 0 <= icpt_min)%Q \/
                   (j < length worst /\ (nth j worst 0 < / nth j x 0 + nth j best 0)%Q))
  | (BMain, a) =>
      length a = length best /\
      (exists x, icpt_solution ext best x /\ (forall y, icpt_solution ext best y -> veq y x) /\ veq a (map Qinv x)) /\
      (forall z, In z ext -> (vdot (map2 Qminus z best) (map Qinv a) == 1)%Q) /\
      (forall j, j < length best -> (icpt_min < nth j a 0)%Q /\
                 (j < length worst -> (nth j a 0 + nth j best 0 <= nth j worst 0)%Q))
  end.
Proof. exact find_intercepts_spec. Qed.
Print Assumptions C07_full_intercepts_branches.

(* ================================================================== *)
(* non-vacuity: the hypotheses are satisfiable, both sorters, every branch of find_intercepts *)
Definition ex_pop : list ind :=
  [(0, [-1; -4]%Z); (1, [-2; -2]%Z); (2, [-4; -1]%Z); (3, [-3; -3]%Z); (4, [-5; -5]%Z)].

Example C07_full_nonvacuous_pop :
  NoDup (map uid ex_pop) /\ same_len (map iw ex_pop) /\ ex_pop <> [] /\
  (forall x, In x ex_pop -> 2 <= length (iw x)) /\ ref_points_q 2 3 None <> [] /\ 1 <= 4 <= length ex_pop.
Proof.
  split; [|split; [|split; [discriminate|split; [|split; [discriminate|cbn; split; repeat constructor]]]]].
  - cbn. repeat constructor; cbn; intuition discriminate.
  - intros a b Ha Hb. cbn in Ha, Hb. intuition (subst; reflexivity).
  - intros x Hx. cbn in Hx. intuition (subst; cbn; auto).
Qed.

Example C07_full_nonvacuous_run :
  option_map (fun o => (f_fronts o, f_best o, f_worst o, f_ext o, f_branch o, f_niches o, o_chosen (f_core o)))
             (nsga3_full true ex_pop 4 (ref_points_q 2 3 None) None None [[0]; [0]])
  = Some ([[0; 1; 2]; [3]], [1; 1]%Z, [4; 4]%Z, [[4; 1]; [1; 4]]%Z, BMain, [0; 1; 3; 1], [0; 1; 2; 3]) /\
  option_map (fun o => (f_fronts o, o_chosen (f_core o)))
             (nsga3_full false ex_pop 2 (ref_points_q 2 3 None) None None [[0; 0; 0]; [0]; [0]])
  = Some ([[0; 1; 2]], [2; 1]).
Proof. vm_compute. split; reflexivity. Qed.

Example C07_full_nonvacuous_intercepts :
  (* main branch: the plane through (4,1) and (1,4) relative to best (1,1) cuts the axes at 3, 3 *)
  find_intercepts_b [[4; 1]; [1; 4]]%Q [1; 1]%Q [4; 4]%Q [4; 4]%Q = (BMain, [3; 3]%Q) /\
  (* duplicate extreme points: singular, the remembered worst point *)
  find_intercepts_b [[4; 1]; [4; 1]]%Q [1; 1]%Q [9; 9]%Q [4; 4]%Q = (BSingular, [9; 9]%Q) /\
  (* an extreme point equal to the best point: singular *)
  find_intercepts_b [[1; 1]; [1; 4]]%Q [1; 1]%Q [9; 9]%Q [4; 4]%Q = (BSingular, [9; 9]%Q) /\
  (* hyperplane parallel to an axis: a zero component of x *)
  find_intercepts_b [[1; 2]; [2; 2]]%Q [0; 0]%Q [9; 9]%Q [4; 4]%Q = (BZero, [4; 4]%Q) /\
  (* negative intercept *)
  find_intercepts_b [[1; 2]; [2; 3]]%Q [0; 0]%Q [9; 9]%Q [4; 4]%Q = (BGuard, [4; 4]%Q) /\
  (* intercept beyond the worst point *)
  find_intercepts_b [[4; 1]; [1; 4]]%Q [0; 0]%Q [4; 4]%Q [3; 3]%Q = (BGuard, [3; 3]%Q).
Proof. vm_compute. repeat split; reflexivity. Qed.
