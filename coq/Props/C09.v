(* Property C09 — theorems only.  Model: Model/C09_SeqOps.v *)
From Coq Require Import List ZArith QArith Bool Permutation.
From DV Require Import Base.PyList Base.C09_Lists Model.C09_SeqOps Proofs.C09_SeqOps.
Import ListNotations.
Local Open Scope Z_scope.

Theorem C09_flip_gene_truthy : forall g, truthy (flip_gene g) = negb (truthy g).
Proof. exact flip_gene_truthy. Qed.
Print Assumptions C09_flip_gene_truthy.
