(* Property C07 -- tie (T): the C07 theorems restated on the definitions regenerated on THIS run from the
   source text of deap/tools/emo.py (coq/Gen/C07_gen.v, written by harness/c07_py2coq.py; `gen_f` is the
   translation of the current body of f, or an alias of the model when the translator refused f -- see the
   header of Gen/C07_gen.v and the evidence notes). *)
From Coq Require Import List ZArith QArith Bool.
From DV Require Import Base.PyList Base.C07_Num Model.C07_Spea2 Model.C07_RefPoints Model.C07_GenRt Gen.C07_gen
                       Proofs.C07_SelectGen Proofs.C07_Spea2 Proofs.C07_RefPoints Proofs.C07_gen_equiv.
Import ListNotations.
Local Open Scope nat_scope.

(* the regenerated definitions are the model, for every numeric instance, every argument and every draw list *)
Theorem C07_gen_source_is_model :
  (forall {T} (Op : numops T) arr b e, gen_partition Op arr b e = partition Op arr b e) /\
  (forall {T} (Op : numops T) arr b e ds,
     gen_randomizedPartition Op arr b e ds = let '(r, ds') := randint b e ds in (rand_partition Op arr b e r, ds')) /\
  (forall {T} (Op : numops T) fuel arr b e i ds,
     gen_randomizedSelect Op fuel arr b e i ds = rand_select Op fuel arr b e i ds) /\
  (forall {T} (Op : numops T) inds k ds, values_same_length inds ->
     gen_selSPEA2 Op inds k ds = spea2 Op (map fst inds) (map snd inds) k ds) /\
  (forall {T} (Op : numops T) nobj p sc, 1 <= nobj ->
     gen_uniform_reference_points Op (Z.of_nat nobj) (Z.of_nat p) sc = ref_points Op nobj p sc).
Proof. exact source_is_model. Qed.
Print Assumptions C07_gen_source_is_model.

(* _partition as written now is a Hoare partition: for any strict weak order <, any array and segment 0 <= b < e < len:
   same length, every count over [b,e] preserved (a permutation of the segment), nothing outside [b,e] touched,
   b <= q < e, and every element of [b,q] is <= every element of [q+1,e] *)
Theorem C07_gen_partition_post : forall {T} (Op : numops T),
  (forall x, n_ltb Op x x = false) ->
  (forall x y z, n_ltb Op x y = true -> n_ltb Op y z = true -> n_ltb Op x z = true) ->
  (forall x y z, n_ltb Op x y = false -> n_ltb Op y z = false -> n_ltb Op x z = false) ->
  forall arr b e, (0 <= b)%Z -> (b < e)%Z -> (e < Z.of_nat (length arr))%Z ->
  let '(arr', q) := gen_partition Op arr b e in ppost Op arr b e arr' q.
Proof. intros T Op H1 H2 H3. exact (gen_partition_post Op H1 H2 H3). Qed.
Print Assumptions C07_gen_partition_post.

(* C07_rand_select_rank on the regenerated _randomizedSelect (which calls the regenerated _randomizedPartition /
   _partition): the value returned has rank i, for every sequence of in-range pivot draws *)
Theorem C07_gen_rand_select_rank : forall {T} (Op : numops T),
  (forall x, n_ltb Op x x = false) ->
  (forall x y z, n_ltb Op x y = true -> n_ltb Op y z = true -> n_ltb Op x z = true) ->
  (forall x y z, n_ltb Op x y = false -> n_ltb Op y z = false -> n_ltb Op x z = false) ->
  forall fuel arr b e i draws,
  (0 <= b)%Z -> (b <= e)%Z -> (e < Z.of_nat (length arr))%Z -> (0 <= i <= e - b)%Z -> (e - b + 1 <= Z.of_nat fuel)%Z ->
  draws_valid Op fuel arr b e i draws = true ->
  rank_ok Op arr b e i (fst (gen_randomizedSelect Op fuel arr b e i draws)).
Proof. intros T Op H1 H2 H3. exact (gen_rand_select_rank Op H1 H2 H3). Qed.
Print Assumptions C07_gen_rand_select_rank.

(* C07_rand_select_is_kth on the regenerated definition (exact instance) *)
Theorem C07_gen_rand_select_is_kth : forall (arr : list qx) (i : Z) draws,
  (0 <= i < Z.of_nat (length arr))%Z ->
  draws_valid qx_ops (S (length arr)) arr 0 (Z.of_nat (length arr) - 1) i draws = true ->
  let v := fst (gen_randomizedSelect qx_ops (S (length arr)) arr 0 (Z.of_nat (length arr) - 1) i draws) in
  qx_ltb (kth_smallest qx_ops arr i) v = false /\ qx_ltb v (kth_smallest qx_ops arr i) = false.
Proof. exact gen_rand_select_is_kth. Qed.
Print Assumptions C07_gen_rand_select_is_kth.

(* C07_spea2_generic on the regenerated selSPEA2 (an individual is the pair (fitness.values, fitness.wvalues), the result is
   the list of chosen indices; values_same_length: all individuals have the same number of fitness values):
   exactly k distinct input individuals; all non-dominated ones when there are at most k,
   only non-dominated ones when there are at least k; for every numeric instance with asymmetric <, all draws *)
Theorem C07_gen_spea2_generic : forall {T} (Op : numops T),
  (forall x y, n_ltb Op x y = true -> n_ltb Op y x = false) ->
  forall (inds : list (list T * list T)) k draws, values_same_length inds -> dist_ok Op (map fst inds) ->
  1 <= k <= length inds ->
  let wvals := map snd inds in
  let r := fst (gen_selSPEA2 Op inds k draws) in
  length r = k /\ NoDup r /\ (forall i, In i r -> i < length inds) /\
  (length (nd_list Op wvals) <= k -> incl (nd_list Op wvals) r) /\
  (k <= length (nd_list Op wvals) -> incl r (nd_list Op wvals)).
Proof. intros T Op H. exact (gen_spea2_spec Op H). Qed.
Print Assumptions C07_gen_spea2_generic.

(* C07_spea2_size_refs / _all_nd_when_few / _only_nd_when_many on the regenerated selSPEA2: exact instance, finite values *)
Theorem C07_gen_spea2_exact : forall (vq : list (list Q)) (wvals : list (list qx)) k draws,
  (forall a b, In a vq -> In b vq -> length a = length b) ->
  length vq = length wvals -> 1 <= k <= length wvals ->
  let r := fst (gen_selSPEA2 qx_ops (combine (map (map QF) vq) wvals) k draws) in
  length r = k /\ NoDup r /\ (forall i, In i r -> i < length wvals) /\
  (length (nd_list qx_ops wvals) <= k -> incl (nd_list qx_ops wvals) r) /\
  (k <= length (nd_list qx_ops wvals) -> incl r (nd_list qx_ops wvals)).
Proof. exact gen_spea2_exact. Qed.
Print Assumptions C07_gen_spea2_exact.

(* reference points: the regenerated uniform_reference_points over exact rationals
   (gen_ref_points_q nobj p sc = gen_uniform_reference_points q_ops nobj p sc): C(nobj+p-1, p) points *)
Theorem C07_gen_ref_points_count : forall nobj p sc, 1 <= nobj ->
  length (gen_ref_points_q nobj p sc) = binom (nobj + p - 1) p.
Proof. exact gen_ref_points_count. Qed.
Print Assumptions C07_gen_ref_points_count.

(* every point has nobj non-negative coordinates that sum to 1 (with or without scaling 0 <= s <= 1) *)
Theorem C07_gen_ref_points_rows : forall nobj p sc row, 1 <= nobj -> 1 <= p ->
  match sc with Some s => (0 <= s)%Q /\ (s <= 1)%Q | None => True end ->
  In row (gen_ref_points_q nobj p sc) ->
  length row = nobj /\ Forall (fun x => (0 <= x)%Q) row /\ (qsum row == 1)%Q.
Proof. exact gen_ref_points_rows. Qed.
Print Assumptions C07_gen_ref_points_rows.

(* the points are pairwise distinct (scaling s <> 0) *)
Theorem C07_gen_ref_points_distinct : forall nobj p sc i j, 1 <= nobj -> 1 <= p ->
  match sc with Some s => ~ (s == 0)%Q | None => True end ->
  let pts := gen_ref_points_q nobj p sc in
  i < length pts -> j < length pts -> i <> j -> ~ Forall2 Qeq (nth i pts []) (nth j pts []).
Proof. exact gen_ref_points_distinct. Qed.
Print Assumptions C07_gen_ref_points_distinct.

(* non-vacuity: the regenerated _randomizedSelect evaluated on a valid pivot sequence *)
Example C07_gen_select_example :
  let arr := [QF 2; QF 0; QF 1; QF 1; QF 0]%Q in
  qx_eqb (fst (gen_randomizedSelect qx_ops 6 arr 0%Z 4%Z 2%Z [3; 0; 2; 2]%Z)) (QF 1) = true.
Proof. vm_compute. reflexivity. Qed.

Example C07_gen_refs_example :
  gen_ref_points_q 3 2 None = map (map (fun i => Qred (inject_Z (Z.of_nat i) / 2))) [[0; 0; 2]; [0; 1; 1]; [0; 2; 0]; [1; 0; 1]; [1; 1; 0]; [2; 0; 0]].
Proof. vm_compute. reflexivity. Qed.
