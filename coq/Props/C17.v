(* Property C17 — theorems only.  Model: Model/C17_Repro.v; proofs: Proofs/C17_Repro.v.

   FULL STATEMENT (properties.jsonl): with the Python and numpy generators seeded identically an evolution
   built from the library's operators and loops produces identical populations, archives and logbooks every
   time, also in a fresh interpreter; if population, archive, logbook, strategy object and both generator
   states are pickled at the end of ANY generation and the process is killed, a new process that restores
   them and continues reaches exactly the same final state; replacing toolbox.map by ANY order-preserving
   parallel map gives the same results whatever the order and timing in which workers finish — for every
   seed, every algorithm family, every k, every pickle protocol, every completion order over 1..8 workers.

   WHAT IS PROVED (all theorems below are therefore named ..._partial): the statement for the executable model
   — a run is a fold of `step` over an explicit state record; `save`/`restore` is a real token codec of that
   record; `pmap` gathers completion events by index.  For every parameter set, draw stream, population,
   split point and fair schedule.
   WHAT IS MISSING and cannot be exhibited by any theorem about the model: that in CPython the pickled
   dictionary really is ALL the state (no hidden module state; complete pickling of HallOfFame key lists,
   Logbook buffers/chapters, strategy matrices, ephemeral classes, NSGA-III memory; no dependence on set
   iteration order or object addresses), and that multiprocessing/concurrent.futures maps are order
   preserving.  That part is exhibited on real DEAP by harness/c17.py (fresh-process fingerprints for the
   eight families); the model is tied to DEAP only for the GA family `modelga` (Corr/C17.v). *)
From Coq Require Import List ZArith Bool Permutation.
From DV Require Import Base.PyTuple Base.C17_Codec Model.C17_Repro Proofs.C17_Repro.
Import ListNotations.
Local Open Scope Z_scope.

(* --- checkpoint codec: restore o save = id on the whole record, and nothing else parses ------------- *)
Theorem C17_restore_save_partial : forall s : state, restore (save s) = Some s.
Proof. exact restore_save. Qed.
Print Assumptions C17_restore_save_partial.

Theorem C17_save_injective_partial : forall s1 s2 : state, save s1 = save s2 -> s1 = s2.
Proof. exact save_injective. Qed.
Print Assumptions C17_save_injective_partial.

Theorem C17_restore_only_saved_partial : forall t s, restore t = Some s -> t = save s.
Proof. exact restore_only_saved. Qed.
Print Assumptions C17_restore_only_saved_partial.

(* --- resumable from any checkpoint: every split point g1 ++ g2 (every crash point) -------------------- *)
Theorem C17_resume_any_k_partial : forall (P : params) (sch : schedule) (g1 g2 : list genop) (s : state),
  option_map (run (step P sch) g2) (restore (save (run (step P sch) g1 s)))
  = Some (run (step P sch) (g1 ++ g2) s).
Proof. exact resume_any_k. Qed.
Print Assumptions C17_resume_any_k_partial.

(* the resumed process goes through exactly the remaining boundaries of the uninterrupted run *)
Theorem C17_resume_trace_partial : forall (P : params) (sch : schedule) (g1 g2 : list genop) (s : state),
  option_map (trace (step P sch) g2) (restore (save (run (step P sch) g1 s)))
  = Some (skipn (length g1) (trace (step P sch) (g1 ++ g2) s)).
Proof. exact resume_trace. Qed.
Print Assumptions C17_resume_trace_partial.

(* abstractly: for ANY state type, step function and codec with restore o save = id *)
Theorem C17_resume_generic_partial :
  forall (state gen : Type) (stp : gen -> state -> state) (sv : state -> list Z) (rs : list Z -> option state),
  (forall s, rs (sv s) = Some s) ->
  forall g1 g2 s, option_map (run stp g2) (rs (sv (run stp g1 s))) = Some (run stp (g1 ++ g2) s).
Proof. exact p_resume_generic_partial. Qed.
Print Assumptions C17_resume_generic_partial.

(* --- map-schedule independence --------------------------------------------------------------------------- *)
Theorem C17_pmap_schedule_independent_partial :
  forall (A B : Type) (f : A -> B) (sched : list nat) (xs : list A),
  Permutation sched (seq 0 (length xs)) -> pmap sched f xs = map (fun x => Some (f x)) xs.
Proof. exact @pmap_schedule_independent. Qed.
Print Assumptions C17_pmap_schedule_independent_partial.

(* the decidable test the correspondence applies to every OBSERVED completion order is sufficient *)
Theorem C17_pmap_observed_order_partial :
  forall (A B : Type) (f : A -> B) (sched : list nat) (xs : list A),
  is_perm_of_seq sched (length xs) = true -> pmap sched f xs = map (fun x => Some (f x)) xs.
Proof. exact p_pmap_observed_order_partial. Qed.
Print Assumptions C17_pmap_observed_order_partial.

(* any number of workers, any task durations *)
Theorem C17_pmap_pool_partial :
  forall (A B : Type) (f : A -> B) (w : nat) (delays : list Z) (xs : list A),
  length delays = length xs ->
  pmap (completion_order w delays) f xs = map (fun x => Some (f x)) xs.
Proof. exact p_pmap_pool_partial. Qed.
Print Assumptions C17_pmap_pool_partial.

(* whole runs: any two fair schedules (each generation's completion order a permutation of its tasks) *)
Theorem C17_run_schedule_independent_partial : forall P sch1 sch2 gs s,
  fair sch1 -> fair sch2 ->
  run (step P sch1) gs s = run (step P sch2) gs s /\ trace (step P sch1) gs s = trace (step P sch2) gs s.
Proof. exact p_run_schedule_independent_partial. Qed.
Print Assumptions C17_run_schedule_independent_partial.

Theorem C17_run_pool_partial : forall P (w : Z -> nat) (delays : Z -> nat -> list Z) gs s,
  run (step P (pool_schedule w delays)) gs s = run (step P serial) gs s.
Proof. exact p_run_pool_partial. Qed.
Print Assumptions C17_run_pool_partial.

(* --- determinism: the saved record is all a run depends on ------------------------------------------------ *)
Theorem C17_run_deterministic_partial : forall P sch gs s1 s2,
  save s1 = save s2 -> save (run (step P sch) gs s1) = save (run (step P sch) gs s2).
Proof. exact run_deterministic. Qed.
Print Assumptions C17_run_deterministic_partial.

(* --- generator accounting of the modelled GA --------------------------------------------------------------- *)
Theorem C17_step_generators_partial : forall P sch op s,
  st_cur s <= st_cur (step P sch op s) /\ st_npcur (step P sch op s) = st_npcur s.
Proof. exact p_step_generators_partial. Qed.
Print Assumptions C17_step_generators_partial.

(* --- at every checkpoint the hall of fame's key list is the reversed fitness list of its items: the two pickled
   lists are consistent in every reachable state (losing either one breaks bisect_right after a resume) ------- *)
Theorem C17_hof_keys_consistent_partial : forall P sch gs pop0 hofmax,
  let s := run (step P sch) gs (init_state pop0 hofmax) in
  hof_keys (st_hof s) = rev (map fitw (hof_items (st_hof s))).
Proof. exact p_hof_keys_consistent_partial. Qed.
Print Assumptions C17_hof_keys_consistent_partial.

(* --- the logbook at every checkpoint: one record per generation operation, every record streamed (buffindex =
   number of records), both chapters aligned with the main record list and never streamed themselves ---------- *)
Theorem C17_logbook_aligned_partial : forall P sch gs pop0 hofmax,
  let lg := st_log (run (step P sch) gs (init_state pop0 hofmax)) in
  length (lb_recs lg) = length gs /\
  lb_buff lg = Z.of_nat (length gs) /\
  Forall (fun c => length (sl_recs (snd c)) = length gs /\ sl_buff (snd c) = 0) (lb_chapters lg).
Proof. exact p_logbook_aligned_partial. Qed.
Print Assumptions C17_logbook_aligned_partial.

(* --- non-vacuity ---------------------------------------------------------------------------------------------- *)
Definition exP : params :=
  mkparams 2 (1, 2) (1, 2) (1, 4) [1] 0 5 3
    [3000000000; 1; 7; 2; 9; 4; 100; 3; 4000000000; 5; 6; 1000000000; 8; 2000000000; 11; 3; 3500000000; 2; 1; 0;
     12; 500000000; 9; 7; 4100000000; 5; 3; 1; 2; 8; 1200000000; 6; 4; 2; 900000000; 10; 1; 3; 5; 7].
Definition exS : state := init_state [[true; false; false]; [false; true; true]; [false; false; false]; [true; true; false]] 2.

(* the resumed run really passes through save/restore and a non-trivial state: the hall of fame is full, the
   logbook has chapters, the cursor has moved *)
Example C17_example_resume :
  let s1 := run (step exP serial) (gens_upto 1) exS in
  length (hof_items (st_hof s1)) = 2%nat /\ length (lb_chapters (st_log s1)) = 2%nat /\ 0 < st_cur s1 /\
  Z.of_nat (length (save s1)) > 60 /\
  option_map (run (step exP serial) [GGen 2; GGen 3]) (restore (save s1))
  = Some (run (step exP serial) (gens_upto 3) exS).
Proof. vm_compute. repeat split; reflexivity. Qed.

(* the same for the (mu+lambda) and (mu,lambda) shapes (algorithms.varOr), resumed after a varOr generation *)
Example C17_example_resume_varor :
  let s1 := run (step exP serial) [GInit; GPlus 1] exS in
  length (st_pop s1) = 3%nat /\ 0 < st_cur s1 /\
  option_map (run (step exP serial) [GComma 2; GPlus 3]) (restore (save s1))
  = Some (run (step exP serial) [GInit; GPlus 1; GComma 2; GPlus 3] exS).
Proof. vm_compute. repeat split; reflexivity. Qed.

(* a schedule that is not the submission order; gathering in completion order would be wrong *)
Example C17_example_pmap :
  pmap [2; 0; 1]%nat (fun x => x * x) [3; 4; 5] = [Some 9; Some 16; Some 25] /\
  pmap_completion_order [2; 0; 1]%nat (fun x => x * x) [3; 4; 5] = [Some 25; Some 9; Some 16] /\
  completion_order 2 [5; 1; 1; 1] = [1; 2; 3; 0]%nat.
Proof. vm_compute. repeat split; reflexivity. Qed.

(* the contrast case: gathering in completion order is NOT schedule independent *)
Theorem C17_completion_order_gather_refuted :
  exists (s1 s2 : list nat) (xs : list Z),
    Permutation s1 (seq 0 (length xs)) /\ Permutation s2 (seq 0 (length xs)) /\
    pmap_completion_order s1 (fun x => x) xs <> pmap_completion_order s2 (fun x => x) xs.
Proof. exact p_completion_order_gather_refuted. Qed.
Print Assumptions C17_completion_order_gather_refuted.
