(* Property C05 — theorems only.  Model: Model/C05_Nsga2.v (deap/tools/emo.py). *)
From Coq Require Import List ZArith QArith Bool.
From DV Require Import Base.PyList Model.C05_Nsga2 Model.C05_Spec Proofs.C05_Nsga2.
Import ListNotations.

Theorem C05_sel_some : forall o fronts k, fronts <> [] -> exists r, sel_nsga2 o fronts k = Some r.
Proof. exact sel_some. Qed.
Print Assumptions C05_sel_some.
