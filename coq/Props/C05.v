(* Property C05 — theorems only.
   Model: Model/C05_Nsga2.v (deap/tools/emo.py: selNSGA2 after the sort, assignCrowdingDist),
   generic in the arithmetic `o` (IEEE floats / exact rationals).
   Specification: Model/C05_Spec.v (dominance depth by peeling; fronts_correct = what the
   non-dominated sorter is assumed to return; decided in Coq on the implementation's fronts in
   every correspondence case).
   Second half (theorems named C05_full_...): the same clauses for Model/C05_Full.v, sel_nsga2_full o nd pop k =
   selNSGA2(individuals, k, nd) INCLUDING the non-dominated sort (property C04's models of
   sortNondominated / sortLogNondominated); the hypothesis fronts_correct is proved there
   (C05_full_fronts_correct), not assumed. *)
From Coq Require Import List ZArith QArith Bool.
From DV Require Import Base.PyList Model.C05_Nsga2 Model.C05_Spec Model.C05_CrowdSpec Model.C05_SortStd
     Proofs.C05_Spec Proofs.C05_Nsga2 Proofs.C05_QInst Proofs.C05_Crowding
     Proofs.C05_CutFront Proofs.C05_Depth Proofs.C05_Extremes Proofs.C05_FloatOrd Proofs.C05_All Proofs.C05_Final
     Model.C05_Full Proofs.C05_Compose Proofs.C05_FullClauses.
From DV Require Model.C04_NDSort Model.C04_LogSort.
Import ListNotations.
Local Open Scope nat_scope.

(* selNSGA2 does not fail (pareto_fronts[-1] exists whenever it is read) *)
Theorem C05_nsga2_defined : forall o (pop : list (ind (V o))) k fronts,
  fronts_correct pop k fronts -> exists r, sel_nsga2 o fronts k = Some r.
Proof. exact nsga2_defined. Qed.
Print Assumptions C05_nsga2_defined.

(* exactly min(k, n) individuals *)
Theorem C05_nsga2_size : forall o (pop : list (ind (V o))) k fronts r,
  fronts_correct pop k fronts -> sel_nsga2 o fronts k = Some r ->
  length r = Nat.min k (length pop).
Proof. exact size_min. Qed.
Print Assumptions C05_nsga2_size.

(* each of them one of the input objects, none twice *)
Theorem C05_nsga2_refs_nodup : forall o (pop : list (ind (V o))) k fronts r,
  wf_pop pop -> fronts_correct pop k fronts -> sel_nsga2 o fronts k = Some r ->
  (forall x, In x r -> In x pop) /\ NoDup (uids r).
Proof. exact refs_nodup. Qed.
Print Assumptions C05_nsga2_refs_nodup.

(* no individual left out belongs to a strictly better front than a selected one *)
Theorem C05_nsga2_front_priority : forall o (pop : list (ind (V o))) k fronts r,
  fronts_correct pop k fronts -> sel_nsga2 o fronts k = Some r ->
  forall x y, In x r -> In y pop -> ~ In (uid y) (uids r) -> depth pop x <= depth pop y.
Proof. exact front_priority. Qed.
Print Assumptions C05_nsga2_front_priority.

(* only one front is taken partially: every front better than some depth c is taken whole,
   every worse front not at all *)
Theorem C05_nsga2_one_partial_front : forall o (pop : list (ind (V o))) k fronts r,
  fronts_correct pop k fronts -> sel_nsga2 o fronts k = Some r ->
  exists c, forall y, In y pop ->
    (depth pop y < c -> In (uid y) (uids r)) /\ (c < depth pop y -> ~ In (uid y) (uids r)).
Proof. exact one_partial_front. Qed.
Print Assumptions C05_nsga2_one_partial_front.

(* inside the cut front (the last front handed over by the sorter) every kept individual has a
   crowding distance at least as large as every dropped one.
   Generic form: for any arithmetic whose `<` on distances is a strict weak order on a set P
   containing the distances of that front (all floats except NaN, for instance). *)
Theorem C05_nsga2_crowding_cut_generic : forall o (pop : list (ind (V o))) k fronts r,
  wf_pop pop -> fronts_correct pop k fronts -> sel_nsga2 o fronts k = Some r ->
  forall P : D o -> Prop,
  (forall a b, P a -> P b -> dltb o a b = true -> dltb o b a = false) ->
  (forall a b c, P a -> P b -> P c -> dltb o b a = false -> dltb o c b = false -> dltb o c a = false) ->
  forall lastf, lastf = last fronts [] -> Forall P (assign_crowding o lastf) ->
  forall x dx y dy,
    In (x, dx) (combine lastf (assign_crowding o lastf)) ->
    In (y, dy) (combine lastf (assign_crowding o lastf)) ->
    In (uid x) (uids r) -> ~ In (uid y) (uids r) -> dltb o dx dy = false.
Proof. exact crowding_cut. Qed.
Print Assumptions C05_nsga2_crowding_cut_generic.

(* the exact-rational instance, no side condition: kept >= dropped *)
Theorem C05_nsga2_crowding_cut : forall (pop : list (ind Q)) k fronts r,
  wf_pop pop -> fronts_correct pop k fronts -> sel_nsga2 q_ops fronts k = Some r ->
  forall lastf, lastf = last fronts [] ->
  forall x dx y dy,
    In (x, dx) (combine lastf (assign_crowding q_ops lastf)) ->
    In (y, dy) (combine lastf (assign_crowding q_ops lastf)) ->
    In (uid x) (uids r) -> ~ In (uid y) (uids r) -> qinf_ge dx dy.
Proof. exact crowding_cut_q. Qed.
Print Assumptions C05_nsga2_crowding_cut.

(* the IEEE-float instance (the one compared bit for bit with CPython): same statement, provided
   no distance of the cut front is NaN.  Uses the standard library's float specification axioms. *)
Theorem C05_nsga2_crowding_cut_float : forall (pop : list (ind PrimFloat.float)) k fronts r,
  wf_pop pop -> fronts_correct pop k fronts -> sel_nsga2 f_ops fronts k = Some r ->
  forall lastf, lastf = last fronts [] ->
  Forall (fun d => PrimFloat.is_nan d = false) (assign_crowding f_ops lastf) ->
  forall x dx y dy,
    In (x, dx) (combine lastf (assign_crowding f_ops lastf)) ->
    In (y, dy) (combine lastf (assign_crowding f_ops lastf)) ->
    In (uid x) (uids r) -> ~ In (uid y) (uids r) -> PrimFloat.ltb dx dy = false.
Proof. exact crowding_cut_float. Qed.
Print Assumptions C05_nsga2_crowding_cut_float.

(* k >= n: the whole population comes back (docstring: "no effect other than sorting the
   population according to their front rank") and, for any k, depths never decrease along the result *)
Theorem C05_nsga2_all_when_k_ge_n : forall o (pop : list (ind (V o))) k fronts r,
  wf_pop pop -> fronts_correct pop k fronts -> sel_nsga2 o fronts k = Some r ->
  length pop <= k -> Permutation.Permutation (uids r) (uids pop).
Proof. exact all_when_k_ge_n. Qed.
Print Assumptions C05_nsga2_all_when_k_ge_n.

Theorem C05_nsga2_rank_ordered : forall o (pop : list (ind (V o))) k fronts r,
  wf_pop pop -> fronts_correct pop k fronts -> sel_nsga2 o fronts k = Some r ->
  Sorting.Sorted.StronglySorted (fun x y => depth pop x <= depth pop y) r.
Proof. exact rank_ordered. Qed.
Print Assumptions C05_nsga2_rank_ordered.

(* the cut front is exactly one depth class of the population (so "within the cut front" in the
   theorems above means: among the individuals of that depth) *)
Theorem C05_cut_front_is_depth_class : forall o (pop : list (ind (V o))) k fronts r,
  wf_pop pop -> fronts_correct pop k fronts -> sel_nsga2 o fronts k = Some r -> 0 < k ->
  exists m, forall y, In y pop -> (In (uid y) (uids (last fronts [])) <-> depth pop y = m).
Proof. exact cut_front_depth. Qed.
Print Assumptions C05_cut_front_is_depth_class.

(* `depth` (peeling) is the dominance depth: dominators are strictly shallower, and an
   individual of depth d+1 has a dominator of depth exactly d *)
Theorem C05_depth_is_dominance_depth : forall (A : Type) (pop : list (ind A)), wf_pop pop ->
  (forall x y, In x pop -> In y pop -> dom (wv y) (wv x) = true -> depth pop y < depth pop x) /\
  (forall x d, In x pop -> depth pop x = S d ->
     exists y, In y pop /\ dom (wv y) (wv x) = true /\ depth pop y = d).
Proof. exact depth_dominance. Qed.
Print Assumptions C05_depth_is_dominance_depth.

Theorem C05_dom_spec : forall a b : list Z, dom a b = true <->
  length a = length b /\ Forall (fun p => (snd p <= fst p)%Z) (zip a b) /\ Exists (fun p => (snd p < fst p)%Z) (zip a b).
Proof. exact dom_spec. Qed.
Print Assumptions C05_dom_spec.

(* ties allowed: in every objective an individual with the smallest and one with the largest
   value of the front gets an infinite distance *)
Theorem C05_crowding_extremes_inf : forall (front : list (ind Q)) (i : nat),
  front <> [] -> i < front_nobj front ->
  (exists j, j < length front /\ (nth j (vcol i front) 0 == lmin (vcol i front))%Q /\
             nth j (assign_crowding q_ops front) Inf = Inf) /\
  (exists j, j < length front /\ (nth j (vcol i front) 0 == lmax (vcol i front))%Q /\
             nth j (assign_crowding q_ops front) Inf = Inf).
Proof. exact crowding_extremes_inf. Qed.
Print Assumptions C05_crowding_extremes_inf.

(* crowding distance = the formula: for a front whose values are pairwise distinct in every
   objective, individual j gets infinity if it is the smallest or largest in some objective, and
   otherwise the sum over objectives of (next larger value - next smaller value) / (nobj * (max - min)).
   crowd_spec (Model/C05_CrowdSpec.v) is written with list minima/maxima only, no sorting. *)
Theorem C05_crowding_formula : forall (front : list (ind Q)) (j : nat),
  (forall i, i < front_nobj front -> distinct_col (vcol i front)) ->
  j < length front ->
  qinf_eq (nth j (assign_crowding q_ops front) Inf) (crowd_spec front j).
Proof. exact crowding_formula. Qed.
Print Assumptions C05_crowding_formula.

(* the list minimum / maximum used by crowd_spec are what their names say *)
Theorem C05_lmin_lmax_spec : forall l : list Q, l <> [] ->
  In (lmin l) l /\ In (lmax l) l /\ forall w, In w l -> (lmin l <= w)%Q /\ (w <= lmax l)%Q.
Proof. exact lmin_lmax_spec. Qed.
Print Assumptions C05_lmin_lmax_spec.

(* one distance per individual *)
Theorem C05_crowding_length : forall o (front : list (ind (V o))),
  length (assign_crowding o front) = length front.
Proof. exact assign_crowding_length. Qed.
Print Assumptions C05_crowding_length.

(* the hypothesis is decidable and the decision procedure run by the correspondence check on the
   fronts returned by the implementation's sorter is sound *)
Theorem C05_fronts_correct_decided : forall (A : Type) (pop : list (ind A)) k fu,
  wf_pop_b pop = true -> fronts_correct_b pop k fu = true ->
  wf_pop pop /\ fronts_correct pop k (map (select pop) fu).
Proof. exact fronts_correct_decided. Qed.
Print Assumptions C05_fronts_correct_decided.

(* the peeling layers partition the population (every individual has a depth) *)
Theorem C05_layers_partition : forall (A : Type) (pop : list (ind A)),
  Permutation.Permutation (concat (layers pop)) pop /\
  (wf_pop pop -> forall x, In x pop -> depth pop x < length (layers pop)).
Proof. exact layers_partition. Qed.
Print Assumptions C05_layers_partition.

(* non-vacuity: a population, the fronts a correct sorter returns for k = 2, and the selection *)
Definition ex_pop : list (ind Q) :=
  [mkind 0 [0; 2]%Z [0; 2]%Q; mkind 1 [1; 1]%Z [1; 1]%Q; mkind 2 [2; 0]%Z [2; 0]%Q; mkind 3 [0; 0]%Z [0; 0]%Q].
Example C05_nonvacuous :
  wf_pop_b ex_pop = true /\ fronts_correct_b ex_pop 2 [[2; 0; 1]] = true /\
  fronts_correct_b ex_pop 4 [[0; 1; 2]; [3]] = true /\
  option_map uids (sel_nsga2 q_ops (map (select ex_pop) [[2; 0; 1]]) 2) = Some [2; 0] /\
  assign_crowding q_ops (select ex_pop [2; 0; 1]) = [Inf; Inf; Fin 1].
Proof. vm_compute. repeat split. Qed.

(* end to end for nd='standard' on the same population: the transcribed sorter's fronts satisfy the
   hypothesis, and the selection follows *)
Example C05_std_end_to_end :
  option_map (map uids) (sort_nd ex_pop 2) = Some [[0; 1; 2]] /\
  fronts_correct_b ex_pop 2 [[0; 1; 2]] = true /\
  option_map uids (sel_nsga2_std q_ops ex_pop 2) = Some [0; 2] /\
  option_map uids (sel_nsga2_std q_ops ex_pop 7) = Some [0; 1; 2; 3].
Proof. vm_compute. repeat split. Qed.

(* non-vacuity of crowding_formula: a 4-point front, distinct per objective; the interior points
   get (3-0)/(2*4) + (5-1)/(2*5) = 31/40 and (4-1)/(2*4) + (2-0)/(2*5) = 23/40 *)
Definition ex_front : list (ind Q) :=
  [mkind 0 [] [0; 5]%Q; mkind 1 [] [1; 2]%Q; mkind 2 [] [3; 1#1]%Q; mkind 3 [] [4; 0]%Q].
Definition qinf_red (a : qinf) : qinf := match a with Fin q => Fin (Qred q) | Inf => Inf end.
Example C05_formula_nonvacuous :
  map (fun j => qinf_red (crowd_spec ex_front j)) [0; 1; 2; 3] = [Inf; Fin (31 # 40); Fin (23 # 40); Inf] /\
  assign_crowding q_ops ex_front = [Inf; Fin (31 # 40); Fin (23 # 40); Inf].
Proof. vm_compute. split; reflexivity. Qed.

(* ==========================================================================================
   End to end: sel_nsga2_full o nd pop k (Model/C05_Full.v) = selNSGA2(individuals, k, nd) with the
   sort inside the model.  No hypothesis about the fronts.  Preconditions:
     pop_ok pop : individuals numbered by position, population non-empty, one number of objectives;
     nd_ok nd pop : nd is 'standard' or 'log'; for 'log' every individual has >= 2 objectives.
   ========================================================================================== *)

(* the hypothesis of the first half, proved: for either back-end the sort returns (never runs out of
   fuel, never raises) and its fronts are the peeling layers cut at the first prefix reaching min(k, n) *)
Theorem C05_full_fronts_correct : forall (A : Type) nd (pop : list (ind A)) k,
  pop_ok pop -> nd_ok nd pop ->
  exists fronts, nd_fronts nd pop k = Some fronts /\ fronts_correct pop k fronts.
Proof. exact (@nd_fronts_correct). Qed.
Print Assumptions C05_full_fronts_correct.

(* C05's specification of the fronts is C04's: the peeling layers are C04's spec_fronts of the same
   population (same order of fronts and inside fronts), and C05's dominance is Fitness.dominates as
   modelled by C01/C04 on tuples of equal length *)
Theorem C05_layers_are_C04_spec_fronts : forall (A : Type) (pop : list (ind A)),
  (forall x y, In x pop -> In y pop -> length (wv x) = length (wv y)) ->
  map (map to4) (layers pop) = C04_NDSort.spec_fronts (pop4 pop).
Proof. exact (@layers_spec). Qed.
Print Assumptions C05_layers_are_C04_spec_fronts.

Theorem C05_dom_is_C04_dominates : forall a b : list Z,
  length a = length b -> dom a b = C04_NDSort.nd_dom a b.
Proof. exact dom_nd_dom. Qed.
Print Assumptions C05_dom_is_C04_dominates.

(* selNSGA2 returns (no exception) *)
Theorem C05_full_defined : forall o nd (pop : list (ind (V o))) k,
  pop_ok pop -> nd_ok nd pop -> exists r, sel_nsga2_full o nd pop k = Some r.
Proof. exact full_defined. Qed.
Print Assumptions C05_full_defined.

(* exactly min(k, n) individuals *)
Theorem C05_full_size : forall o nd (pop : list (ind (V o))) k,
  pop_ok pop -> nd_ok nd pop -> forall r, sel_nsga2_full o nd pop k = Some r ->
  length r = Nat.min k (length pop).
Proof. exact full_size. Qed.
Print Assumptions C05_full_size.

(* each of them one of the input objects, none twice *)
Theorem C05_full_refs_nodup : forall o nd (pop : list (ind (V o))) k,
  pop_ok pop -> nd_ok nd pop -> forall r, sel_nsga2_full o nd pop k = Some r ->
  (forall x, In x r -> In x pop) /\ NoDup (uids r).
Proof. exact full_refs_nodup. Qed.
Print Assumptions C05_full_refs_nodup.

(* no individual left out belongs to a strictly better front than a selected one *)
Theorem C05_full_front_priority : forall o nd (pop : list (ind (V o))) k,
  pop_ok pop -> nd_ok nd pop -> forall r, sel_nsga2_full o nd pop k = Some r ->
  forall x y, In x r -> In y pop -> ~ In (uid y) (uids r) -> depth pop x <= depth pop y.
Proof. exact full_front_priority. Qed.
Print Assumptions C05_full_front_priority.

(* only one front is taken partially *)
Theorem C05_full_one_partial_front : forall o nd (pop : list (ind (V o))) k,
  pop_ok pop -> nd_ok nd pop -> forall r, sel_nsga2_full o nd pop k = Some r ->
  exists c, forall y, In y pop ->
    (depth pop y < c -> In (uid y) (uids r)) /\ (c < depth pop y -> ~ In (uid y) (uids r)).
Proof. exact full_one_partial_front. Qed.
Print Assumptions C05_full_one_partial_front.

(* ... and which one: the index m fixed by the sizes of the peeling layers (cut_at pop k m: the layers
   before m hold fewer than min(k, n) individuals, those up to m at least that many).  Nobody deeper than m
   is selected, everybody shallower is, and the last front produced by the sort is exactly depth class m. *)
Theorem C05_full_cut_explicit : forall o nd (pop : list (ind (V o))) k r,
  pop_ok pop -> nd_ok nd pop -> sel_nsga2_full o nd pop k = Some r ->
  0 < k -> forall m, cut_at pop k m ->
  (forall x, In x r -> depth pop x <= m) /\
  (forall y, In y pop -> depth pop y < m -> In (uid y) (uids r)) /\
  (forall fronts, nd_fronts nd pop k = Some fronts ->
     forall y, In y pop -> (In (uid y) (uids (last fronts [])) <-> depth pop y = m)).
Proof. exact full_cut_explicit. Qed.
Print Assumptions C05_full_cut_explicit.

Theorem C05_cut_at_exists_unique : forall (A : Type) (pop : list (ind A)) k,
  pop_ok pop -> 0 < k ->
  (exists m, cut_at pop k m) /\ (forall m1 m2, cut_at pop k m1 -> cut_at pop k m2 -> m1 = m2).
Proof. exact (fun A pop k OK K => conj (full_cut_at_exists pop k OK K) (cut_at_unique pop k)). Qed.
Print Assumptions C05_cut_at_exists_unique.

(* inside the cut front every kept individual has a crowding distance at least as large as every
   dropped one; `fronts` only names what the sort produced (nd_fronts is a function) *)
Theorem C05_full_crowding_cut_generic : forall o nd (pop : list (ind (V o))) k,
  pop_ok pop -> nd_ok nd pop -> forall r, sel_nsga2_full o nd pop k = Some r ->
  forall fronts, nd_fronts nd pop k = Some fronts ->
  forall P : D o -> Prop,
  (forall a b, P a -> P b -> dltb o a b = true -> dltb o b a = false) ->
  (forall a b c, P a -> P b -> P c -> dltb o b a = false -> dltb o c b = false -> dltb o c a = false) ->
  forall lastf, lastf = last fronts [] -> Forall P (assign_crowding o lastf) ->
  forall x dx y dy,
    In (x, dx) (combine lastf (assign_crowding o lastf)) ->
    In (y, dy) (combine lastf (assign_crowding o lastf)) ->
    In (uid x) (uids r) -> ~ In (uid y) (uids r) -> dltb o dx dy = false.
Proof. exact full_crowding_cut_generic. Qed.
Print Assumptions C05_full_crowding_cut_generic.

Theorem C05_full_crowding_cut : forall nd (pop : list (ind Q)) k r,
  pop_ok pop -> nd_ok nd pop -> sel_nsga2_full q_ops nd pop k = Some r ->
  forall fronts, nd_fronts nd pop k = Some fronts ->
  forall lastf, lastf = last fronts [] ->
  forall x dx y dy,
    In (x, dx) (combine lastf (assign_crowding q_ops lastf)) ->
    In (y, dy) (combine lastf (assign_crowding q_ops lastf)) ->
    In (uid x) (uids r) -> ~ In (uid y) (uids r) -> qinf_ge dx dy.
Proof. exact full_crowding_cut_q. Qed.
Print Assumptions C05_full_crowding_cut.

Theorem C05_full_crowding_cut_float : forall nd (pop : list (ind PrimFloat.float)) k r,
  pop_ok pop -> nd_ok nd pop -> sel_nsga2_full f_ops nd pop k = Some r ->
  forall fronts, nd_fronts nd pop k = Some fronts ->
  forall lastf, lastf = last fronts [] ->
  Forall (fun d => PrimFloat.is_nan d = false) (assign_crowding f_ops lastf) ->
  forall x dx y dy,
    In (x, dx) (combine lastf (assign_crowding f_ops lastf)) ->
    In (y, dy) (combine lastf (assign_crowding f_ops lastf)) ->
    In (uid x) (uids r) -> ~ In (uid y) (uids r) -> PrimFloat.ltb dx dy = false.
Proof. exact full_crowding_cut_float. Qed.
Print Assumptions C05_full_crowding_cut_float.

(* k >= n: the whole population, ordered by front rank; for any k depths never decrease *)
Theorem C05_full_all_when_k_ge_n : forall o nd (pop : list (ind (V o))) k,
  pop_ok pop -> nd_ok nd pop -> forall r, sel_nsga2_full o nd pop k = Some r ->
  length pop <= k -> Permutation.Permutation (uids r) (uids pop).
Proof. exact full_all_when_k_ge_n. Qed.
Print Assumptions C05_full_all_when_k_ge_n.

Theorem C05_full_rank_ordered : forall o nd (pop : list (ind (V o))) k,
  pop_ok pop -> nd_ok nd pop -> forall r, sel_nsga2_full o nd pop k = Some r ->
  Sorting.Sorted.StronglySorted (fun x y => depth pop x <= depth pop y) r.
Proof. exact full_rank_ordered. Qed.
Print Assumptions C05_full_rank_ordered.

Theorem C05_full_cut_front_is_depth_class : forall o nd (pop : list (ind (V o))) k,
  pop_ok pop -> nd_ok nd pop -> forall r, sel_nsga2_full o nd pop k = Some r ->
  forall fronts, nd_fronts nd pop k = Some fronts -> 0 < k ->
  exists m, forall y, In y pop -> (In (uid y) (uids (last fronts [])) <-> depth pop y = m).
Proof. exact full_cut_front_depth. Qed.
Print Assumptions C05_full_cut_front_is_depth_class.

(* "Both sorting back-ends give a selection satisfying the same contract": every C05_full_... theorem
   above holds for nd = NdStandard and nd = NdLog alike; moreover the two selections have the same size,
   contain the same whole fronts (one common cut depth c) and cut the same front (same set of individuals). *)
Theorem C05_full_both_backends : forall o (pop : list (ind (V o))) k,
  pop_ok pop -> (forall x, In x pop -> 2 <= length (wv x)) ->
  exists r1 r2 c,
    sel_nsga2_full o NdStandard pop k = Some r1 /\ sel_nsga2_full o NdLog pop k = Some r2 /\
    length r1 = Nat.min k (length pop) /\ length r2 = Nat.min k (length pop) /\
    (forall y, In y pop ->
       (depth pop y < c -> In (uid y) (uids r1) /\ In (uid y) (uids r2)) /\
       (c < depth pop y -> ~ In (uid y) (uids r1) /\ ~ In (uid y) (uids r2))) /\
    (0 < k -> forall f1 f2, nd_fronts NdStandard pop k = Some f1 -> nd_fronts NdLog pop k = Some f2 ->
       forall y, In y pop -> (In (uid y) (uids (last f1 [])) <-> In (uid y) (uids (last f2 [])))).
Proof. exact full_backends_agree. Qed.
Print Assumptions C05_full_both_backends.

(* outside the preconditions the model follows the code: another `nd` raises; on the empty population
   the quadratic sort returns [[]] and nothing is selected, the divide-and-conquer sort raises
   (IndexError on individuals[0]) unless k = 0 *)
Theorem C05_full_outside_preconditions : forall o (pop : list (ind (V o))) k,
  sel_nsga2_full o NdOther pop k = None /\
  sel_nsga2_full o NdStandard [] k = Some [] /\
  sel_nsga2_full o NdLog [] k = (if Nat.eqb k 0 then Some [] else None).
Proof. exact (fun o pop k => conj (full_other o pop k) (conj (full_empty_std o k) (full_empty_log o k))). Qed.
Print Assumptions C05_full_outside_preconditions.

(* the preconditions are decidable; the correspondence evaluates these on every case *)
Theorem C05_full_preconditions_decided : forall (A : Type) nd (pop : list (ind A)),
  pop_ok_b pop = true -> nd_ok_b nd pop = true -> pop_ok pop /\ nd_ok nd pop.
Proof. exact (fun A nd pop H1 H2 => conj (pop_ok_b_sound pop H1) (nd_ok_b_sound nd pop H2)). Qed.
Print Assumptions C05_full_preconditions_decided.

(* non-vacuity: the population of C05_nonvacuous meets the preconditions of both back-ends; the fronts
   the two sorters produce (different order inside the front) and the selections *)
Example C05_full_nonvacuous :
  pop_ok_b ex_pop = true /\ nd_ok_b NdStandard ex_pop = true /\ nd_ok_b NdLog ex_pop = true /\
  option_map (map uids) (nd_fronts NdStandard ex_pop 2) = Some [[0; 1; 2]] /\
  option_map (map uids) (nd_fronts NdLog ex_pop 2) = Some [[2; 1; 0]] /\
  option_map uids (sel_nsga2_full q_ops NdStandard ex_pop 2) = Some [0; 2] /\
  option_map uids (sel_nsga2_full q_ops NdLog ex_pop 2) = Some [2; 0] /\
  option_map uids (sel_nsga2_full q_ops NdLog ex_pop 7) = Some [2; 1; 0; 3] /\
  cut_at ex_pop 2 0 /\ cut_at ex_pop 7 1.
Proof. vm_compute. repeat split; auto. Qed.
