(* Property C05 -- tie (T): the definitions regenerated on this run from the source text of
   deap/tools/emo.py (coq/Gen/C05_gen.v, written by harness/c05_py2coq.py: assignCrowdingDist, selNSGA2,
   sortNondominated) compute the hand model of Model/C05_Nsga2.v / Model/C05_Full.v / Model/C04_NDSort.v,
   and the C05 theorems hold of them.

   The regenerated definitions live in the monad  M o A = cdtab o -> option (A * cdtab o)  (Model/C05_GenRt.v):
   `Some (r, t')` = the call returned r and left the attributes fitness.crowding_dist as in t'; `None` = it raised.
   Every theorem below has the form "if the regenerated function returns, then ...", for every argument and every
   initial attribute table: they are the C05 theorems re-checked against what the code says now.
   A function the translator refused is represented in Gen/C05_gen.v by the hand model itself (the harness reports
   which: `tie: correspondence-only (translator refused ...)`); for it the statements below say nothing new. *)
From Coq Require Import List ZArith QArith Bool.
From DV Require Import Base.PyList Model.C05_Nsga2 Model.C05_Spec Model.C05_CrowdSpec Model.C05_Full Model.C05_GenRt.
From DV Require Model.C04_NDSort.
From DV Require Import Gen.C05_gen Proofs.C05_gen_equiv Proofs.C05_gen_nd_equiv Proofs.C05_gen_props.
Import ListNotations.
Local Open Scope nat_scope.

(* ---- the source is the model ---- *)

(* assignCrowdingDist(individuals): whenever it returns, the attributes it has written are the model's distances,
   written along zip(individuals, distances) *)
Theorem C05_gen_assignCrowdingDist_is_model : forall o (inds : list (ind (V o))) t u t',
  gen_assignCrowdingDist o inds t = Some (u, t') -> t' = write_cd o t inds (assign_crowding o inds).
Proof. exact gen_assign_refines. Qed.
Print Assumptions C05_gen_assignCrowdingDist_is_model.

(* selNSGA2(individuals, k, nd) over any two sorting back-ends: whenever it returns, the back-end selected by nd
   returned some fronts, every front got its crowding distances, and -- provided the last front holds pairwise
   distinct objects, the hand model's assumption about attrgetter -- the result is the model's selection *)
Theorem C05_gen_selNSGA2_is_model : forall o (s_std s_log : sorter o) (inds : list (ind (V o))) (k : Z) nd t r t',
  gen_selNSGA2 o s_std s_log inds k nd t = Some (r, t') ->
  exists fronts, pick_sorter o s_std s_log nd inds k = Some fronts /\
                 t' = write_fronts o t fronts /\
                 (NoDup (uids (last fronts [])) -> sel_nsga2 o fronts (Z.to_nat k) = Some r).
Proof. exact gen_sel_refines. Qed.
Print Assumptions C05_gen_selNSGA2_is_model.

(* ---- the contract of selNSGA2, for the regenerated code over ANY back-ends meeting fronts_correct ---- *)

Theorem C05_gen_nsga2_size : forall o (s_std s_log : sorter o) (pop : list (ind (V o))) k nd t r t',
  wf_pop pop -> sorters_ok o s_std s_log nd pop k ->
  gen_selNSGA2 o s_std s_log pop (Z.of_nat k) nd t = Some (r, t') ->
  length r = Nat.min k (length pop).
Proof. exact gen_size. Qed.
Print Assumptions C05_gen_nsga2_size.

Theorem C05_gen_nsga2_refs_nodup : forall o (s_std s_log : sorter o) (pop : list (ind (V o))) k nd t r t',
  wf_pop pop -> sorters_ok o s_std s_log nd pop k ->
  gen_selNSGA2 o s_std s_log pop (Z.of_nat k) nd t = Some (r, t') ->
  (forall x, In x r -> In x pop) /\ NoDup (uids r).
Proof. exact gen_refs_nodup. Qed.
Print Assumptions C05_gen_nsga2_refs_nodup.

Theorem C05_gen_nsga2_front_priority : forall o (s_std s_log : sorter o) (pop : list (ind (V o))) k nd t r t',
  wf_pop pop -> sorters_ok o s_std s_log nd pop k ->
  gen_selNSGA2 o s_std s_log pop (Z.of_nat k) nd t = Some (r, t') ->
  forall x y, In x r -> In y pop -> ~ In (uid y) (uids r) -> depth pop x <= depth pop y.
Proof. exact gen_front_priority. Qed.
Print Assumptions C05_gen_nsga2_front_priority.

Theorem C05_gen_nsga2_one_partial_front : forall o (s_std s_log : sorter o) (pop : list (ind (V o))) k nd t r t',
  wf_pop pop -> sorters_ok o s_std s_log nd pop k ->
  gen_selNSGA2 o s_std s_log pop (Z.of_nat k) nd t = Some (r, t') ->
  exists c, forall y, In y pop ->
    (depth pop y < c -> In (uid y) (uids r)) /\ (c < depth pop y -> ~ In (uid y) (uids r)).
Proof. exact gen_one_partial_front. Qed.
Print Assumptions C05_gen_nsga2_one_partial_front.

(* the crowding clause read off the attributes the regenerated code left behind (t'), not off the model *)
Theorem C05_gen_nsga2_crowding_cut : forall o (s_std s_log : sorter o) (pop : list (ind (V o))) k nd t r t',
  wf_pop pop -> sorters_ok o s_std s_log nd pop k ->
  gen_selNSGA2 o s_std s_log pop (Z.of_nat k) nd t = Some (r, t') ->
  forall P : D o -> Prop,
  (forall a b, P a -> P b -> dltb o a b = true -> dltb o b a = false) ->
  (forall a b c, P a -> P b -> P c -> dltb o b a = false -> dltb o c b = false -> dltb o c a = false) ->
  forall fronts, pick_sorter o s_std s_log nd pop (Z.of_nat k) = Some fronts ->
  Forall P (assign_crowding o (last fronts [])) ->
  forall x dx y dy,
    In x (last fronts []) -> In y (last fronts []) ->
    t' (uid x) = Some dx -> t' (uid y) = Some dy ->
    In (uid x) (uids r) -> ~ In (uid y) (uids r) -> dltb o dx dy = false.
Proof. exact gen_crowding_cut. Qed.
Print Assumptions C05_gen_nsga2_crowding_cut.

Theorem C05_gen_nsga2_all_when_k_ge_n : forall o (s_std s_log : sorter o) (pop : list (ind (V o))) k nd t r t',
  wf_pop pop -> sorters_ok o s_std s_log nd pop k ->
  gen_selNSGA2 o s_std s_log pop (Z.of_nat k) nd t = Some (r, t') ->
  length pop <= k -> Permutation.Permutation (uids r) (uids pop).
Proof. exact gen_all_when_k_ge_n. Qed.
Print Assumptions C05_gen_nsga2_all_when_k_ge_n.

Theorem C05_gen_nsga2_rank_ordered : forall o (s_std s_log : sorter o) (pop : list (ind (V o))) k nd t r t',
  wf_pop pop -> sorters_ok o s_std s_log nd pop k ->
  gen_selNSGA2 o s_std s_log pop (Z.of_nat k) nd t = Some (r, t') ->
  Sorting.Sorted.StronglySorted (fun x y => depth pop x <= depth pop y) r.
Proof. exact gen_rank_ordered. Qed.
Print Assumptions C05_gen_nsga2_rank_ordered.

(* ---- crowding distances: what the regenerated assignCrowdingDist writes (exact rationals) ---- *)

Theorem C05_gen_crowding_written : forall o (front : list (ind (V o))) t u t',
  NoDup (uids front) -> gen_assignCrowdingDist o front t = Some (u, t') ->
  forall j, j < length front -> cd_of o t' front j = Some (nth j (assign_crowding o front) (dzero o)).
Proof. exact gen_assign_written. Qed.
Print Assumptions C05_gen_crowding_written.

Theorem C05_gen_crowding_formula : forall (front : list (ind Q)) t u t' (j : nat),
  NoDup (uids front) -> gen_assignCrowdingDist q_ops front t = Some (u, t') ->
  (forall i, i < front_nobj front -> distinct_col (vcol i front)) -> j < length front ->
  exists d, cd_of q_ops t' front j = Some d /\ qinf_eq d (crowd_spec front j).
Proof. exact gen_crowding_formula. Qed.
Print Assumptions C05_gen_crowding_formula.

Theorem C05_gen_crowding_extremes_inf : forall (front : list (ind Q)) t u t' (i : nat),
  NoDup (uids front) -> gen_assignCrowdingDist q_ops front t = Some (u, t') ->
  front <> [] -> i < front_nobj front ->
  (exists j, j < length front /\ (nth j (vcol i front) 0 == lmin (vcol i front))%Q /\ cd_of q_ops t' front j = Some Inf) /\
  (exists j, j < length front /\ (nth j (vcol i front) 0 == lmax (vcol i front))%Q /\ cd_of q_ops t' front j = Some Inf).
Proof. exact gen_crowding_extremes_inf. Qed.
Print Assumptions C05_gen_crowding_extremes_inf.

(* ---- the sorter: the regenerated sortNondominated computes property C04's model sort_nd ---- *)

Theorem C05_gen_sortNondominated_is_model : forall o (pop : list C04_NDSort.ind) (k : Z) (first_front_only : bool) t r t',
  gen_sortNondominated o pop k first_front_only t = Some (r, t') ->
  C04_NDSort.sort_nd pop k first_front_only = Some r /\ t' = t.
Proof. exact gen_sortnd_refines. Qed.
Print Assumptions C05_gen_sortNondominated_is_model.

(* as a back-end of selNSGA2 (through the bridge of Model/C05_Full.v): it returns what nd_fronts NdStandard returns;
   together with C04's model of the log-time sorter these back-ends "refine" the ones of the end-to-end model,
   and so do, trivially, C04's two models themselves *)
Theorem C05_gen_regenerated_backends_refine : forall o nd (pop : list (ind (V o))) k,
  backends_refine o (gen_std_sorter o) (model_sorter o NdLog) nd pop k.
Proof. exact gen_backends_refine. Qed.
Print Assumptions C05_gen_regenerated_backends_refine.

Theorem C05_gen_model_backends_refine : forall o nd (pop : list (ind (V o))) k,
  backends_refine o (model_sorter o NdStandard) (model_sorter o NdLog) nd pop k.
Proof. exact model_backends_refine. Qed.
Print Assumptions C05_gen_model_backends_refine.

(* the contract `sorters_ok` of the first group of theorems, proved for such back-ends (C04's theorems) *)
Theorem C05_gen_backends_ok : forall o (s_std s_log : sorter o) nd (pop : list (ind (V o))) k,
  pop_ok pop -> nd_ok nd pop -> backends_refine o s_std s_log nd pop k -> sorters_ok o s_std s_log nd pop k.
Proof. exact refine_sorters_ok. Qed.
Print Assumptions C05_gen_backends_ok.

(* ---- end to end: the regenerated selNSGA2 over back-ends that refine C04's models
        (pop_ok / nd_ok: the preconditions of the C05_full_ theorems) ---- *)

Theorem C05_gen_full_is_model : forall o (s_std s_log : sorter o) nd (pop : list (ind (V o))) k t r t',
  pop_ok pop -> nd_ok nd pop -> backends_refine o s_std s_log nd pop k ->
  gen_selNSGA2 o s_std s_log pop (Z.of_nat k) nd t = Some (r, t') ->
  sel_nsga2_full o nd pop k = Some r.
Proof. exact gen_full. Qed.
Print Assumptions C05_gen_full_is_model.

Theorem C05_gen_full_size : forall o (s_std s_log : sorter o) nd (pop : list (ind (V o))) k t r t',
  pop_ok pop -> nd_ok nd pop -> backends_refine o s_std s_log nd pop k ->
  gen_selNSGA2 o s_std s_log pop (Z.of_nat k) nd t = Some (r, t') ->
  length r = Nat.min k (length pop).
Proof. exact gen_full_size. Qed.
Print Assumptions C05_gen_full_size.

Theorem C05_gen_full_refs_nodup : forall o (s_std s_log : sorter o) nd (pop : list (ind (V o))) k t r t',
  pop_ok pop -> nd_ok nd pop -> backends_refine o s_std s_log nd pop k ->
  gen_selNSGA2 o s_std s_log pop (Z.of_nat k) nd t = Some (r, t') ->
  (forall x, In x r -> In x pop) /\ NoDup (uids r).
Proof. exact gen_full_refs_nodup. Qed.
Print Assumptions C05_gen_full_refs_nodup.

Theorem C05_gen_full_front_priority : forall o (s_std s_log : sorter o) nd (pop : list (ind (V o))) k t r t',
  pop_ok pop -> nd_ok nd pop -> backends_refine o s_std s_log nd pop k ->
  gen_selNSGA2 o s_std s_log pop (Z.of_nat k) nd t = Some (r, t') ->
  forall x y, In x r -> In y pop -> ~ In (uid y) (uids r) -> depth pop x <= depth pop y.
Proof. exact gen_full_front_priority. Qed.
Print Assumptions C05_gen_full_front_priority.

Theorem C05_gen_full_one_partial_front : forall o (s_std s_log : sorter o) nd (pop : list (ind (V o))) k t r t',
  pop_ok pop -> nd_ok nd pop -> backends_refine o s_std s_log nd pop k ->
  gen_selNSGA2 o s_std s_log pop (Z.of_nat k) nd t = Some (r, t') ->
  exists c, forall y, In y pop ->
    (depth pop y < c -> In (uid y) (uids r)) /\ (c < depth pop y -> ~ In (uid y) (uids r)).
Proof. exact gen_full_one_partial_front. Qed.
Print Assumptions C05_gen_full_one_partial_front.

Theorem C05_gen_full_cut_explicit : forall o (s_std s_log : sorter o) nd (pop : list (ind (V o))) k t r t',
  pop_ok pop -> nd_ok nd pop -> backends_refine o s_std s_log nd pop k ->
  gen_selNSGA2 o s_std s_log pop (Z.of_nat k) nd t = Some (r, t') ->
  0 < k -> forall m, cut_at pop k m ->
  (forall x, In x r -> depth pop x <= m) /\
  (forall y, In y pop -> depth pop y < m -> In (uid y) (uids r)) /\
  (forall fronts, nd_fronts nd pop k = Some fronts ->
     forall y, In y pop -> (In (uid y) (uids (last fronts [])) <-> depth pop y = m)).
Proof. exact gen_full_cut_explicit. Qed.
Print Assumptions C05_gen_full_cut_explicit.

Theorem C05_gen_full_crowding_cut : forall o (s_std s_log : sorter o) nd (pop : list (ind (V o))) k t r t',
  pop_ok pop -> nd_ok nd pop -> backends_refine o s_std s_log nd pop k ->
  gen_selNSGA2 o s_std s_log pop (Z.of_nat k) nd t = Some (r, t') ->
  forall P : D o -> Prop,
  (forall a b, P a -> P b -> dltb o a b = true -> dltb o b a = false) ->
  (forall a b c, P a -> P b -> P c -> dltb o b a = false -> dltb o c b = false -> dltb o c a = false) ->
  forall fronts, nd_fronts nd pop k = Some fronts ->
  Forall P (assign_crowding o (last fronts [])) ->
  forall x dx y dy,
    In x (last fronts []) -> In y (last fronts []) ->
    t' (uid x) = Some dx -> t' (uid y) = Some dy ->
    In (uid x) (uids r) -> ~ In (uid y) (uids r) -> dltb o dx dy = false.
Proof. exact gen_full_crowding_cut. Qed.
Print Assumptions C05_gen_full_crowding_cut.

Theorem C05_gen_full_all_when_k_ge_n : forall o (s_std s_log : sorter o) nd (pop : list (ind (V o))) k t r t',
  pop_ok pop -> nd_ok nd pop -> backends_refine o s_std s_log nd pop k ->
  gen_selNSGA2 o s_std s_log pop (Z.of_nat k) nd t = Some (r, t') ->
  length pop <= k -> Permutation.Permutation (uids r) (uids pop).
Proof. exact gen_full_all_when_k_ge_n. Qed.
Print Assumptions C05_gen_full_all_when_k_ge_n.

Theorem C05_gen_full_rank_ordered : forall o (s_std s_log : sorter o) nd (pop : list (ind (V o))) k t r t',
  pop_ok pop -> nd_ok nd pop -> backends_refine o s_std s_log nd pop k ->
  gen_selNSGA2 o s_std s_log pop (Z.of_nat k) nd t = Some (r, t') ->
  Sorting.Sorted.StronglySorted (fun x y => depth pop x <= depth pop y) r.
Proof. exact gen_full_rank_ordered. Qed.
Print Assumptions C05_gen_full_rank_ordered.

(* the attributes left behind: every front the sort produced got the model's distances *)
Theorem C05_gen_full_attributes : forall o (s_std s_log : sorter o) nd (pop : list (ind (V o))) k t r t',
  pop_ok pop -> nd_ok nd pop -> backends_refine o s_std s_log nd pop k ->
  gen_selNSGA2 o s_std s_log pop (Z.of_nat k) nd t = Some (r, t') ->
  exists fronts, nd_fronts nd pop k = Some fronts /\ t' = write_fronts o t fronts.
Proof. exact gen_full_attributes. Qed.
Print Assumptions C05_gen_full_attributes.

(* ---- everything regenerated: selNSGA2(individuals, k, nd) with the regenerated sortNondominated as the
        'standard' back-end (the log-time back-end is C04's model) -- the headline clauses spelled out ---- *)

Theorem C05_gen_e2e_is_model : forall o nd (pop : list (ind (V o))) k t r t',
  pop_ok pop -> nd_ok nd pop ->
  gen_selNSGA2 o (gen_std_sorter o) (model_sorter o NdLog) pop (Z.of_nat k) nd t = Some (r, t') ->
  sel_nsga2_full o nd pop k = Some r.
Proof. exact gen_e2e_is_model. Qed.
Print Assumptions C05_gen_e2e_is_model.

Theorem C05_gen_e2e_size : forall o nd (pop : list (ind (V o))) k t r t',
  pop_ok pop -> nd_ok nd pop ->
  gen_selNSGA2 o (gen_std_sorter o) (model_sorter o NdLog) pop (Z.of_nat k) nd t = Some (r, t') ->
  length r = Nat.min k (length pop).
Proof. exact gen_e2e_size. Qed.
Print Assumptions C05_gen_e2e_size.

Theorem C05_gen_e2e_refs_nodup : forall o nd (pop : list (ind (V o))) k t r t',
  pop_ok pop -> nd_ok nd pop ->
  gen_selNSGA2 o (gen_std_sorter o) (model_sorter o NdLog) pop (Z.of_nat k) nd t = Some (r, t') ->
  (forall x, In x r -> In x pop) /\ NoDup (uids r).
Proof. exact gen_e2e_refs_nodup. Qed.
Print Assumptions C05_gen_e2e_refs_nodup.

Theorem C05_gen_e2e_front_priority : forall o nd (pop : list (ind (V o))) k t r t',
  pop_ok pop -> nd_ok nd pop ->
  gen_selNSGA2 o (gen_std_sorter o) (model_sorter o NdLog) pop (Z.of_nat k) nd t = Some (r, t') ->
  forall x y, In x r -> In y pop -> ~ In (uid y) (uids r) -> depth pop x <= depth pop y.
Proof. exact gen_e2e_front_priority. Qed.
Print Assumptions C05_gen_e2e_front_priority.

Theorem C05_gen_e2e_one_partial_front : forall o nd (pop : list (ind (V o))) k t r t',
  pop_ok pop -> nd_ok nd pop ->
  gen_selNSGA2 o (gen_std_sorter o) (model_sorter o NdLog) pop (Z.of_nat k) nd t = Some (r, t') ->
  exists c, forall y, In y pop ->
    (depth pop y < c -> In (uid y) (uids r)) /\ (c < depth pop y -> ~ In (uid y) (uids r)).
Proof. exact gen_e2e_one_partial_front. Qed.
Print Assumptions C05_gen_e2e_one_partial_front.
