(* Property C02 — theorems only.  Model: Model/C02_Variation.v (deap/algorithms.py varAnd, varOr).

   Quantification: every genotype type G, fitness-value type F, number type T with its comparison
   and addition; every heap h0 in which each individual has a fitness object (wf_heap); every
   population pop of objects of h0 (any size, repeated members, valid/invalid fitness, even members
   that share a fitness object); every cxpb, mutpb, lambda_; every draw list d; every pair of
   operator oracles (functions of the call number and of the contents of the argument objects,
   applied under the frame "an operator writes only to its argument objects and returns arguments
   or new objects").  For varAnd the oracle for mate must return two different objects
   (ret_distinct); varOr needs no such hypothesis.  (s', res) is what the call returns: the final
   state (heap hp s', call log lg s') and either inr offspring or inl exception.

   untouched / independent / varied_invalid / valid_is_parent_copy are defined in the model file
   next to `reach` and `varied`. *)
From Coq Require Import List ZArith Bool.
From DV Require Import Model.C02_Variation Model.C02_Literal Model.C02_Legacy Proofs.C02_Variation Proofs.C02_Progress Proofs.C02_Literal Proofs.C02_Trace.
Import ListNotations.

(* ---------------------------------------------------------------- varAnd *)
(* no individual of the population (indeed no pre-existing object) is modified -- also when the
   call ends in an exception *)
Theorem C02_varAnd_parents_untouched :
  forall G F T ltb mate_o mut_o h0 pop, wf_heap h0 -> pop_ok h0 pop ->
  (forall k x y, ret_distinct (ma_r1 (mate_o k x y)) (ma_r2 (mate_o k x y))) ->
  forall cxpb mutpb d s' res,
  @var_and G F T ltb mate_o mut_o cxpb mutpb (start h0 d) pop = (s', res) ->
  untouched h0 pop (hp s').
Proof. exact and_parents_untouched. Qed.
Print Assumptions C02_varAnd_parents_untouched.

Theorem C02_varAnd_offspring_count :
  forall G F T ltb mate_o mut_o h0 pop, wf_heap h0 -> pop_ok h0 pop ->
  (forall k x y, ret_distinct (ma_r1 (mate_o k x y)) (ma_r2 (mate_o k x y))) ->
  forall cxpb mutpb d s' res,
  @var_and G F T ltb mate_o mut_o cxpb mutpb (start h0 d) pop = (s', res) ->
  forall off, res = inr off -> length off = length pop.
Proof. exact and_offspring_count. Qed.
Print Assumptions C02_varAnd_offspring_count.

Theorem C02_varAnd_offspring_independent :
  forall G F T ltb mate_o mut_o h0 pop, wf_heap h0 -> pop_ok h0 pop ->
  (forall k x y, ret_distinct (ma_r1 (mate_o k x y)) (ma_r2 (mate_o k x y))) ->
  forall cxpb mutpb d s' res,
  @var_and G F T ltb mate_o mut_o cxpb mutpb (start h0 d) pop = (s', res) ->
  forall off, res = inr off -> independent h0 (hp s') off.
Proof. exact and_offspring_independent. Qed.
Print Assumptions C02_varAnd_offspring_independent.

Theorem C02_varAnd_varied_invalid :
  forall G F T ltb mate_o mut_o h0 pop, wf_heap h0 -> pop_ok h0 pop ->
  (forall k x y, ret_distinct (ma_r1 (mate_o k x y)) (ma_r2 (mate_o k x y))) ->
  forall cxpb mutpb d s' res,
  @var_and G F T ltb mate_o mut_o cxpb mutpb (start h0 d) pop = (s', res) ->
  forall off, res = inr off -> varied_invalid (hp s') (lg s') off.
Proof. exact and_varied_invalid. Qed.
Print Assumptions C02_varAnd_varied_invalid.

Theorem C02_varAnd_valid_is_parent_copy :
  forall G F T ltb mate_o mut_o h0 pop, wf_heap h0 -> pop_ok h0 pop ->
  (forall k x y, ret_distinct (ma_r1 (mate_o k x y)) (ma_r2 (mate_o k x y))) ->
  forall cxpb mutpb d s' res,
  @var_and G F T ltb mate_o mut_o cxpb mutpb (start h0 d) pop = (s', res) ->
  forall off, res = inr off -> valid_is_parent_copy h0 pop (hp s') (lg s') off.
Proof. exact and_valid_is_parent_copy. Qed.
Print Assumptions C02_varAnd_valid_is_parent_copy.

(* ---------------------------------------------------------------- varOr (with the reproduction branch cloning) *)
Theorem C02_varOr_parents_untouched :
  forall G F T ltb mate_o mut_o h0 pop, wf_heap h0 -> pop_ok h0 pop ->
  forall leb add one lambda_ cxpb mutpb d s' res,
  @var_or G F T ltb leb add one mate_o mut_o lambda_ cxpb mutpb (start h0 d) pop = (s', res) ->
  untouched h0 pop (hp s').
Proof. exact or_parents_untouched. Qed.
Print Assumptions C02_varOr_parents_untouched.

Theorem C02_varOr_offspring_count :
  forall G F T ltb mate_o mut_o h0 pop, wf_heap h0 -> pop_ok h0 pop ->
  forall leb add one lambda_ cxpb mutpb d s' res,
  @var_or G F T ltb leb add one mate_o mut_o lambda_ cxpb mutpb (start h0 d) pop = (s', res) ->
  forall off, res = inr off -> length off = Z.to_nat lambda_.
Proof. exact or_offspring_count. Qed.
Print Assumptions C02_varOr_offspring_count.

Theorem C02_varOr_offspring_independent :
  forall G F T ltb mate_o mut_o h0 pop, wf_heap h0 -> pop_ok h0 pop ->
  forall leb add one lambda_ cxpb mutpb d s' res,
  @var_or G F T ltb leb add one mate_o mut_o lambda_ cxpb mutpb (start h0 d) pop = (s', res) ->
  forall off, res = inr off -> independent h0 (hp s') off.
Proof. exact or_offspring_independent. Qed.
Print Assumptions C02_varOr_offspring_independent.

Theorem C02_varOr_varied_invalid :
  forall G F T ltb mate_o mut_o h0 pop, wf_heap h0 -> pop_ok h0 pop ->
  forall leb add one lambda_ cxpb mutpb d s' res,
  @var_or G F T ltb leb add one mate_o mut_o lambda_ cxpb mutpb (start h0 d) pop = (s', res) ->
  forall off, res = inr off -> varied_invalid (hp s') (lg s') off.
Proof. exact or_varied_invalid. Qed.
Print Assumptions C02_varOr_varied_invalid.

Theorem C02_varOr_valid_is_parent_copy :
  forall G F T ltb mate_o mut_o h0 pop, wf_heap h0 -> pop_ok h0 pop ->
  forall leb add one lambda_ cxpb mutpb d s' res,
  @var_or G F T ltb leb add one mate_o mut_o lambda_ cxpb mutpb (start h0 d) pop = (s', res) ->
  forall off, res = inr off -> valid_is_parent_copy h0 pop (hp s') (lg s') off.
Proof. exact or_valid_is_parent_copy. Qed.
Print Assumptions C02_varOr_valid_is_parent_copy.

(* the guards: exactly when the real varOr raises instead of returning lambda_ offspring *)
Theorem C02_varOr_assertion :
  forall G F T ltb mate_o mut_o h0 pop leb add one lambda_ cxpb mutpb d s' res,
  @var_or G F T ltb leb add one mate_o mut_o lambda_ cxpb mutpb (start h0 d) pop = (s', res) ->
  leb (add cxpb mutpb) one = false -> res = inl AssertionError /\ s' = start h0 d.
Proof. exact or_assertion. Qed.
Print Assumptions C02_varOr_assertion.

(* random.sample(population, 2) on a population of fewer than two individuals: ValueError *)
Theorem C02_varOr_small_population_raises :
  forall G F T ltb mate_o mut_o h0 pop leb add one lambda_ cxpb mutpb d s' res,
  @var_or G F T ltb leb add one mate_o mut_o lambda_ cxpb mutpb (start h0 d) pop = (s', res) ->
  forall u rest,
  leb (add cxpb mutpb) one = true -> (0 < lambda_)%Z -> d = DRandom u :: rest ->
  ltb u cxpb = true -> length pop < 2 -> res = inl ValueError /\ hp s' = h0.
Proof. exact or_small_population_raises. Qed.
Print Assumptions C02_varOr_small_population_raises.

(* random.choice(population) on an empty population: IndexError *)
Theorem C02_varOr_empty_population_raises :
  forall G F T ltb mate_o mut_o h0 pop leb add one lambda_ cxpb mutpb d s' res,
  @var_or G F T ltb leb add one mate_o mut_o lambda_ cxpb mutpb (start h0 d) pop = (s', res) ->
  forall u rest,
  leb (add cxpb mutpb) one = true -> (0 < lambda_)%Z -> d = DRandom u :: rest ->
  ltb u cxpb = false -> pop = [] -> res = inl IndexError /\ hp s' = h0.
Proof. exact or_empty_population_raises. Qed.
Print Assumptions C02_varOr_empty_population_raises.

(* ---------------------------------------------------------------- for EVERY operator in the frame *)
(* without the hypothesis that mate returns two different objects: parents are still untouched and
   the count is still right (the other three clauses genuinely need it: if mate returns the same
   object twice, varAnd's result contains it twice) *)
Theorem C02_varAnd_untouched_and_count_any_operator :
  forall G F T ltb mate_o mut_o h0 pop, wf_heap h0 -> pop_ok h0 pop ->
  forall cxpb mutpb d s' res,
  @var_and G F T ltb mate_o mut_o cxpb mutpb (start h0 d) pop = (s', res) ->
  untouched h0 pop (hp s') /\ forall off, res = inr off -> length off = length pop.
Proof. exact and_weak. Qed.
Print Assumptions C02_varAnd_untouched_and_count_any_operator.

(* ---------------------------------------------------------------- progress: when the calls return *)
(* varAnd never raises: it consumes exactly len//2 + len values of random.random() *)
Theorem C02_varAnd_total :
  forall G F T ltb mate_o mut_o cxpb mutpb h0 pop us rest,
  length us = Nat.div2 (length pop) + length pop ->
  exists s' off, @var_and G F T ltb mate_o mut_o cxpb mutpb (start h0 (map DRandom us ++ rest)) pop = (s', inr off)
                 /\ dr s' = rest.
Proof. exact and_total. Qed.
Print Assumptions C02_varAnd_total.

(* varOr returns whenever the assertion holds and the population has two members at every crossover
   draw and one at every other draw (or_draws_ok); with the guards above this is exactly when *)
Theorem C02_varOr_total :
  forall G F T ltb mate_o mut_o leb add one lambda_ cxpb mutpb h0 pop d,
  leb (add cxpb mutpb) one = true ->
  or_draws_ok ltb cxpb (length pop) (Z.to_nat lambda_) d ->
  exists s' off, @var_or G F T ltb leb add one mate_o mut_o lambda_ cxpb mutpb (start h0 d) pop = (s', inr off).
Proof. exact or_total. Qed.
Print Assumptions C02_varOr_total.

(* ---------------------------------------------------------------- position by position; the extremes 0 and 1 *)
(* varAnd: offspring i went through an operator, or it is the clone of population[i] and still has its
   genotype and fitness values *)
Theorem C02_varAnd_positional :
  forall G F T ltb mate_o mut_o h0 pop, wf_heap h0 -> pop_ok h0 pop ->
  (forall k x y, ret_distinct (ma_r1 (mate_o k x y)) (ma_r2 (mate_o k x y))) ->
  forall cxpb mutpb d s' off,
  @var_and G F T ltb mate_o mut_o cxpb mutpb (start h0 d) pop = (s', inr off) ->
  Forall2 (fun p o => varied (lg s') o \/
                      (In (EClone p o) (lg s') /\ geno (ind_at (hp s') o) = geno (ind_at h0 p)
                       /\ fit_of (hp s') o = fit_of h0 p)) pop off.
Proof. exact and_positional. Qed.
Print Assumptions C02_varAnd_positional.

(* no draw below cxpb or mutpb (in particular cxpb = mutpb = 0 with draws in [0,1)): no operator is
   called and offspring i is an exact copy of population[i] *)
Theorem C02_varAnd_probability_zero :
  forall G F T ltb mate_o mut_o h0 pop, wf_heap h0 -> pop_ok h0 pop ->
  (forall k x y, ret_distinct (ma_r1 (mate_o k x y)) (ma_r2 (mate_o k x y))) ->
  forall cxpb mutpb d s' off,
  (forall u, In (DRandom u) d -> ltb u cxpb = false) -> (forall u, In (DRandom u) d -> ltb u mutpb = false) ->
  @var_and G F T ltb mate_o mut_o cxpb mutpb (start h0 d) pop = (s', inr off) ->
  (forall o, ~ varied (lg s') o) /\
  Forall2 (fun p o => In (EClone p o) (lg s') /\ geno (ind_at (hp s') o) = geno (ind_at h0 p)
                      /\ fit_of (hp s') o = fit_of h0 p) pop off.
Proof. exact and_never. Qed.
Print Assumptions C02_varAnd_probability_zero.

(* every draw below mutpb (in particular mutpb = 1): every offspring comes back invalid *)
Theorem C02_varAnd_probability_one :
  forall G F T ltb mate_o mut_o h0 pop, wf_heap h0 -> pop_ok h0 pop ->
  (forall k x y, ret_distinct (ma_r1 (mate_o k x y)) (ma_r2 (mate_o k x y))) ->
  forall cxpb mutpb d s' off,
  (forall u, In (DRandom u) d -> ltb u mutpb = true) ->
  @var_and G F T ltb mate_o mut_o cxpb mutpb (start h0 d) pop = (s', inr off) ->
  forall o, In o off -> fit_of (hp s') o = None.
Proof. exact and_always_mut. Qed.
Print Assumptions C02_varAnd_probability_one.

(* varOr with cxpb = mutpb = 0 -- the call on which the unrepaired code returned the parents themselves:
   every offspring is an operator-free clone carrying a population member's genotype and fitness
   (and, by C02_varOr_offspring_independent, a new object) *)
Theorem C02_varOr_reproduction_only :
  forall G F T ltb mate_o mut_o h0 pop, wf_heap h0 -> pop_ok h0 pop ->
  forall leb add one lambda_ cxpb mutpb d s' off,
  (forall u, In (DRandom u) d -> ltb u cxpb = false /\ ltb u (add cxpb mutpb) = false) ->
  @var_or G F T ltb leb add one mate_o mut_o lambda_ cxpb mutpb (start h0 d) pop = (s', inr off) ->
  (forall o, ~ varied (lg s') o) /\
  forall o, In o off -> exists p, In p pop /\ In (EClone p o) (lg s') /\
     geno (ind_at (hp s') o) = geno (ind_at h0 p) /\ fit_of (hp s') o = fit_of h0 p.
Proof. exact or_reproduction_only. Qed.
Print Assumptions C02_varOr_reproduction_only.

(* varOr when every draw selects crossover or mutation (in particular cxpb + mutpb = 1): all invalid *)
Theorem C02_varOr_all_varied :
  forall G F T ltb mate_o mut_o h0 pop, wf_heap h0 -> pop_ok h0 pop ->
  forall leb add one lambda_ cxpb mutpb d s' off,
  (forall u, In (DRandom u) d -> ltb u cxpb = true \/ ltb u (add cxpb mutpb) = true) ->
  @var_or G F T ltb leb add one mate_o mut_o lambda_ cxpb mutpb (start h0 d) pop = (s', inr off) ->
  forall o, In o off -> fit_of (hp s') o = None.
Proof. exact or_all_varied. Qed.
Print Assumptions C02_varOr_all_varied.

(* ---------------------------------------------------------------- the literal transcription *)
(* the statement-by-statement, index-based transcription of the two functions (Model/C02_Literal.v:
   offspring[i - 1], range(1, len(offspring), 2), offspring.append ...) computes exactly the model
   the theorems above speak about, for every input *)
Theorem C02_varAnd_literal_eq :
  forall G F T ltb mate_o mut_o cxpb mutpb s pop,
  @var_and_lit G F T ltb mate_o mut_o cxpb mutpb s pop = var_and ltb mate_o mut_o cxpb mutpb s pop.
Proof. exact var_and_lit_eq. Qed.
Print Assumptions C02_varAnd_literal_eq.

Theorem C02_varOr_literal_eq :
  forall G F T ltb leb add one mate_o mut_o lambda_ cxpb mutpb s pop,
  @var_or_lit G F T ltb leb add one mate_o mut_o lambda_ cxpb mutpb s pop
  = var_or ltb leb add one mate_o mut_o lambda_ cxpb mutpb s pop.
Proof. exact var_or_lit_eq. Qed.
Print Assumptions C02_varOr_literal_eq.

(* ---------------------------------------------------------------- non-vacuity *)
(* a concrete run meeting every hypothesis: two parents (the second unevaluated), an in-place mate
   returning its arguments swapped, a mutate returning a new object; both operators fire *)
Definition ex_h0 : heap nat nat :=
  mkheap (fun u => mkind (10 + u) u) (fun v => if Nat.eqb v 0 then Some 7 else None) 2 2.
Definition ex_mate (k : nat) (x y : nat * option nat) : mate_ans nat nat :=
  mkmate (fst y, snd x) (fst x, snd y) RArg2 RArg1.
Definition ex_mut (k : nat) (x : nat * option nat) : mut_ans nat nat :=
  mkmut x (UNew (S (fst x), snd x)).

Example C02_nonvacuous :
  wf_heap ex_h0 /\ pop_ok ex_h0 [0; 1] /\
  (forall k x y, ret_distinct (ma_r1 (ex_mate k x y)) (ma_r2 (ex_mate k x y))) /\
  snd (var_and Nat.ltb ex_mate ex_mut 5 5 (start ex_h0 [DRandom 0; DRandom 9; DRandom 1]) [0; 1]) = inr [3; 4] /\
  snd (var_and Nat.ltb ex_mate ex_mut 0 0 (start ex_h0 [DRandom 0; DRandom 0; DRandom 0]) [0; 1]) = inr [2; 3] /\
  snd (var_or Nat.ltb Nat.leb Nat.add 10 ex_mate ex_mut 3 3 3
         (start ex_h0 [DRandom 0; DSample 2 1 0; DRandom 4; DChoice 2 0; DRandom 8; DChoice 2 0]) [0; 1])
    = inr [3; 5; 6].
Proof.
  split; [|split; [|split; [|split; [|split]]]].
  - intros u Hu. destruct u as [|[|u]]; cbn; auto; inversion Hu as [|? H1]; inversion H1 as [|? H2]; inversion H2.
  - repeat constructor.
  - intros; exact I.
  - reflexivity.
  - reflexivity.
  - reflexivity.
Qed.

(* ---------------------------------------------------------------- the defect that was repaired *)
(* for varOr as it stood before fix 80d9b4e (reproduction branch appends the chosen parent itself,
   Model/C02_Legacy.v) the independence theorem is false: varOr(pop, toolbox, 2, 0, 0) returns the
   parents.  The same call on the repaired implementation is replayed by the harness on every run. *)
Theorem C02_varOr_unrepaired_refuted :
  exists (h0 : heap nat nat) pop d off s',
    wf_heap h0 /\ pop_ok h0 pop /\
    var_or_legacy Nat.ltb Nat.leb Nat.add 10 ex_mate ex_mut 2 0 0 (start h0 d) pop = (s', inr off) /\
    ~ independent h0 (hp s') off.
Proof.
  exists ex_h0, [0; 1], [DRandom 3; DChoice 2 1; DRandom 0; DChoice 2 0], [1; 0].
  eexists. split; [|split; [|split]].
  - exact (proj1 C02_nonvacuous).
  - exact (proj1 (proj2 C02_nonvacuous)).
  - reflexivity.
  - intros (_ & Hfresh & _). destruct (Hfresh 1 (or_introl eq_refl)) as [[H _] _]. cbn in H.
    inversion H as [|? H1]; inversion H1.
Qed.
Print Assumptions C02_varOr_unrepaired_refuted.
