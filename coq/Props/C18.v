(* Property C18 - theorems only.  Model: Model/C18_Logbook.v (deap/tools/support.py). *)
From Coq Require Import List ZArith Bool.
From DV Require Import Base.PyList Model.C18_Logbook Proofs.C18_Logbook.
Import ListNotations.
Local Open Scope Z_scope.

Theorem C18_compile_applies_all_0 : forall {A B C} (s : stats A B C) data,
  st_compile s data = map (fun nf => (fst nf, snd nf (map (s_key s) data))) (s_funs s).
Proof. exact @st_compile_spec. Qed.
Print Assumptions C18_compile_applies_all_0.
