(* Property C18 - theorems only.
   "Logbook and statistics record every entry once, in order, chapters aligned"
   Model: Model/C18_Logbook.v (deap/tools/support.py after the three C18 fix commits).
   All history theorems quantify over EVERY finite operation list h (no length bound); the state
   reached is [final init_state h], the trace notions (recorded, delivered, headers) are defined in
   Proofs/C18_Logbook.v.  Hypothesis [uniform S h]: every record of the history feeds the same
   chapter names S at every level (as MultiStatistics.compile produces). *)
From Coq Require Import List ZArith Bool Sorting.Sorted.
From DV Require Import Base.PyList Base.C18_Lists Model.C18_Logbook Proofs.C18_Logbook.
Import ListNotations.
Local Open Scope Z_scope.

(* the hypothesis can be decided by computation; the correspondence run evaluates this check on every
   history it generates as "uniform", so the tested histories are histories the theorems speak about *)
Theorem C18_uniformb_sound : forall S h, uniformb S h = true -> uniform S h.
Proof. exact uniformb_sound. Qed.
Print Assumptions C18_uniformb_sound.

(* ---- a logbook returns its records in the order they were entered ---- *)
(* any history, no hypothesis: uids strictly increasing, each stored entry is the scalar part of
   the dictionary entered by the record() call with that number *)
Theorem C18_records_in_order : forall h : list op,
  let l := st_lb (final init_state h) in
  StronglySorted lt (ids l) /\
  forall u e, In (u, e) (recs l) ->
    exists infos, nth_error (recorded h) u = Some infos /\ e = scalars infos.
Proof. exact records_in_order. Qed.
Print Assumptions C18_records_in_order.

(* without deletions: all of them, exactly *)
Theorem C18_records_all_without_delete : forall h : list op,
  forallb (fun o => negb (is_delete o)) h = true ->
  recs (st_lb (final init_state h)) =
  combine (seq 0 (length (recorded h))) (map scalars (recorded h)).
Proof. exact records_all_without_delete. Qed.
Print Assumptions C18_records_all_without_delete.

(* ---- select: per name the chronological column, None where a record lacks the name ---- *)
Theorem C18_select_columns : forall (l : lb) (names : list name),
  (forall nm, names = [nm] -> lb_select names l = Sel1 (column nm l)) /\
  (length names <> 1%nat -> lb_select names l = SelN (map (fun nm => column nm l) names)) /\
  forall nm,
    length (column nm l) = length (recs l) /\
    (forall j u e, nth_error (recs l) j = Some (u, e) -> nth_error (column nm l) j = Some (lookup nm e)) /\
    (forall e : entry, lookup nm e = None <-> ~ In nm (map fst e)).
Proof.
  intros l names. split; [intros nm ->; apply select_one|]. split; [apply select_many|].
  intro nm. destruct (column_spec nm l) as [A B]. repeat split; auto; apply lookup_None.
Qed.
Print Assumptions C18_select_columns.

(* ---- chapters: same records as the logbook (hence as many), plus the record's scalar fields ---- *)
(* after every history, for the chapter (or sub-chapter) at any path *)
Theorem C18_chapter_aligned : forall S h path c,
  uniform S h ->
  find_path path (st_lb (final init_state h)) = Some c ->
  let l := st_lb (final init_state h) in
  ids c = ids l /\ length (recs c) = length (recs l) /\
  (forall u e e', In (u, e) (recs l) -> In (u, e') (recs c) ->
     forall k z, lookup k e = Some z -> lookup k e' = Some z).
Proof.
  intros S h path c U F. destruct (chapter_aligned S h path c U F) as [A B]. repeat split; auto.
  apply (f_equal (@length _)) in A. unfold ids in A. now rewrite !map_length in A.
Qed.
Print Assumptions C18_chapter_aligned.

(* the chapter names are those of S once something was recorded (or the logbook is untouched) *)
Theorem C18_chapter_names : forall S h,
  uniform S h ->
  let l := st_lb (final init_state h) in
  (recs l = [] /\ chs l = []) \/ shape_eqv (tree_of l) S.
Proof. exact chapters_shaped. Qed.
Print Assumptions C18_chapter_names.

(* a dictionary-valued entry goes to the chapter of that name: own scalar fields + the record's *)
Theorem C18_record_feeds_chapter : forall uid infos l l' k d,
  NoDup (map fst infos) -> NoDup (map fst d) -> In (k, VDict d) infos ->
  lb_record (S (ddepth infos)) uid infos l = Some l' ->
  exists c' e, lookup k (chs l') = Some c' /\
    recs c' = recs (chapter_of k (chs l)) ++ [(uid, e)] /\
    forall nm, lookup nm e = match lookup nm (scalars infos) with
                             | Some z => Some z
                             | None => match lookup nm d with Some (VInt z) => Some z | _ => None end
                             end.
Proof.
  intros uid infos l l' k d ND NDd Hin E.
  destruct (record_feeds_chapter uid infos l l' k d ND Hin E) as (c' & A & B).
  exists c', (scalars (dict_update d (inject (scalars infos)))). repeat split; auto.
  intro nm. apply lookup_chapter_entry; auto. now apply scalars_NoDup.
Qed.
Print Assumptions C18_record_feeds_chapter.

(* ---- deleting single entries / popping: exactly the addressed record goes, everywhere ---- *)
Theorem C18_delete_exact_index : forall S h i,
  uniform S h ->
  let s := final init_state h in
  let l := st_lb s in
  let n := zlen (recs l) in
  (- n <= i < n ->
     exists l' item, py_get (recs l) i = Some item /\
       step s (ODelItem i) = (mkstate l' (st_next s), ONone) /\
       step s (OPop (Some i)) = (mkstate l' (st_next s), OItem (fst item) (snd item)) /\
       recs l' = remove_nth (Z.to_nat (norm_index i n)) (recs l) /\
       aligned (st_next s) l') /\
  (~ (- n <= i < n) ->
     step s (ODelItem i) = (s, OErr IndexError) /\ step s (OPop (Some i)) = (s, OErr IndexError)).
Proof. exact delete_index_exact. Qed.
Print Assumptions C18_delete_exact_index.

Theorem C18_pop_default_is_first : forall s, step s (OPop None) = step s (OPop (Some 0)).
Proof. exact pop_default. Qed.
Print Assumptions C18_pop_default_is_first.

(* slices: the records at the positions range( *slice.indices(len) ) go, the others stay in order *)
Theorem C18_delete_exact_slice : forall S h a b st,
  uniform S h ->
  let s := final init_state h in
  let l := st_lb s in
  (match st with Some 0 => False | _ => True end ->
     exists l', step s (ODelSlice a b st) = (mkstate l' (st_next s), ONone) /\
       recs l' = del_positions (slice_idx a b (match st with None => 1 | Some x => x end) (zlen (recs l))) (recs l) /\
       aligned (st_next s) l') /\
  (st = Some 0 -> step s (ODelSlice a b st) = (s, OErr ValueError)).
Proof. exact delete_slice_exact. Qed.
Print Assumptions C18_delete_exact_slice.

(* what "aligned" gives for the state after a deletion: every chapter at any depth holds the same
   uids as the logbook *)
Theorem C18_aligned_means : forall n l path c,
  aligned n l -> NoDup (ids l) -> find_path path l = Some c -> ids c = ids l.
Proof. intros n l path c A N F. now destruct (aligned_find_path n path l c A N F) as (_ & E & _). Qed.
Print Assumptions C18_aligned_means.

(* del_positions keeps exactly the elements at the other positions *)
Theorem C18_del_positions_spec : forall (ps : list Z) (l : list (nat * entry)) x,
  In x (del_positions ps l) <-> exists k, nth_error l k = Some x /\ ~ In (Z.of_nat k) ps.
Proof. intros ps l x. unfold del_positions. rewrite drop_pos_spec. reflexivity. Qed.
Print Assumptions C18_del_positions_spec.

(* ---- stream: every record exactly once ---- *)
(* nothing twice, only real records *)
Theorem C18_stream_once : forall S h,
  uniform S h ->
  NoDup (delivered init_state h) /\
  forall u, In u (delivered init_state h) -> (u < length (recorded h))%nat.
Proof. exact stream_once. Qed.
Print Assumptions C18_stream_once.

(* after any stream call every record still in the logbook has been delivered *)
Theorem C18_stream_complete : forall S h,
  uniform S h ->
  forall u, In u (ids (st_lb (final init_state (h ++ [OStream])))) ->
            In u (delivered init_state (h ++ [OStream])).
Proof. exact stream_complete. Qed.
Print Assumptions C18_stream_complete.

(* a call delivers exactly the records behind buffindex, and never raises while records exist *)
Theorem C18_stream_delivers_pending : forall S h,
  uniform S h ->
  let s := final init_state h in
  (forall d hf, snd (step s OStream) = OText d hf ->
     d = skipn (Z.to_nat (buff (st_lb s))) (ids (st_lb s)) /\ hf = (buff (st_lb s) =? 0) && logh (st_lb s)) /\
  (recs (st_lb s) <> [] -> exists d hf, snd (step s OStream) = OText d hf).
Proof.
  intros S h U s. split.
  - intros d hf H. exact (stream_delivers_pending S h d hf U H).
  - exact (stream_no_loss S h U).
Qed.
Print Assumptions C18_stream_delivers_pending.

(* ---- header at most once ----
   Full statement (what the property text says):
     forall S h, uniform S h -> headers init_state h <= 1.
   The faithful model violates it (KNOWN FINDING C18.header_again_after_full_drain): once every
   streamed record has been deleted buffindex is 0 again and __txt__ takes startindex == 0 as
   "first line".  The witness below is replayed on the implementation by harness/c18.py on every run. *)
Definition header_at_most_once : Prop :=
  forall S h, uniform S h -> (headers init_state h <= 1)%nat.

Definition header_witness : list op :=
  [ORecord [(0, VInt 0)]; OStream; ODelItem 0; ORecord [(0, VInt 1)]; OStream].

Theorem C18_header_at_most_once_refuted :
  exists S h, uniform S h /\ headers init_state h = 2%nat.
Proof.
  exists (Sh []), header_witness. split; [|vm_compute; reflexivity].
  intros infos Hin.
  assert (E : infos = [(0, VInt 0)] \/ infos = [(0, VInt 1)]).
  { cbn in Hin. destruct Hin as [E|[E|[E|[E|[E|[]]]]]]; try discriminate; injection E as <-; auto. }
  assert (HS : forall z, has_shape [(0, VInt z)] (Sh [])).
  { intro z. constructor.
    - repeat constructor. intros [].
    - constructor.
    - intro k. split; [intros []|]. intros (d & [H|[]]). discriminate.
    - intros k d s [H|[]]. discriminate. }
  destruct E as [-> | ->]; apply HS.
Qed.
Print Assumptions C18_header_at_most_once_refuted.

Corollary C18_header_at_most_once_is_false : ~ header_at_most_once.
Proof.
  intro H. destruct C18_header_at_most_once_refuted as (S & h & U & E). specialize (H S h U).
  rewrite E in H. inversion H as [|? H']. inversion H'.
Qed.
Print Assumptions C18_header_at_most_once_is_false.

(* proved part: as long as, at every stream call made after the header went out, at least one
   already delivered record is still in the logbook (the streamed prefix was never drained
   completely), the header is delivered at most once *)
Theorem C18_header_at_most_once_partial : forall S h,
  uniform S h ->
  (forall p q, h = p ++ OStream :: q -> (1 <= headers init_state p)%nat ->
     exists u, In u (delivered init_state p) /\ In u (ids (st_lb (final init_state p)))) ->
  (headers init_state h <= 1)%nat.
Proof. exact header_partial. Qed.
Print Assumptions C18_header_at_most_once_partial.

(* ---- pickling: modelled as the identity on the whole state (records, buffindex, chapters, header,
   log_header); that the implementation's round trip really is the identity is established by the
   correspondence run, not by this statement ---- *)
Theorem C18_pickle_keeps_all : forall s, step s OPickle = (s, ONone).
Proof. exact pickle_identity. Qed.
Print Assumptions C18_pickle_keeps_all.

(* ---- statistics ---- *)
(* compile applies every registered function, with its frozen arguments, to the tuple of key values *)
Theorem C18_compile_applies_all : forall (A B C Args : Type) (s : stats A B C) (data : list A),
  st_compile s data = map (fun nf => (fst nf, snd nf (map (s_key s) data))) (s_funs s) /\
  map fst (st_compile s data) = map fst (s_funs s) /\
  (forall nm, lookup nm (st_compile s data) =
              option_map (fun f => f (map (s_key s) data)) (lookup nm (s_funs s))) /\
  (forall nm (f : Args -> list B -> C) a,
     lookup nm (st_compile (st_register nm f a s) data) = Some (f a (map (s_key s) data)) /\
     (forall nm', nm' <> nm ->
        lookup nm' (st_compile (st_register nm f a s) data) = lookup nm' (st_compile s data)) /\
     (forall k, In k (map fst (s_funs (st_register nm f a s))) <-> k = nm \/ In k (map fst (s_funs s))) /\
     (NoDup (map fst (s_funs s)) -> NoDup (map fst (s_funs (st_register nm f a s))))).
Proof.
  intros. split; [reflexivity|]. split; [apply compile_names|]. split; [apply compile_lookup|].
  intros nm f a. split; [apply compile_register_same|]. split; [intros; now apply compile_register_other|].
  split; [apply register_names|apply register_NoDup].
Qed.
Print Assumptions C18_compile_applies_all.

(* multi-statistics: one such record per named statistics object; register reaches every object *)
Theorem C18_multi_compile_per_name : forall (A B C Args : Type) (m : mstats A B C) (data : list A),
  map fst (ms_compile m data) = map fst m /\
  (forall nm, lookup nm (ms_compile m data) = option_map (fun s => st_compile s data) (lookup nm m)) /\
  (forall nm (f : Args -> list B -> C) a k,
     lookup k (ms_register nm f a m) = option_map (st_register nm f a) (lookup k m)).
Proof.
  intros. split; [apply ms_compile_names|]. split; [apply ms_compile_lookup|]. intros; apply ms_register_lookup.
Qed.
Print Assumptions C18_multi_compile_per_name.

(* ---- statistics feeding a logbook, as the packaged algorithms do ----
   logbook.record( **gen, **mstats.compile(pop) ): what MultiStatistics.compile returns meets the uniformity
   hypothesis (distinct statistics names, distinct function names, generation fields named differently),
   so after any number of generations the logbook and each chapter hold one record per generation *)
Theorem C18_multistats_history_uniform : forall (A B : Type) (m : mstats A B Z) (gens : list (entry * list A)),
  Forall (fun ns => NoDup (map fst (s_funs (snd ns)))) m ->
  Forall (fun gd => NoDup (map fst (fst gd) ++ map fst m)) gens ->
  uniform (Sh (map (fun ns => (fst ns, Sh [])) m))
          (map (fun gd => ORecord (compiled_infos (fst gd) (ms_compile m (snd gd)))) gens).
Proof. exact @multistats_history_uniform. Qed.
Print Assumptions C18_multistats_history_uniform.

Theorem C18_generations_logged : forall (A B : Type) (m : mstats A B Z) (gens : list (entry * list A)) path c,
  Forall (fun ns => NoDup (map fst (s_funs (snd ns)))) m ->
  Forall (fun gd => NoDup (map fst (fst gd) ++ map fst m)) gens ->
  let h := map (fun gd => ORecord (compiled_infos (fst gd) (ms_compile m (snd gd)))) gens in
  let l := st_lb (final init_state h) in
  ids l = seq 0 (length gens) /\ (find_path path l = Some c -> ids c = seq 0 (length gens)).
Proof. exact @generations_logged. Qed.
Print Assumptions C18_generations_logged.

(* ---- non-vacuity: a history with two chapters that meets [uniform], with what it produces ---- *)
Definition ex_shape : shape := Sh [(10, Sh []); (11, Sh [])].
Definition ex_rec (i : Z) : dict :=
  [(0, VInt i); (10, VDict [(3, VInt (i + 40))]); (5, VInt (i + 20)); (11, VDict [(3, VInt (i + 60)); (4, VInt 7)])].
Definition ex_history : list op :=
  [ORecord (ex_rec 0); ORecord (ex_rec 1); OStream; ORecord (ex_rec 2); OPop (Some (-1)); ODelSlice None None (Some (-2));
   OStream; OPickle; OSelect [10] [3; 0]].

Example C18_nonvacuous :
  uniform ex_shape ex_history /\
  ids (st_lb (final init_state ex_history)) = [0%nat] /\
  delivered init_state ex_history = [0%nat; 1%nat] /\
  headers init_state ex_history = 1%nat /\
  outs init_state [ORecord (ex_rec 0); OSelect [10] [3; 0]; OSelect [] [5]] =
    [ONone; OSel (SelN [[Some 40]; [Some 0]]); OSel (Sel1 [Some 20])].
Proof.
  split; [apply uniformb_sound; vm_compute; reflexivity|vm_compute; repeat split; reflexivity].
Qed.
