(* Property C11, tie (T): the C11 theorems restated on the definitions REGENERATED from the current text of
   deap/gp.py (coq/Gen/C11_gen.v, written by harness/c11_py2coq.py on every run; never committed).
   Theorems only.  Equalities regenerated = model: Proofs/C11_gen_equiv.v; transfer: Proofs/C11_gen_main.v.

   gen_<f> is what the translator produced from the source of <f>; m_<f> (Model/C11_GenRt.v) is the hand model in
   the same signature.  Python ints are Z in the regenerated text (indices included), slices are pairs of ints,
   a float probability is an exact fraction.  A function the translator refused is regenerated as `gen_f := m_f`
   (its theorems here then say nothing beyond Props/C11.v; harness/c11.py reports which functions that is). *)
From Coq Require Import List ZArith NArith Bool.
From DV Require Import Model.C11_GPTree Model.C11_GenRt Proofs.C11_Tree Proofs.C11_Gen Proofs.C11_Ops Proofs.C11_Cx
  Proofs.C11_Safe Proofs.C11_GenRt Gen.C11_gen Proofs.C11_gen_equiv Proofs.C11_gen_main.
Import ListNotations.
Local Open Scope Z_scope.

(* ---- the source text is the model: for all arguments and all draw lists ---- *)
Theorem C11_gen_source_is_model :
  (forall l ds, gen_root l ds = m_root l ds) /\
  (forall l b ds, gen_searchSubtree l b ds = m_searchSubtree l b ds) /\
  (forall l ds, gen_height l ds = m_height l ds) /\
  (forall l key val ds, 0 <= fst key -> 0 <= snd key -> gen_setitem_slice l key val ds = m_setitem_slice l key val ds) /\
  (forall l key val ds, gen_setitem_item l key val ds = m_setitem_item l key val ds) /\
  (forall ps mn mx cond t ds, (forall h, cond_mono (cond h)) ->
     gen_generate ps mn mx cond t ds = m_generate ps mn mx cond t ds) /\
  (forall ps mn mx t ds, gen_genFull ps mn mx t ds = m_genFull ps mn mx t ds) /\
  (forall ps mn mx t ds, gen_genGrow ps mn mx t ds = m_genGrow ps mn mx t ds) /\
  (forall ps mn mx t ds, gen_genHalfAndHalf ps mn mx t ds = m_genHalfAndHalf ps mn mx t ds) /\
  (forall l ds, gen_mutShrink l ds = m_mutShrink l ds) /\
  (forall l ps ds, gen_mutInsert l ps ds = m_mutInsert l ps ds) /\
  (forall l ps ds, gen_mutNodeReplacement l ps ds = m_mutNodeReplacement l ps ds) /\
  (forall l mode ds, gen_mutEphemeral l mode ds = m_mutEphemeral l mode ds) /\
  (forall l expr ps ds, gen_mutUniform l expr ps ds = m_mutUniform l expr ps ds) /\
  (forall l1 l2 ds, gen_cxOnePoint l1 l2 ds = m_cxOnePoint l1 l2 ds) /\
  (forall l1 l2 termpb ds, gen_cxOnePointLeafBiased l1 l2 termpb ds = m_cxOnePointLeafBiased l1 l2 termpb ds) /\
  (forall key maxv func args ds, gen_staticLimit key maxv func args ds = m_staticLimit key maxv func args ds).
Proof. exact source_is_model. Qed.
Print Assumptions C11_gen_source_is_model.

(* the operators as the correspondence replays them (gen_run_op: Gen/C11_gen.v, trailer) *)
Theorem C11_gen_run_op_is_model : forall ps oc inputs ds, gen_run_op ps oc inputs ds = run_op ps oc inputs ds.
Proof. exact gen_run_op_eq. Qed.
Print Assumptions C11_gen_run_op_is_model.

Theorem C11_gen_static_limit_is_model : forall k maxv op inputs ds,
  gen_staticLimit (gen_key k) maxv op inputs ds = static_limit k maxv op inputs ds.
Proof. exact gen_static_limit_eq. Qed.
Print Assumptions C11_gen_static_limit_is_model.

(* ---- subtree search: the slice returned for the index of u's root (also counted from the end) is u's span ---- *)
Theorem C11_gen_search_subtree_span : forall c u ds, wft (plug c u) ->
  let l := flatten (plug c u) in let b := length (cpre c) in
  gen_searchSubtree l (Z.of_nat b) ds = Ok ((Z.of_nat b, Z.of_nat (b + size u)), ds) /\
  gen_searchSubtree l (Z.of_nat b - zlen l) ds = Ok ((Z.of_nat b, Z.of_nat (b + size u)), ds) /\
  (forall i, i < - zlen l -> gen_searchSubtree l i ds = Err EIndex).
Proof. exact gen_search_subtree_span. Qed.
Print Assumptions C11_gen_search_subtree_span.

(* ---- reported height = depth of the deepest node ---- *)
Theorem C11_gen_height_is_depth : forall t ds, wft t ->
  gen_height (flatten t) ds = Ok (theight t, ds) /\
  Forall (fun d => 0 <= d <= theight t) (node_depths 0 t) /\ In (theight t) (node_depths 0 t).
Proof. exact gen_height_is_depth. Qed.
Print Assumptions C11_gen_height_is_depth.

(* ---- generators: complete, well typed, min <= height <= max, leaf depths (full / grow / half) ---- *)
Theorem C11_gen_generators_spec : forall sub ps, pset_ok sub ps ->
  forall g ot ds out ds', 0 <= g_min g ->
  gen_gen_expr ps g ot ds = Ok (out, ds') ->
  gen_expr_post sub g (match ot with Some x => x | None => p_ret ps end) out.
Proof. exact gen_gen_expr_spec. Qed.
Print Assumptions C11_gen_generators_spec.

(* ... they terminate within the recorded draws and fail only on an impossible draw or an empty pool *)
Theorem C11_gen_generators_fail_only_on_empty_pool : forall ps g ot ds e, 0 <= g_min g <= g_max g ->
  gen_gen_expr ps g ot ds = Err e -> benign e.
Proof. exact gen_gen_expr_err. Qed.
Print Assumptions C11_gen_generators_fail_only_on_empty_pool.

(* ---- closure of the variation operators ---- *)
Theorem C11_gen_cx_one_point_closed : forall sub, (forall a, sub a tobj = true) ->
  forall top1 top2 t1 t2 ds o1 o2 ds',
  typed sub top1 t1 -> typed sub top2 t2 ->
  (nret (root t1) = tobj -> untyped_nodes (flatten t1) /\ untyped_nodes (flatten t2)) ->
  gen_cxOnePoint (flatten t1) (flatten t2) ds = Ok ((o1, o2), ds') ->
  exists t1' t2', o1 = flatten t1' /\ o2 = flatten t2' /\ typed sub top1 t1' /\ typed sub top2 t2' /\
    (size t1' + size t2' = size t1 + size t2)%nat.
Proof. exact gen_cx_one_point_closed. Qed.
Print Assumptions C11_gen_cx_one_point_closed.

Theorem C11_gen_cx_leaf_biased_closed : forall sub termpb top1 top2 t1 t2 ds o1 o2 ds',
  typed sub top1 t1 -> typed sub top2 t2 ->
  gen_cxOnePointLeafBiased (flatten t1) (flatten t2) termpb ds = Ok ((o1, o2), ds') ->
  exists t1' t2', o1 = flatten t1' /\ o2 = flatten t2' /\ typed sub top1 t1' /\ typed sub top2 t2' /\
    (size t1' + size t2' = size t1 + size t2)%nat.
Proof. exact gen_cx_leaf_biased_closed. Qed.
Print Assumptions C11_gen_cx_leaf_biased_closed.

Theorem C11_gen_mut_uniform_closed : forall sub,
  (forall a b c, sub a b = true -> sub b c = true -> sub a c = true) ->
  forall ps, pset_ok sub ps ->
  forall top t g ds out ds', 0 <= g_min g -> typed sub top t ->
  gen_mutUniform (flatten t) (fun ps' ty' => gen_gen_expr ps' g (Some ty')) ps ds = Ok (out, ds') ->
  exists t', out = flatten t' /\ typed sub top t'.
Proof. exact gen_mut_uniform_closed. Qed.
Print Assumptions C11_gen_mut_uniform_closed.

Theorem C11_gen_mut_node_replacement_closed : forall sub,
  (forall a b c, sub a b = true -> sub b c = true -> sub a c = true) ->
  forall ps, pset_ok sub ps ->
  forall top t ds out ds', typed sub top t ->
  gen_mutNodeReplacement (flatten t) ps ds = Ok (out, ds') ->
  exists t', out = flatten t' /\ typed sub top t' /\ size t' = size t.
Proof. exact gen_mut_node_replacement_closed. Qed.
Print Assumptions C11_gen_mut_node_replacement_closed.

Theorem C11_gen_mut_ephemeral_closed : forall sub top t mode ds out ds', typed sub top t ->
  gen_mutEphemeral (flatten t) mode ds = Ok (out, ds') ->
  exists t', out = flatten t' /\ typed sub top t' /\ size t' = size t.
Proof. exact gen_mut_ephemeral_closed. Qed.
Print Assumptions C11_gen_mut_ephemeral_closed.

Theorem C11_gen_mut_insert_closed : forall sub,
  (forall a b c, sub a b = true -> sub b c = true -> sub a c = true) ->
  (forall a, sub a a = true) ->
  forall ps, pset_ok sub ps ->
  forall top t ds out ds', typed sub top t ->
  gen_mutInsert (flatten t) ps ds = Ok (out, ds') ->
  exists t', out = flatten t' /\ typed sub top t' /\ (size t <= size t')%nat.
Proof. exact gen_mut_insert_closed. Qed.
Print Assumptions C11_gen_mut_insert_closed.

Theorem C11_gen_mut_shrink_closed : forall sub,
  (forall a b c, sub a b = true -> sub b c = true -> sub a c = true) ->
  forall top t ds out ds', typed sub top t ->
  gen_mutShrink (flatten t) ds = Ok (out, ds') ->
  exists t', out = flatten t' /\ typed sub top t' /\ (size t' <= size t)%nat.
Proof. exact gen_mut_shrink_closed. Qed.
Print Assumptions C11_gen_mut_shrink_closed.

(* ---- staticLimit: key = height (the regenerated height) or len ---- *)
Theorem C11_gen_static_limit_respected : forall k maxv op inputs ds res ds',
  Forall (within k maxv) inputs ->
  gen_staticLimit (gen_key k) maxv op inputs ds = Ok (res, ds') ->
  Forall (within k maxv) res.
Proof. exact gen_static_limit_respected. Qed.
Print Assumptions C11_gen_static_limit_respected.

Theorem C11_gen_static_limit_closed : forall (P : list node -> Prop) k maxv op inputs ds res ds',
  Forall P inputs ->
  (forall outs ds1, op inputs ds = Ok (outs, ds1) -> Forall P outs) ->
  gen_staticLimit (gen_key k) maxv op inputs ds = Ok (res, ds') -> Forall P res.
Proof. exact gen_static_limit_closed. Qed.
Print Assumptions C11_gen_static_limit_closed.
