(* Property C20 -- fallback theorem file, used ONLY when the translator refused part of the source
   (harness/c20.py then reports `tie: correspondence-only` for the refused functions).  The same facts
   as Props/C20.v, stated about the hand-transcribed published formulas (Model/C20_BenchSpec.v), which
   the generated file aliases for the refused functions and which the correspondence step evaluates
   against the implementation.  Does not depend on coq/Gen. *)
From Coq Require Import Reals ZArith List Bool Lia.
From DV Require Import Base.PyList Base.C20_Num Model.C20_BenchSpec Proofs.C20_Reals Proofs.C20_Spec.
Import ListNotations.
Local Open Scope R_scope.

Theorem C20s_optima_exact : forall n,
  spec_bm_plane (zeros n) = [0] /\ spec_bm_sphere (zeros n) = [0] /\ spec_bm_cigar (zeros n) = [0] /\
  spec_bm_rosenbrock (ones_R n) = [0] /\ ((1 <= n)%nat -> spec_bm_ackley (zeros n) = [0]) /\
  spec_bm_bohachevsky (zeros n) = [0] /\ spec_bm_griewank (zeros n) = [0] /\ spec_bm_rastrigin (zeros n) = [0] /\
  spec_bm_rastrigin_scaled (zeros n) = [0] /\ spec_bm_rastrigin_skew (zeros n) = [0] /\ spec_bm_schaffer (zeros n) = [0] /\
  spec_bm_himmelblau [3; 2] = [0].
Proof.
  intro n. repeat apply conj.
  - apply opt_plane. - apply opt_sphere. - apply opt_cigar. - apply opt_rosenbrock. - apply opt_ackley.
  - apply opt_bohachevsky. - apply opt_griewank. - apply opt_rastrigin. - apply opt_rastrigin_scaled.
  - apply opt_rastrigin_skew. - apply opt_schaffer. - apply opt_himmelblau_1.
Qed.

Theorem C20s_optima_approx :
  (forall n, exists v, spec_bm_schwefel (repeat (42096874636 / 100000000) n) = [v] /\ Rabs v <= INR n * (1 / 10000)) /\
  (exists v, spec_bm_h1 [86998 / 10000; 67665 / 10000] = [v] /\ Rabs (v - 2) <= 1 / 1000).
Proof. split; [exact opt_schwefel|exact opt_h1]. Qed.

Theorem C20s_fronts : forall (x : list R) M alpha,
  Rsum (spec_bm_dtlz1 x M) = (1 + dtlz_g13 (dtlz_xm x M)) / 2 /\
  enorm (spec_bm_dtlz2 x M) = 1 + dtlz_g2 (dtlz_xm x M) /\
  enorm (spec_bm_dtlz3 x M) = 1 + dtlz_g13 (dtlz_xm x M) /\
  enorm (spec_bm_dtlz4 x M alpha) = 1 + dtlz_g2 (dtlz_xm x M) /\
  enorm (spec_bm_dtlz5 x M) = 1 + dtlz_g2 (dtlz_xm x M) /\
  enorm (spec_bm_dtlz6 x M) = 1 + dtlz_g6 (dtlz_xm x M).
Proof.
  intros. repeat apply conj.
  - apply dtlz1_sum. - apply dtlz2_norm. - apply dtlz3_norm. - apply dtlz4_norm. - apply dtlz5_norm. - apply dtlz6_norm.
Qed.

Theorem C20s_decorators_and_peaks :
  (forall t y : list R, length t = length y -> spec_translate_arg t (map2 Rplus y t) = y) /\
  (forall s y : list R, length s = length y -> Forall (fun v => v <> 0) s ->
     spec_scale_arg (spec_scale_factor s) (map2 Rmult y s) = y) /\
  (forall minp maxp (sev : R) n0 draws, (minp <= n0 <= maxp)%Z ->
     (minp <= mp_count_after minp maxp sev n0 draws <= maxp)%Z).
Proof. repeat apply conj. - exact translate_inverse. - exact scale_inverse. - intros; apply mp_count_in_limits; assumption. Qed.

Theorem C20s_all : ltac:(let t := type of (conj C20s_optima_exact (conj C20s_optima_approx (conj C20s_fronts C20s_decorators_and_peaks))) in exact t).
Proof. exact (conj C20s_optima_exact (conj C20s_optima_approx (conj C20s_fronts C20s_decorators_and_peaks))). Qed.
Print Assumptions C20s_all.
