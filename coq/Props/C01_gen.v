(* Property C01 — tie (T): the definitions regenerated from deap/base.py on this run are the model. *)
From Coq Require Import List ZArith Bool.
From DV Require Import Base.PyTuple Base.PyList Model.C01_Fitness Model.C01_PyRt Gen.C01_gen Proofs.C01_gen_equiv.
Local Open Scope Z_scope.

Theorem C01_source_is_model :
  (forall f, Fitness_valid f = valid f) /\
  (forall w f, Fitness_getValues w f = get_values w f) /\
  (forall w f v, Fitness_setValues w f v = set_values w f v) /\
  (forall f, Fitness_delValues f = del_values f) /\
  (forall a b, Fitness_lt a b = f_lt a b /\ Fitness_le a b = f_le a b /\ Fitness_eq a b = f_eq a b /\
               Fitness_ne a b = f_ne a b /\ Fitness_gt a b = f_gt a b /\ Fitness_ge a b = f_ge a b) /\
  (forall a b obj, Fitness_dominates a b obj = dominates a b obj) /\
  (forall f, Fitness_deepcopy f = deepcopy f) /\
  (forall f, violates_constraint f = violates f) /\
  (forall f, ConstrainedFitness_delValues f = c_del_values f) /\
  (forall a b, ConstrainedFitness_lt a b = c_lt a b /\ ConstrainedFitness_le a b = c_le a b /\
               ConstrainedFitness_eq a b = c_eq a b /\ ConstrainedFitness_ne a b = c_ne a b /\
               ConstrainedFitness_gt a b = c_gt a b /\ ConstrainedFitness_ge a b = c_ge a b /\
               ConstrainedFitness_dominates a b = c_dominates a b) /\
  (forall f, ConstrainedFitness_deepcopy f = c_deepcopy f).
Proof. exact source_is_model. Qed.
Print Assumptions C01_source_is_model.
