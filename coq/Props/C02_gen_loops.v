(* Tie (T) for the packaged loops eaSimple / eaMuPlusLambda / eaMuCommaLambda (deap/algorithms.py), registered
   under property C02 -- theorems only.  harness/c02_py2coq.py regenerates coq/Gen/C02_gen_loops.v from the
   CURRENT source text on every run (never committed); the regenerated loops call the regenerated
   gen_varAnd / gen_varOr of coq/Gen/C02_gen.v.

   gen_eaSimple evaluate fle ltb leb add one mate_o mut_o cxpb mutpb ngen : M lstate unit   (and the two others, with
   mu lambda_ before cxpb) is a state transformer over `mkl fs sels`: fs the `fstate` of Model/C03_Full.v (heap, draw
   stream of deap.algorithms' `random`, operator-call counter, the caller's list object, evaluate call log, logbook,
   batches shown to the hall of fame, its best), sels the answers of toolbox.select still to come.  to_fres reads the
   outcome as the model's FOk final-state / FRaise exception.  The source is specialised as the model is: a
   Statistics object and a HallOfFame are given, verbose is false, toolbox.map is the builtin lazy map.

   The *_is_model theorems: for every heap, draw stream, population, operator and evaluate oracle, the regenerated loop
   run for ngen = number of selection answers, each answer having the size the call asks for (len(population) for
   eaSimple, mu otherwise: part of the selection contract sel_in of Props/C03_full.v), is the composed model
   full_simple / full_plus / full_comma, about which Props/C03_full.v states the C03 theorems.  The *_loop_inv theorems
   transport the end-of-run form of C03_full_loop_inv_* to the regenerated text.
   If the translator refuses a loop, its generated definition is the hand model run on the state and the harness reports
   `tie: correspondence-only` for it. *)
From Coq Require Import List ZArith Bool Arith.
From DV Require Model.C02_Variation.
From DV Require Import Model.C02_GenRt Model.C03_Loops Proofs.C03_Loops Model.C03_Full Proofs.C03_Compose Model.C02_GenLoopsRt.
From DV Require Import Gen.C02_gen_loops Proofs.C02_gen_loops_equiv Proofs.C02_gen_loops_props.
Import ListNotations.
Local Open Scope nat_scope.

Theorem C02_gen_eaSimple_is_model :
  forall G F T (evaluate : G -> F) fle (ltb leb : T -> T -> bool) add one mate_o mut_o cxpb mutpb h d pop sels,
  Forall (fun sel => length sel = length pop) sels ->
  to_fres (gen_eaSimple evaluate fle ltb leb add one mate_o mut_o cxpb mutpb (Z.of_nat (length sels))
                        (mkl (finit h d pop) sels))
  = full_simple evaluate fle ltb mate_o mut_o cxpb mutpb h d pop sels.
Proof. exact (fun G F T => @gen_eaSimple_eq G F T). Qed.
Print Assumptions C02_gen_eaSimple_is_model.

Theorem C02_gen_eaMuPlusLambda_is_model :
  forall G F T (evaluate : G -> F) fle (ltb leb : T -> T -> bool) add one mate_o mut_o mu lambda_ cxpb mutpb h d pop sels,
  Forall (fun sel => length sel = mu) sels ->
  to_fres (gen_eaMuPlusLambda evaluate fle ltb leb add one mate_o mut_o (Z.of_nat mu) lambda_ cxpb mutpb
                              (Z.of_nat (length sels)) (mkl (finit h d pop) sels))
  = full_plus evaluate fle ltb leb add one mate_o mut_o lambda_ cxpb mutpb h d pop sels.
Proof. exact (fun G F T => @gen_eaMuPlusLambda_eq G F T). Qed.
Print Assumptions C02_gen_eaMuPlusLambda_is_model.

Theorem C02_gen_eaMuCommaLambda_is_model :
  forall G F T (evaluate : G -> F) fle (ltb leb : T -> T -> bool) add one mate_o mut_o mu lambda_ cxpb mutpb h d pop sels,
  Forall (fun sel => length sel = mu) sels ->
  to_fres (gen_eaMuCommaLambda evaluate fle ltb leb add one mate_o mut_o (Z.of_nat mu) lambda_ cxpb mutpb
                               (Z.of_nat (length sels)) (mkl (finit h d pop) sels))
  = full_comma evaluate fle ltb leb add one mate_o mut_o mu lambda_ cxpb mutpb h d pop sels.
Proof. exact (fun G F T => @gen_eaMuCommaLambda_eq G F T). Qed.
Print Assumptions C02_gen_eaMuCommaLambda_is_model.

(* the loop invariant of C03 (every member of the population valid with fitness = evaluate(genotype), logbook gens
   0,1,2,... with nevals = number of evaluate calls, truthful Statistics snapshots, ...) at the end of a returning run
   of the REGENERATED loop; hypotheses as in Props/C03_full.v *)
Theorem C02_gen_eaSimple_loop_inv :
  forall G F T (evaluate : G -> F) fle (ltb leb : T -> T -> bool) add one mate_o mut_o cxpb mutpb h0 d pop sels
         (e : @fstate G F T),
  (forall k x y, V.ret_distinct (V.ma_r1 (mate_o k x y)) (V.ma_r2 (mate_o k x y))) ->
  finit_ok evaluate h0 pop -> Forall (sel_in (length pop) (length pop)) sels ->
  to_fres (gen_eaSimple evaluate fle ltb leb add one mate_o mut_o cxpb mutpb (Z.of_nat (length sels))
                        (mkl (finit h0 d pop) sels)) = FOk e ->
  InvC evaluate (fview e) /\ length (f_log e) = S (length sels) /\ length (f_pop e) = length pop.
Proof. exact (fun G F T => @gen_simple_loop_inv G F T). Qed.
Print Assumptions C02_gen_eaSimple_loop_inv.

Theorem C02_gen_eaMuPlusLambda_loop_inv :
  forall G F T (evaluate : G -> F) fle (ltb leb : T -> T -> bool) add one mate_o mut_o mu lambda_ cxpb mutpb h0 d pop sels
         (e : @fstate G F T),
  finit_ok evaluate h0 pop -> sels_plus (length pop) mu (Z.to_nat lambda_) sels ->
  to_fres (gen_eaMuPlusLambda evaluate fle ltb leb add one mate_o mut_o (Z.of_nat mu) lambda_ cxpb mutpb
                              (Z.of_nat (length sels)) (mkl (finit h0 d pop) sels)) = FOk e ->
  InvC evaluate (fview e) /\ length (f_log e) = S (length sels) /\
  length (f_pop e) = match sels with [] => length pop | _ => mu end.
Proof. exact (fun G F T => @gen_plus_loop_inv G F T). Qed.
Print Assumptions C02_gen_eaMuPlusLambda_loop_inv.

Theorem C02_gen_eaMuCommaLambda_loop_inv :
  forall G F T (evaluate : G -> F) fle (ltb leb : T -> T -> bool) add one mate_o mut_o mu lambda_ cxpb mutpb h0 d pop sels
         (e : @fstate G F T),
  finit_ok evaluate h0 pop -> Forall (sel_in (Z.to_nat lambda_) mu) sels ->
  to_fres (gen_eaMuCommaLambda evaluate fle ltb leb add one mate_o mut_o (Z.of_nat mu) lambda_ cxpb mutpb
                               (Z.of_nat (length sels)) (mkl (finit h0 d pop) sels)) = FOk e ->
  InvC evaluate (fview e) /\ length (f_log e) = S (length sels) /\
  length (f_pop e) = match sels with [] => length pop | _ => mu end.
Proof. exact (fun G F T => @gen_comma_loop_inv G F T). Qed.
Print Assumptions C02_gen_eaMuCommaLambda_loop_inv.
