(* Property C14 — theorems only.
   Model: Model/C14_exec.v (generic in the scalar type; here instantiated with an arbitrary real
   closed field R through [ROps exp_ round_], exp_ being an oracle with 0 < exp_ x and round_ an
   arbitrary function).  Matrix identities: Proofs/C14_RankOne.v (mathcomp matrices, any dimension).
   Regime N3 (DESIGN 2.4): real-number semantics; floating-point rounding is not verified. *)
From Coq Require Import ZArith.
From mathcomp Require Import all_ssreflect all_algebra.
From DV Require Import Model.C14_exec Proofs.C14_RankOne Proofs.C14_Elitist Proofs.C14_Active Proofs.C14_MO Proofs.C14_Refine Proofs.C14_PlainSPD Proofs.C14_MOHistory Proofs.C14_ActiveHistory.
Import Order.TTheory GRing.Theory Num.Theory.
Set Implicit Arguments. Unset Strict Implicit. Unset Printing Implicit Defensive.
Local Open Scope ring_scope.

(* ========================================================================================= *)
(* (1+lambda), plain: StrategyOnePlusLambda                                                   *)
(* ========================================================================================= *)
Section Plain.
Variables (R : rcfType) (exp_ round_ : R -> R).
Hypothesis exp_pos : forall x, 0 < exp_ x.
Notation RO := (ROps exp_ round_).
Variables (P : pparams (T:=R)) (evalf : seq R -> seq R).

(* after any history of generate/evaluate/update rounds (any draws, any evaluation function):
   the parent's fitness is the fitness of its genotype, it is at least as good as the initial
   fitness and every fitness evaluated so far, and it is one of them *)
Theorem C14_parent_matches_genotype_and_is_best_so_far :
  forall (st0 : pstate (T:=R)) draws st log,
  plain_run RO P evalf st0 draws [::] = Some (st, log) ->
  ps_pfit st0 = evalf (ps_parent st0) ->
  [/\ ps_pfit st = evalf (ps_parent st),
      all (fun f => lex_le RO f (ps_pfit st)) (ps_pfit st0 :: log) &
      ps_pfit st \in ps_pfit st0 :: log].
Proof. exact: plain_history_elitist. Qed.

(* the parent's fitness never gets worse between two points of a history *)
Theorem C14_parent_never_worse :
  forall (st0 : pstate (T:=R)) d1 d2 st2 log2,
  plain_run RO P evalf st0 (d1 ++ d2) [::] = Some (st2, log2) ->
  ps_pfit st0 = evalf (ps_parent st0) ->
  exists st1 log1, plain_run RO P evalf st0 d1 [::] = Some (st1, log1) /\
                   lex_le RO (ps_pfit st1) (ps_pfit st2).
Proof. exact: plain_history_monotone. Qed.

(* replacement exactly under  parent.fitness <= best offspring fitness, by the first best *)
Theorem C14_parent_replaced_iff :
  forall (st : pstate (T:=R)) pop st' sorted best,
  plain_update RO P st pop = Some (st', sorted) ->
  first_max (ind_le exp_ round_) pop = Some best ->
  (ps_parent st', ps_pfit st') =
  (if lex_le RO (ps_pfit st) best.2 then best else (ps_parent st, ps_pfit st)).
Proof. exact: plain_update_replaced_iff. Qed.

(* success rate in [0,1], step size positive, along any history with lambda rows per draw *)
Theorem C14_psucc_in_01_sigma_pos :
  forall (st0 : pstate (T:=R)) draws st log,
  plain_run RO P evalf st0 draws [::] = Some (st, log) ->
  0 <= pp_cp P <= 1 -> all (fun arz : seq (seq R) => size arz == pp_lambda P) draws ->
  0 <= ps_psucc st0 <= 1 -> 0 < ps_sigma st0 ->
  0 <= ps_psucc st <= 1 /\ 0 < ps_sigma st.
Proof. exact: plain_history_psucc_sigma. Qed.

(* the covariance follows the published success rule (both branches), the path likewise, and the
   sampling factor is the Cholesky routine applied to the new covariance *)
Theorem C14_C_follows_success_rule :
  forall (st : pstate (T:=R)) pop st' sorted,
  plain_update RO P st pop = Some (st', sorted) ->
  exists best : pind (T:=R),
  [/\ first_max (ind_le exp_ round_) pop = Some best,
      sorted = sort_desc (fun a b => lex_lt RO a.2 b.2) pop,
      ps_psucc st' = (1 - pp_cp P) * ps_psucc st
                     + pp_cp P * ((count (fun ind : pind (T:=R) => lex_le RO (ps_pfit st) ind.2) pop)%:R / (pp_lambda P)%:R),
      ps_sigma st' = ps_sigma st * exp_ (1 / pp_d P * (ps_psucc st' - pp_ptarg P) / (1 - pp_ptarg P)) &
      ps_A st' = cholesky RO (ps_C st')] /\
      if lex_le RO (ps_pfit st) best.2 then
        [/\ ps_parent st' = best.1, ps_pfit st' = best.2 &
            if ps_psucc st' < pp_pthresh P then
              ps_pc st' = vadd RO (vscale RO (1 - pp_cc P) (ps_pc st))
                            (vscale RO (Num.sqrt (pp_cc P * (2%:R - pp_cc P)))
                                    (vdivs RO (vsub RO best.1 (ps_parent st)) (ps_sigma st))) /\
              ps_C st' = madd RO (mscale RO (1 - pp_ccov P) (ps_C st))
                                 (mscale RO (pp_ccov P) (outer RO (ps_pc st') (ps_pc st')))
            else
              ps_pc st' = vscale RO (1 - pp_cc P) (ps_pc st) /\
              ps_C st' = madd RO (mscale RO (1 - pp_ccov P) (ps_C st))
                            (mscale RO (pp_ccov P)
                               (madd RO (outer RO (ps_pc st') (ps_pc st'))
                                        (mscale RO (pp_cc P * (2%:R - pp_cc P)) (ps_C st))))]
      else [/\ ps_parent st' = ps_parent st, ps_pfit st' = ps_pfit st, ps_pc st' = ps_pc st & ps_C st' = ps_C st].
Proof. exact: plain_update_spec. Qed.
End Plain.
Print Assumptions C14_parent_matches_genotype_and_is_best_so_far.
Print Assumptions C14_parent_never_worse.
Print Assumptions C14_parent_replaced_iff.
Print Assumptions C14_psucc_in_01_sigma_pos.
Print Assumptions C14_C_follows_success_rule.

(* cp in (0,1) etc. from the default formulas of computeParams *)
Theorem C14_plain_defaults_in_range :
  forall (R : rcfType) (exp_ round_ : R -> R) dim lam, (0 < lam)%nat ->
  let P := plain_defaults (ROps exp_ round_) dim lam in
  [/\ 0 < pp_cp P < 1, 0 < pp_ptarg P < 1, 0 < pp_d P, 0 < pp_ccov P < 1 & 0 < pp_cc P <= 1].
Proof. move=> R e r; exact: plain_defaults_ok. Qed.
Print Assumptions C14_plain_defaults_in_range.

(* ========================================================================================= *)
(* (1+lambda), active: StrategyActiveOnePlusLambda — elitism                                   *)
(* ========================================================================================= *)
Section ActiveElitism.
Variables (R : rcfType) (exp_ round_ : R -> R).
Hypothesis exp_pos : forall x, 0 < exp_ x.
Notation RO := (ROps exp_ round_).
Variables (dim : nat) (P : aparams (T:=R)) (evalfit : seq R -> fitness (T:=R)).

Theorem C14_active_parent_elitist :
  forall (st0 : astate (T:=R)) draws st log,
  active_run RO dim P evalfit st0 draws [::] = Some (st, log) ->
  as_pfit st0 = Some (evalfit (as_parent st0)) ->
  exists pf, [/\ as_pfit st = Some (evalfit (as_parent st)), as_pfit st = Some pf,
                 c_le RO (evalfit (as_parent st0)) pf,
                 all (fun f => f_valid f ==> c_le RO f pf) log &
                 pf \in evalfit (as_parent st0) :: log].
Proof. exact: active_history_elitist. Qed.

(* one update from an evaluated parent: never worse, at least as good as every evaluated
   offspring, and either unchanged or an evaluated offspring at least as good as the old parent *)
Theorem C14_active_update_elitist :
  forall (st : astate (T:=R)) pop invs pf,
  as_pfit st = Some pf ->
  let st' := (active_update RO dim P st pop invs).1 in
  exists pf', [/\ as_pfit st' = Some pf', c_le RO pf pf',
     all (fun i => c_le RO (ai_fit i) pf') (valid_pop pop) &
     (as_parent st' = as_parent st /\ pf' = pf) \/
     exists2 i, i \in valid_pop pop &
        [/\ as_parent st' = ai_x i, pf' = ai_fit i & c_le RO pf (ai_fit i)]].
Proof. exact: active_update_elitist. Qed.

(* a parent without fitness attribute is replaced by the first best evaluated offspring *)
Theorem C14_active_bare_parent :
  forall (st : astate (T:=R)) pop invs best,
  as_pfit st = None -> first_max (ai_le exp_ round_) (valid_pop pop) = Some best ->
  let st' := (active_update RO dim P st pop invs).1 in
  [/\ as_parent st' = ai_x best, as_pfit st' = Some (ai_fit best) &
      all (fun i => c_le RO (ai_fit i) (ai_fit best)) (valid_pop pop)].
Proof. exact: active_update_bare. Qed.

Theorem C14_active_psucc_in_01_sigma_pos :
  forall (st0 : astate (T:=R)) draws st log,
  active_run RO dim P evalfit st0 draws [::] = Some (st, log) ->
  0 <= ap_cp P <= 1 -> 0 <= as_psucc st0 <= 1 -> 0 < as_sigma st0 ->
  0 <= as_psucc st <= 1 /\ 0 < as_sigma st.
Proof. exact: active_history_psucc_sigma. Qed.
End ActiveElitism.
Print Assumptions C14_active_parent_elitist.
Print Assumptions C14_active_update_elitist.
Print Assumptions C14_active_bare_parent.
Print Assumptions C14_active_psucc_in_01_sigma_pos.

Theorem C14_active_defaults_in_range :
  forall (R : rcfType) (exp_ round_ : R -> R) dim lam (ccovn : R) S_int, (0 < lam)%nat -> 0 <= ccovn ->
  let P := active_defaults (ROps exp_ round_) dim lam ccovn S_int in
  [/\ 0 < ap_cp P < 1, 0 < ap_ptarg P < 1, 0 < ap_ccovp P < 1,
      ap_ccovp P * (1 + ap_cc P * (2%:R - ap_cc P)) < 1 & 0 < ap_beta P < 1].
Proof. move=> R e r; exact: active_defaults_ok. Qed.
Print Assumptions C14_active_defaults_in_range.

(* ========================================================================================= *)
(* rank-one update of a factor and of its inverse (any dimension n, any real closed field)      *)
(* ========================================================================================= *)
Theorem C14_rank_one_cov :
  forall (R : rcfType) (n : nat) (A iA : 'M[R]_n) (v : 'cV[R]_n) (alpha beta : R),
  iA *m A = 1%:M -> nrm2 (iA *m v) != 0 -> 0 < alpha -> 0 <= 1 + beta / alpha * nrm2 (iA *m v) ->
  A' A iA v alpha beta *m (A' A iA v alpha beta)^T = alpha *: (A *m A^T) + beta *: (v *m v^T).
Proof. move=> R n; exact: rank_one_cov. Qed.
Print Assumptions C14_rank_one_cov.

Theorem C14_rank_one_inv :
  forall (R : rcfType) (n : nat) (A iA : 'M[R]_n) (v : 'cV[R]_n) (alpha beta : R),
  iA *m A = 1%:M -> nrm2 (iA *m v) != 0 -> 0 < alpha -> 0 < 1 + beta / alpha * nrm2 (iA *m v) ->
  iA' iA v alpha beta *m A' A iA v alpha beta = 1%:M.
Proof. move=> R n; exact: rank_one_inv. Qed.
Print Assumptions C14_rank_one_inv.

(* StrategyMultiObjective._rankOneUpdate, both success-rate branches are instances
   (alpha = 1 - ccov or 1 - ccov + cc (2 - cc), beta = ccov >= 0); a skipped update is alpha = 1, beta = 0 *)
Theorem C14_mo_rank_one :
  forall (R : rcfType) (n : nat) (eps : R) (iA A : 'M[R]_n) (alpha beta : R) (v : 'cV[R]_n),
  0 <= eps -> iA *m A = 1%:M -> 0 < alpha -> 0 <= beta ->
  let: (iA2, A2) := mo_rank_one eps iA A alpha beta v in
  iA2 *m A2 = 1%:M /\
  exists al be : R, [/\ 0 < al,
     A2 *m A2^T = al *: (A *m A^T) + be *: (v *m v^T) &
     (al, be) = (alpha, beta) \/ (al, be) = (1, 0)].
Proof. move=> R n; exact: mo_rank_one_ok. Qed.
Print Assumptions C14_mo_rank_one.

(* StrategyActiveOnePlusLambda._rank1update: the three covariance branches *)
Theorem C14_active_success_low :
  forall (R : rcfType) (n : nat) (iA A : 'M[R]_n) (pc : 'cV[R]_n) (ccovp : R),
  iA *m A = 1%:M -> 0 < ccovp < 1 ->
  let w := iA *m pc in let nw := nrm2 w in nw != 0 ->
  let a := Num.sqrt (1 - ccovp) in
  let b := Num.sqrt (1 - ccovp) / nw * (Num.sqrt (1 + ccovp / (1 - ccovp) * nw) - 1) in
  act_iA a b nw iA w *m act_A a b A w = 1%:M /\
  act_A a b A w *m (act_A a b A w)^T = (1 - ccovp) *: (A *m A^T) + ccovp *: (pc *m pc^T).
Proof. move=> R n; exact: act_branch_success_low. Qed.
Print Assumptions C14_active_success_low.

Theorem C14_active_success_high :
  forall (R : rcfType) (n : nat) (iA A : 'M[R]_n) (pc : 'cV[R]_n) (ccovp cc : R),
  iA *m A = 1%:M -> 0 < ccovp -> ccovp * (1 + cc * (2 - cc)) < 1 ->
  let w := iA *m pc in let nw := nrm2 w in nw != 0 ->
  let d := ccovp * (1 + cc * (2 - cc)) in
  let a := Num.sqrt (1 - d) in
  let b := Num.sqrt (1 - d) * (Num.sqrt (1 + ccovp * nw / (1 - d)) - 1) / nw in
  act_iA a b nw iA w *m act_A a b A w = 1%:M /\
  act_A a b A w *m (act_A a b A w)^T = (1 - d) *: (A *m A^T) + ccovp *: (pc *m pc^T).
Proof. move=> R n; exact: act_branch_success_high. Qed.
Print Assumptions C14_active_success_high.

(* negative (active) update along the mutation step A z: beta = - ccovn; the clamp of ccovn keeps
   the radicand >= 1/2, so the update is defined for every non-zero z *)
Theorem C14_active_negative :
  forall (R : rcfType) (n : nat) (iA A : 'M[R]_n) (z : 'cV[R]_n) (ccovn0 : R),
  iA *m A = 1%:M -> 0 <= ccovn0 ->
  let nw := nrm2 z in nw != 0 ->
  let ccovn := clamp_ccovn ccovn0 nw in
  let a := Num.sqrt (1 + ccovn) in
  let b := Num.sqrt (1 + ccovn) / nw * (Num.sqrt (1 - ccovn / (1 + ccovn) * nw) - 1) in
  [/\ 2^-1 <= 1 - ccovn / (1 + ccovn) * nw,
      act_iA a b nw iA z *m act_A a b A z = 1%:M &
      act_A a b A z *m (act_A a b A z)^T =
        (1 + ccovn) *: (A *m A^T) - ccovn *: ((A *m z) *m (A *m z)^T)].
Proof. move=> R n; exact: act_branch_negative. Qed.
Print Assumptions C14_active_negative.

(* _infeasible_update with one violated constraint: rank-one reduction along the constraint
   vector; A' is invertible with the stated inverse (so numpy.linalg.inv, whose contract is
   inv(A') A' = I, must return it) *)
Theorem C14_constraint_single :
  forall (R : rcfType) (n : nat) (iA A : 'M[R]_n) (v : 'cV[R]_n) (beta : R),
  iA *m A = 1%:M -> beta < 1 ->
  let w := iA *m v in let nw := nrm2 w in nw != 0 ->
  let A2 := A - (beta / nw) *: (v *m w^T) in
  let iA2 := iA + (beta / ((1 - beta) * nw)) *: (w *m (w^T *m iA)) in
  iA2 *m A2 = 1%:M /\
  A2 *m A2^T = A *m A^T + ((beta ^+ 2 - beta *+ 2) / nw) *: (v *m v^T).
Proof. move=> R n; exact: constraint_single. Qed.
Print Assumptions C14_constraint_single.

(* ========================================================================================= *)
(* multi-objective: selection and alignment                                                     *)
(* ========================================================================================= *)
(* whole fronts first, then repeated removal of the indicator's index from the mid front *)
Theorem C14_select_rank_then_hv :
  forall (T : Type) (Op : Ops T) mu (wvs : seq (seq T)) hv,
  (mu < size wvs)%nat -> size (flatten (nd_fronts Op wvs)) = size wvs ->
  let fronts := nd_fronts Op wvs in
  let j := nfit mu fronts 0 in
  let ch := flatten (take j fronts) in
  (j < size fronts)%nat /\
  mo_select Op mu wvs hv =
    if size ch == mu then (ch, flatten (drop j fronts), [::])
    else let fj := nth [::] fronts j in
         let k := (mu - size ch)%nat in
         let: (m', rem, seen) := hv_removals (size fj - k) fj hv [::] [::] in
         (ch ++ m', flatten (drop j.+1 fronts) ++ rem, seen).
Proof. move=> T Op; exact: mo_select_spec. Qed.
Print Assumptions C14_select_rank_then_hv.

(* exactly mu survivors and a partition of the candidates (weighted values of a common length d,
   indicator indices in range) *)
Theorem C14_select_exactly_mu :
  forall (R : rcfType) (exp_ round_ : R -> R) d mu (wvs : seq (seq R)) hv,
  all (fun w => size w == d) wvs -> (mu < size wvs)%nat ->
  let fronts := nd_fronts (ROps exp_ round_) wvs in
  let j := nfit mu fronts 0 in
  let fj := nth [::] fronts j in
  let k := (mu - size (flatten (take j fronts)))%nat in
  hv_ok (size fj - k) fj hv ->
  let: (chosen, not_chosen, seen) := mo_select (ROps exp_ round_) mu wvs hv in
  size chosen = mu /\ perm_eq (chosen ++ not_chosen) (iota 0 (size wvs)).
Proof. move=> R e r; exact: mo_select_exactly_mu_R. Qed.
Print Assumptions C14_select_exactly_mu.

(* the fronts are the non-domination ranks (peeling) *)
Theorem C14_fronts_are_ranks :
  forall (R : rcfType) (exp_ round_ : R -> R) d fuel (rest : seq (nat * seq R)),
  all (fun x : nat * seq R => size x.2 == d) rest -> (size rest <= fuel)%nat ->
  forall i, (i < size (peel (ROps exp_ round_) fuel rest))%nat ->
    let F := peel (ROps exp_ round_) fuel rest in
    let later := flatten (drop i F) in
    (forall x, x \in nth [::] F i -> undominated (ROps exp_ round_) later x) /\
    (forall y, y \in flatten (drop i.+1 F) -> ~~ undominated (ROps exp_ round_) later y).
Proof. move=> R e r; exact: peel_sound. Qed.
Print Assumptions C14_fronts_are_ranks.

(* after update every per-parent list has one entry per surviving individual, in the order of the
   new parents; entry i is the updated copy of its parent's entry for an offspring and the old
   entry of the same parent for a surviving parent *)
Theorem C14_params_aligned :
  forall (T : Type) (Op : Ops T) P st (chosen not_chosen : seq (mind (T:=T))),
  let st' := mo_update_core Op P st chosen not_chosen in
  let: (recs, psL1, sgL1) := mo_loop_chosen Op P st chosen (ms_psucc st) (ms_sigmas st) in
  let: (psL, sgL) := mo_loop_not_chosen Op P not_chosen psL1 sgL1 in
  [/\ ms_parents st' = [seq mi_x ind | ind <- chosen] /\ ms_pfits st' = [seq mi_wv ind | ind <- chosen],
      ms_A st' = [seq entry Op P st (@mr_A T) (ms_A st) [::] ind | ind <- chosen] /\
      ms_invC st' = [seq entry Op P st (@mr_invC T) (ms_invC st) [::] ind | ind <- chosen],
      ms_pc st' = [seq entry Op P st (@mr_pc T) (ms_pc st) [::] ind | ind <- chosen],
      ms_psucc st' = [seq entry Op P st (@mr_psucc T) psL (c0 Op) ind | ind <- chosen] &
      ms_sigmas st' = [seq entry Op P st (@mr_sigma T) sgL (c0 Op) ind | ind <- chosen]].
Proof. move=> T Op; exact: mo_update_core_aligned. Qed.
Print Assumptions C14_params_aligned.

Theorem C14_mo_psucc_in_01_sigma_pos :
  forall (R : rcfType) (exp_ round_ : R -> R), (forall x, 0 < exp_ x) ->
  forall P st (chosen not_chosen : seq (mind (T:=R))),
  0 <= mp_cp P <= 1 ->
  all (@in01 R) (ms_psucc st) -> all (@pos R) (ms_sigmas st) -> size (ms_sigmas st) = size (ms_psucc st) ->
  all (fun ind : mind (T:=R) => (mi_pidx ind < size (ms_sigmas st))%nat) chosen ->
  let st' := mo_update_core (ROps exp_ round_) P st chosen not_chosen in
  all (@in01 R) (ms_psucc st') /\ all (@pos R) (ms_sigmas st').
Proof. move=> R e r ep P st ch nc cp; exact: mo_update_core_ranges. Qed.
Print Assumptions C14_mo_psucc_in_01_sigma_pos.

(* plain (1+lambda): under the success rule the covariance stays symmetric positive definite, it is
   the old one times a positive factor plus a non-negative multiple of pc pc^T, and — given the
   contract of the Cholesky routine (oracle hypothesis chol_contract: on a symmetric positive
   definite C it returns A with A A^T = C) — the sampling factor satisfies A A^T = C after every
   update of every history *)
Theorem C14_plain_C_stays_spd :
  forall (R : rcfType) (exp_ round_ : R -> R) (n : nat) (P : pparams (T:=R)),
  0 < pp_ccov P < 1 -> 0 <= pp_cc P <= 1 ->
  forall st pop st' sorted,
  plain_update (ROps exp_ round_) P st pop = Some (st', sorted) ->
  wf_ps n st -> all (fun ind : pind (T:=R) => wfv n ind.1) pop ->
  wf_ps n st' /\
  exists (a b : R) (p : 'cV[R]_n), [/\ 0 < a, 0 <= b &
     mx_of n (ps_C st') = a *: mx_of n (ps_C st) + b *: (p *m p^T)].
Proof. move=> R e r n P c1 c2 st pop st' sorted; exact: plain_update_spd. Qed.
Print Assumptions C14_plain_C_stays_spd.

Theorem C14_plain_A_is_cholesky_factor :
  forall (R : rcfType) (exp_ round_ : R -> R) (n : nat) (P : pparams (T:=R)),
  0 < pp_ccov P < 1 -> 0 <= pp_cc P <= 1 ->
  forall (evalf : seq R -> seq R) st0 draws log st log',
  chol_contract exp_ round_ n ->
  plain_run (ROps exp_ round_) P evalf st0 draws log = Some (st, log') ->
  factor_inv n st0 -> factor_inv n st.
Proof. move=> R e r n P c1 c2 evalf st0 draws log st log'; exact: plain_history_factor. Qed.
Print Assumptions C14_plain_A_is_cholesky_factor.

(* ========================================================================================= *)
(* the factor updates OF THE EXECUTABLE MODEL (lists of rows read as n x n matrices by mx_of)    *)
(* ========================================================================================= *)
(* StrategyMultiObjective._rankOneUpdate of the model = the matrix-level update; hence the stored
   inverse stays exact and the covariance changes by alpha * old + beta * v v^T (or not at all) *)
Theorem C14_model_mo_rank_one :
  forall (R : rcfType) (exp_ round_ : R -> R) (n : nat) invC A (alpha beta : R) v,
  wfm n invC -> wfm n A -> wfv n v -> mx_of n invC *m mx_of n A = 1%:M -> 0 < alpha -> 0 <= beta ->
  let: (iC', A') := C14_exec.mo_rank_one (ROps exp_ round_) invC A alpha beta v in
  [/\ wfm n iC', wfm n A', mx_of n iC' *m mx_of n A' = 1%:M &
      exists al be : R, [/\ 0 < al,
        mx_of n A' *m (mx_of n A')^T =
          al *: (mx_of n A *m (mx_of n A)^T) + be *: (vec_of n v *m (vec_of n v)^T) &
        (al, be) = (alpha, beta) \/ (al, be) = (1, 0)]].
Proof. move=> R e r n; exact: mo_rank_one_model_ok. Qed.
Print Assumptions C14_model_mo_rank_one.

(* update of the multi-objective strategy: every stored inverse factor is the inverse of its
   factor after the update (and the state stays well-formed), whoever survives *)
Theorem C14_model_mo_update_keeps_inverse :
  forall (R : rcfType) (exp_ round_ : R -> R) (n : nat) P st (chosen not_chosen : seq (mind (T:=R))),
  wf_ms n st -> inv_ok_ms n st ->
  0 < mp_ccov P < 1 -> 0 <= mp_cc P <= 1 ->
  all (fun ind : mind (T:=R) => (mi_pidx ind < size (ms_parents st))%nat && wfv n (mi_x ind)) chosen ->
  let st' := mo_update_core (ROps exp_ round_) P st chosen not_chosen in
  wf_ms n st' /\ inv_ok_ms n st'.
Proof. move=> R e r n; exact: mo_update_core_inverse. Qed.
Print Assumptions C14_model_mo_update_keeps_inverse.

(* StrategyActiveOnePlusLambda._rank1update of the model (all branches, repaired inverse update):
   invA stays the inverse of A and A A^T changes by a positive multiple plus a multiple of v v^T;
   hypothesis nz: the vector w used by the branch taken is non-zero (the code divides by |w|^2) *)
Theorem C14_model_active_rank1update :
  forall (R : rcfType) (exp_ round_ : R -> R) (n : nat) (P : aparams (T:=R)) (st : astate (T:=R))
         (ind : aind (T:=R)) (ps : R),
  wfm n (as_A st) -> wfm n (as_invA st) -> wfv n (as_pc st) -> wfv n (ai_y ind) -> wfv n (ai_z ind) ->
  mx_of n (as_invA st) *m mx_of n (as_A st) = 1%:M ->
  0 < ap_ccovp P < 1 -> ap_ccovp P * (1 + ap_cc P * (2%:R - ap_cc P)) < 1 -> 0 <= ap_ccovn P ->
  (forall w, r1_w exp_ round_ P st ind ps = Some w -> nrm2 (vec_of n w) != 0) ->
  let st' := rank1update (ROps exp_ round_) P st ind ps in
  [/\ wfm n (as_A st'), wfm n (as_invA st'), wfv n (as_pc st'),
      mx_of n (as_invA st') *m mx_of n (as_A st') = 1%:M &
      exists (alpha beta : R) (v : 'cV[R]_n), 0 < alpha /\
        mx_of n (as_A st') *m (mx_of n (as_A st'))^T =
          alpha *: (mx_of n (as_A st) *m (mx_of n (as_A st))^T) + beta *: (v *m v^T)].
Proof. move=> R e r n; exact: rank1update_factors. Qed.
Print Assumptions C14_model_active_rank1update.

(* multi-objective strategy, whole histories from __init__ (any draws, any evaluation function
   returning d objectives; hypotheses draws_ok: lambda rows per draw, lambda parent draws when
   lambda != mu, indicator indices in range): after every round there are exactly mu parents, all
   per-parent lists have mu well-formed entries, and every stored inverse factor is the inverse of
   its factor (minv = wf_ms /\ inv_ok_ms /\ sizes = mu /\ fitness tuples of length d) *)
Theorem C14_mo_history_keeps_mu_and_inverse :
  forall (R : rcfType) (exp_ round_ : R -> R) (n d : nat) (P : mparams (T:=R)) (evalf : seq R -> seq R),
  0 < mp_ccov P < 1 -> 0 <= mp_cc P <= 1 -> (0 < mp_mu P)%nat -> (0 < mp_lambda P)%nat ->
  (forall x, size (evalf x) = d) ->
  forall (population : seq (seq R * seq R)) sigma draws,
  size population = mp_mu P ->
  all (fun xw : seq R * seq R => wfv n xw.1 && (size xw.2 == d)) population ->
  draws_ok exp_ round_ P evalf (mo_init (ROps exp_ round_) n P population sigma) draws ->
  minv n d P (mo_run (ROps exp_ round_) P evalf (mo_init (ROps exp_ round_) n P population sigma) draws).
Proof. move=> R e r n d P evalf c1 c2 m0 l0 es pop sg draws; exact: mo_history_from_init. Qed.
Print Assumptions C14_mo_history_keeps_mu_and_inverse.

(* active (1+lambda), whole histories from __init__: A, invA, pc stay well-formed and invA is the
   inverse of A after every update, covariance updates and constraint updates included.
   Hypotheses adraws_ok (for every round): the recorded y and z vectors have the dimension, the
   vector used by the covariance branch taken is non-zero, and every recorded numpy.linalg.inv
   value satisfies the contract of inv (well-formed, inv(A') A' = I) *)
Theorem C14_active_history_keeps_inverse :
  forall (R : rcfType) (exp_ round_ : R -> R) (n : nat) (P : aparams (T:=R)),
  0 < ap_ccovp P < 1 -> ap_ccovp P * (1 + ap_cc P * (2%:R - ap_cc P)) < 1 -> 0 <= ap_ccovn P ->
  forall (evalfit : seq R -> fitness (T:=R)) parent pfit sigma draws log st log',
  active_run (ROps exp_ round_) n P evalfit (active_init (ROps exp_ round_) n P parent pfit sigma) draws log
    = Some (st, log') ->
  adraws_ok exp_ round_ n P evalfit (active_init (ROps exp_ round_) n P parent pfit sigma) draws ->
  ainv n st.
Proof.
move=> R e r n P c1 c2 c3 evalfit parent pfit sigma draws log st log' H ok.
exact: (active_history_ainv c1 c2 c3 H (active_init_ainv e r n P parent pfit sigma) ok).
Qed.
Print Assumptions C14_active_history_keeps_inverse.

(* ========================================================================================= *)
(* non-vacuity: the hypotheses are satisfiable                                                   *)
(* ========================================================================================= *)
Example C14_nonvacuous_rank_one (R : rcfType) :
  exists (A iA : 'M[R]_2) (v : 'cV[R]_2) (alpha beta : R),
  [/\ iA *m A = 1%:M, nrm2 (iA *m v) != 0, 0 < alpha & 0 < 1 + beta / alpha * nrm2 (iA *m v)].
Proof.
have E : nrm2 (1%:M *m \col_(i < 2) 1) = 2%:R :> R.
  by rewrite mul1mx nrm2_sum big_ord_recl big_ord1 !mxE expr1n.
exists 1%:M, 1%:M, (\col_i 1), 1, 1; rewrite E mul1mx; split=> //.
- by rewrite pnatr_eq0.
- exact: ltr01.
- by rewrite divr1 mul1r -[1]/(1%:R) -natrD ltr0n.
Qed.

Example C14_nonvacuous_exp (R : rcfType) : exists exp_ : R -> R, forall x, 0 < exp_ x.
Proof. by exists (fun _ => 1) => x; exact: ltr01. Qed.

Example C14_nonvacuous_select : hv_ok 2 [:: 3; 5; 7]%nat [:: 1; 0]%nat.
Proof. by []. Qed.
