(* Property C14 — theorems only (work in progress: rank-one part). *)
From mathcomp Require Import all_ssreflect all_algebra.
From DV Require Import Proofs.C14_RankOne.
Import GRing.Theory Num.Theory.
Local Open Scope ring_scope.

Theorem C14_rank_one_cov : forall (R : rcfType) (n : nat) (A iA : 'M[R]_n) (v : 'cV[R]_n) (alpha beta : R),
  iA *m A = 1%:M -> nrm2 (iA *m v) != 0 -> 0 < alpha -> 0 <= 1 + beta / alpha * nrm2 (iA *m v) ->
  A' A iA v alpha beta *m (A' A iA v alpha beta)^T = alpha *: (A *m A^T) + beta *: (v *m v^T).
Proof. exact: rank_one_cov. Qed.
Print Assumptions C14_rank_one_cov.
