(* Property C14 — tie (T): C14 theorems restated on the definitions REGENERATED from the current source text of
   deap/cma.py (coq/Gen/C14_gen.v, written by harness/c14_py2coq.py on every run and never committed).
   Theorems only; proofs in Proofs/C14_gen_equiv.v.  Instance: an arbitrary real closed field through
   [ROps exp_ round_] (regime N3), as in Props/C14.v.  If the translator refused a function, its regenerated
   definition is the hand model's term and the theorem about it says nothing new (the harness reports that function
   as correspondence-only). *)
From Coq Require Import ZArith.
From mathcomp Require Import all_ssreflect all_algebra.
From DV Require Import Model.C14_exec Model.C14_GenRt Proofs.C14_Elitist Gen.C14_gen Proofs.C14_gen_equiv.
Import Order.TTheory GRing.Theory Num.Theory.
Set Implicit Arguments. Unset Strict Implicit. Unset Printing Implicit Defensive.
Local Open Scope ring_scope.

(* ---- regenerated = hand model, for all arguments ---- *)
Theorem C14_gen_plain_computeParams_is_model :
  forall (R : rcfType) (exp_ round_ : R -> R) dim lam,
  gen_plain_computeParams (ROps exp_ round_) dim lam = plain_defaults (ROps exp_ round_) dim lam.
Proof. exact: gen_plain_computeParams_eq. Qed.
Print Assumptions C14_gen_plain_computeParams_is_model.

Theorem C14_gen_plain_update_scalar_is_model :
  forall (R : rcfType) (exp_ round_ : R -> R) (P : pparams (T:=R)) pfit psucc sigma pop,
  gen_plain_update_scalar (ROps exp_ round_) P pfit psucc sigma pop =
  plain_update_scalar (ROps exp_ round_) P pfit psucc sigma pop.
Proof. exact: gen_plain_update_scalar_eq. Qed.
Print Assumptions C14_gen_plain_update_scalar_is_model.

Theorem C14_gen_active_computeParams_is_model :
  forall (R : rcfType) (exp_ round_ : R -> R) dim lam ccovn S_int,
  gen_active_computeParams (ROps exp_ round_) dim lam ccovn S_int =
  (active_defaults (ROps exp_ round_) dim lam ccovn S_int,
   ap_ptarg (active_defaults (ROps exp_ round_) dim lam ccovn S_int)).
Proof. exact: gen_active_computeParams_eq. Qed.
Print Assumptions C14_gen_active_computeParams_is_model.

Theorem C14_gen_mo_computeParams_is_model :
  forall (R : rcfType) (exp_ round_ : R -> R) dim mu lam,
  gen_mo_computeParams (ROps exp_ round_) dim mu lam =
  (mo_defaults (ROps exp_ round_) dim mu lam, mp_ptarg (mo_defaults (ROps exp_ round_) dim mu lam)).
Proof. exact: gen_mo_params_are_model. Qed.
Print Assumptions C14_gen_mo_computeParams_is_model.

(* ---- C14 theorems on the regenerated definitions ---- *)
(* the model's update moves the scalar state exactly as the regenerated slice of the current source says, and the
   parent is replaced (by the head of the sorted population) exactly when the regenerated test says so; the fourth
   component is the test that selects the branch of the path / covariance code *)
Theorem C14_gen_update_follows_regenerated_slice :
  forall (R : rcfType) (exp_ round_ : R -> R) (P : pparams (T:=R)) st pop st' sorted,
  plain_update (ROps exp_ round_) P st pop = Some (st', sorted) ->
  exists best rest,
  [/\ sorted = best :: rest, sorted = sort_desc (fun a b => lex_lt (ROps exp_ round_) a.2 b.2) pop,
      gen_plain_update_scalar (ROps exp_ round_) P (ps_pfit st) (ps_psucc st) (ps_sigma st) pop =
        Some (ps_psucc st', ps_sigma st', lex_le (ROps exp_ round_) (ps_pfit st) best.2, ps_psucc st' < pp_pthresh P) &
      (ps_parent st', ps_pfit st') =
      (if lex_le (ROps exp_ round_) (ps_pfit st) best.2 then best else (ps_parent st, ps_pfit st))].
Proof. exact: gen_plain_update_scalar_spec. Qed.
Print Assumptions C14_gen_update_follows_regenerated_slice.

(* success rate stays in [0,1] and the step size positive, on the regenerated slice *)
Theorem C14_gen_psucc_in_01_sigma_pos :
  forall (R : rcfType) (exp_ round_ : R -> R) (P : pparams (T:=R)) pfit psucc sigma pop ps' sg' rep low,
  (forall x, 0 < exp_ x) ->
  gen_plain_update_scalar (ROps exp_ round_) P pfit psucc sigma pop = Some (ps', sg', rep, low) ->
  0 <= pp_cp P <= 1 -> size pop = pp_lambda P -> 0 <= psucc <= 1 -> 0 < sigma ->
  [/\ 0 <= ps' <= 1, 0 < sg' & low = (ps' < pp_pthresh P)].
Proof. exact: gen_plain_update_scalar_range. Qed.
Print Assumptions C14_gen_psucc_in_01_sigma_pos.

(* default parameters computed by the regenerated computeParams are in their ranges *)
Theorem C14_gen_plain_defaults_in_range :
  forall (R : rcfType) (exp_ round_ : R -> R) dim lam, (0 < lam)%nat ->
  let P := gen_plain_computeParams (ROps exp_ round_) dim lam in
  [/\ 0 < pp_cp P < 1, 0 < pp_ptarg P < 1, 0 < pp_d P, 0 < pp_ccov P < 1 & 0 < pp_cc P <= 1].
Proof. exact: gen_plain_defaults_ok. Qed.
Print Assumptions C14_gen_plain_defaults_in_range.

Theorem C14_gen_active_defaults_in_range :
  forall (R : rcfType) (exp_ round_ : R -> R) dim lam (ccovn : R) S_int, (0 < lam)%nat -> 0 <= ccovn ->
  let P := (gen_active_computeParams (ROps exp_ round_) dim lam ccovn S_int).1 in
  [/\ 0 < ap_cp P < 1, 0 < ap_ptarg P < 1, 0 < ap_ccovp P < 1,
      ap_ccovp P * (1 + ap_cc P * (2%:R - ap_cc P)) < 1 & 0 < ap_beta P < 1] /\
  (gen_active_computeParams (ROps exp_ round_) dim lam ccovn S_int).2 = ap_ptarg P.
Proof. exact: gen_active_defaults_ok. Qed.
Print Assumptions C14_gen_active_defaults_in_range.

(* ---- StrategyActiveOnePlusLambda._rank1update: success rate and step size ---- *)
Theorem C14_gen_active_rank1_scalar_is_model :
  forall (R : rcfType) (exp_ round_ : R -> R) (P : aparams (T:=R)) psucc sigma p_succ,
  gen_active_rank1_scalar (ROps exp_ round_) P psucc sigma p_succ =
  active_rank1_scalar (ROps exp_ round_) P psucc sigma p_succ.
Proof. exact: gen_active_rank1_scalar_eq. Qed.
Print Assumptions C14_gen_active_rank1_scalar_is_model.

(* the model's _rank1update moves (psucc, sigma) exactly as the regenerated slice of the current source says,
   whatever branch its covariance code takes *)
Theorem C14_gen_active_rank1_follows_regenerated_slice :
  forall (R : rcfType) (exp_ round_ : R -> R) (P : aparams (T:=R)) st ind p_succ,
  (as_psucc (rank1update (ROps exp_ round_) P st ind p_succ),
   as_sigma (rank1update (ROps exp_ round_) P st ind p_succ)) =
  gen_active_rank1_scalar (ROps exp_ round_) P (as_psucc st) (as_sigma st) p_succ.
Proof. exact: gen_active_rank1_scalar_spec. Qed.
Print Assumptions C14_gen_active_rank1_follows_regenerated_slice.

Theorem C14_gen_active_psucc_in_01_sigma_pos :
  forall (R : rcfType) (exp_ round_ : R -> R) (P : aparams (T:=R)) psucc sigma p_succ,
  (forall x, 0 < exp_ x) -> 0 <= ap_cp P <= 1 -> 0 <= p_succ <= 1 -> 0 <= psucc <= 1 -> 0 < sigma ->
  0 <= (gen_active_rank1_scalar (ROps exp_ round_) P psucc sigma p_succ).1 <= 1 /\
  0 < (gen_active_rank1_scalar (ROps exp_ round_) P psucc sigma p_succ).2.
Proof. exact: gen_active_rank1_scalar_range. Qed.
Print Assumptions C14_gen_active_psucc_in_01_sigma_pos.

(* ---- StrategyActiveOnePlusLambda.update: the success frequency handed to _rank1update ---- *)
Theorem C14_gen_active_p_succ_is_model :
  forall (R : rcfType) (exp_ round_ : R -> R) (pfit : option (fitness (T:=R))) pop,
  gen_active_p_succ (ROps exp_ round_) pfit pop = active_p_succ (ROps exp_ round_) pfit pop.
Proof. exact: gen_active_p_succ_eq. Qed.
Print Assumptions C14_gen_active_p_succ_is_model.

(* the rank-one half of the model's update is _rank1update on the best valid offspring with the regenerated success
   frequency (counted over the VALID offspring only, all of them when the parent has no fitness) *)
Theorem C14_gen_active_update_uses_regenerated_frequency :
  forall (R : rcfType) (exp_ round_ : R -> R) (P : aparams (T:=R)) st pop,
  active_update_rank1 (ROps exp_ round_) P st pop =
  match gen_active_p_succ (ROps exp_ round_) (as_pfit st) pop,
        sort_desc (fun a b => c_lt (ROps exp_ round_) (ai_fit a) (ai_fit b))
                  (List.filter (fun i => f_valid (ai_fit i)) pop) with
  | Some p, best :: _ => rank1update (ROps exp_ round_) P st best p
  | _, _ => st
  end.
Proof. exact: gen_active_p_succ_spec. Qed.
Print Assumptions C14_gen_active_update_uses_regenerated_frequency.

Theorem C14_gen_active_p_succ_in_01 :
  forall (R : rcfType) (exp_ round_ : R -> R) (pfit : option (fitness (T:=R))) pop p,
  gen_active_p_succ (ROps exp_ round_) pfit pop = Some p -> 0 <= p <= 1.
Proof. exact: gen_active_p_succ_range. Qed.
Print Assumptions C14_gen_active_p_succ_in_01.
