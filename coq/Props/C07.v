(* Property C07 — theorems only.
   Models: Model/C07_Spea2.v, Model/C07_Nsga3.v, Model/C07_RefPoints.v (deap/tools/emo.py).
   Individuals are identified with their index in the input list, so "input objects, none twice"
   reads: indices < n, NoDup.  Every theorem quantifies over ALL random draws (pivot draws of
   _randomizedSelect, numpy.random.shuffle outcomes). *)
From Coq Require Import List ZArith QArith Bool Permutation Lia.
From DV Require Import Base.PyList Base.C07_Num Model.C07_Spea2 Model.C07_Nsga3 Model.C07_RefPoints
                       Proofs.C07_Spea2 Proofs.C07_Nsga3 Proofs.C07_RefPoints Proofs.C07_SelectGen.
Import ListNotations.
Local Open Scope nat_scope.

(* ================================================================== *)
(* SPEA2 *)

(* generic form: for any numeric instance whose comparison is asymmetric and orders
   -1 < squared distances < inf (true of IEEE doubles on finite inputs, proved below for Q) *)
Theorem C07_spea2_generic : forall {T} (Op : numops T),
  (forall x y, n_ltb Op x y = true -> n_ltb Op y x = false) ->
  forall vals wvals k draws, dist_ok Op vals -> 1 <= k <= length wvals ->
  let r := fst (spea2 Op vals wvals k draws) in
  length r = k /\ NoDup r /\ (forall i, In i r -> i < length wvals) /\
  (length (nd_list Op wvals) <= k -> incl (nd_list Op wvals) r) /\
  (k <= length (nd_list Op wvals) -> incl r (nd_list Op wvals)).
Proof. intros T Op H. exact (spea2_spec Op H). Qed.
Print Assumptions C07_spea2_generic.

(* nd_list is exactly the set of non-dominated individuals *)
Theorem C07_nd_list_spec : forall {T} (Op : numops T) (w : list (list T)) i,
  In i (nd_list Op w) <->
  (i < length w /\ forall j, j < length w -> dominates Op (nth j w []) (nth i w []) = false).
Proof.
  intros T Op w i. unfold nd_list. rewrite filter_In, in_seq, nd_b_spec. unfold nondominated.
  split; intros [H1 H2]; (split; [lia|exact H2]).
Qed.
Print Assumptions C07_nd_list_spec.

(* exact instance, finite fitness values (vq), any weighted values, any draws *)
Theorem C07_spea2_size_refs : forall (vq : list (list Q)) (wvals : list (list qx)) k draws,
  1 <= k <= length wvals ->
  let r := fst (spea2 qx_ops (map (map QF) vq) wvals k draws) in
  length r = k /\ NoDup r /\ (forall i, In i r -> i < length wvals).
Proof.
  intros vq wvals k draws Hk.
  destruct (spea2_spec qx_ops qx_ltb_asym (map (map QF) vq) wvals k draws (dist_ok_qx vq) Hk) as [A [B [C _]]].
  auto.
Qed.
Print Assumptions C07_spea2_size_refs.

Theorem C07_spea2_all_nd_when_few : forall (vq : list (list Q)) (wvals : list (list qx)) k draws,
  1 <= k <= length wvals -> length (nd_list qx_ops wvals) <= k ->
  incl (nd_list qx_ops wvals) (fst (spea2 qx_ops (map (map QF) vq) wvals k draws)).
Proof.
  intros vq wvals k draws Hk.
  destruct (spea2_spec qx_ops qx_ltb_asym (map (map QF) vq) wvals k draws (dist_ok_qx vq) Hk) as [_ [_ [_ [D _]]]].
  exact D.
Qed.
Print Assumptions C07_spea2_all_nd_when_few.

Theorem C07_spea2_only_nd_when_many : forall (vq : list (list Q)) (wvals : list (list qx)) k draws,
  1 <= k <= length wvals -> k <= length (nd_list qx_ops wvals) ->
  incl (fst (spea2 qx_ops (map (map QF) vq) wvals k draws)) (nd_list qx_ops wvals).
Proof.
  intros vq wvals k draws Hk.
  destruct (spea2_spec qx_ops qx_ltb_asym (map (map QF) vq) wvals k draws (dist_ok_qx vq) Hk) as [_ [_ [_ [_ E]]]].
  exact E.
Qed.
Print Assumptions C07_spea2_only_nd_when_many.

(* ================================================================== *)
(* NSGA-III *)

(* numpy.random.shuffle as modelled: every draw gives a permutation, every permutation has a draw *)
Theorem C07_shuffle_perm : forall (l : list nat) code, Permutation (shuffle l code) l.
Proof. intros. apply shuffle_perm. Qed.
Print Assumptions C07_shuffle_perm.

Theorem C07_shuffle_surjective : forall (l l' : list nat), Permutation l l' -> exists code, shuffle l code = l'.
Proof. intros. now apply shuffle_surjective. Qed.
Print Assumptions C07_shuffle_surjective.

(* niching selects exactly k distinct members of the last front (positions 0..m-1), for all draws *)
Theorem C07_niching_exact : forall (niches : list nat) (dist : list Q) (R k : nat) (counts0 : list nat) draws,
  (forall i, i < length niches -> nth i niches 0 < R) -> length counts0 = R -> k <= length niches ->
  let s := niching q_ltb 0%Q k niches dist counts0 draws in
  niching_ok k s = true /\ length (ns_sel s) = k /\ NoDup (ns_sel s) /\
  (forall i, In i (ns_sel s) -> i < length niches) /\
  (forall c, c < R -> nth c (ns_counts s) 0 = nth c counts0 0 + cnt_sel niches (ns_sel s) c).
Proof.
  intros niches dist R k counts0 draws Hn Hc Hk.
  destruct (niching_spec q_ltb 0%Q niches dist R Hn k counts0 draws Hc Hk) as [A [B [C [D [E _]]]]].
  auto.
Qed.
Print Assumptions C07_niching_exact.

(* DESIGN A5: a niche that received a last-front member never ends more than one above a niche
   that still had a candidate left *)
Theorem C07_niching_balanced : forall (niches : list nat) (dist : list Q) (R k : nat) (counts0 : list nat) draws,
  (forall i, i < length niches -> nth i niches 0 < R) -> length counts0 = R -> k <= length niches ->
  let s := niching q_ltb 0%Q k niches dist counts0 draws in
  forall a b,
    (exists i, In i (ns_sel s) /\ nth i niches 0 = a) ->                              (* a received a member *)
    (exists i, i < length niches /\ ~ In i (ns_sel s) /\ nth i niches 0 = b) ->      (* b has a candidate left *)
    nth a (ns_counts s) 0 <= nth b (ns_counts s) 0 + 1.
Proof.
  intros niches dist R k counts0 draws Hn Hc Hk.
  destruct (niching_spec q_ltb 0%Q niches dist R Hn k counts0 draws Hc Hk) as [_ [_ [_ [_ [_ F]]]]].
  exact F.
Qed.
Print Assumptions C07_niching_balanced.

(* selNSGA3 given the sorted fronts and any association into R niches *)
Theorem C07_nsga3_size_refs : forall (fronts : list (list nat)) (k R : nat) (niches : list nat) (dist : list Q) draws,
  fronts <> [] -> NoDup (concat fronts) ->
  length niches = length (concat fronts) -> Forall (fun c => c < R) niches ->
  length (concat (removelast fronts)) < k <= length (concat fronts) ->
  let o := nsga3_core q_ltb 0%Q fronts k R niches dist draws in
  o_ok o = true /\ length (o_chosen o) = k /\ NoDup (o_chosen o) /\ incl (o_chosen o) (concat fronts).
Proof.
  intros fronts k R niches dist draws H1 H2 H3 H4 H5.
  destruct (nsga3_core_spec q_ltb 0%Q fronts k R niches dist draws H1 H2 H3 H4 H5) as [A [B [C [D _]]]]. auto.
Qed.
Print Assumptions C07_nsga3_size_refs.

(* the niche-balance clause at the level of selNSGA3.  sel = positions (in the last front) of the
   members niching selected; the association of position i of the last front is niches[sc+i];
   o_counts = members of earlier fronts + selected last-front members, per niche *)
Theorem C07_nsga3_balanced : forall (fronts : list (list nat)) (k R : nat) (niches : list nat) (dist : list Q) draws,
  fronts <> [] -> NoDup (concat fronts) ->
  length niches = length (concat fronts) -> Forall (fun c => c < R) niches ->
  length (concat (removelast fronts)) < k <= length (concat fronts) ->
  let o := nsga3_core q_ltb 0%Q fronts k R niches dist draws in
  let sc := length (concat (removelast fronts)) in
  let lastf := last fronts [] in
  exists sel,
    o_chosen o = concat (removelast fronts) ++ map (fun i => nth i lastf 0) sel /\
    NoDup sel /\ (forall i, In i sel -> i < length lastf) /\ length sel = k - sc /\
    (forall c, c < R -> nth c (o_counts o) 0 =
                        count_occ_nat (firstn sc niches) c + length (filter (fun i => Nat.eqb (nth (sc + i) niches 0) c) sel)) /\
    (forall a b, (exists i, In i sel /\ nth (sc + i) niches 0 = a) ->
                 (exists i, i < length lastf /\ ~ In i sel /\ nth (sc + i) niches 0 = b) ->
                 nth a (o_counts o) 0 <= nth b (o_counts o) 0 + 1).
Proof. exact (nsga3_core_balanced q_ltb 0%Q). Qed.
Print Assumptions C07_nsga3_balanced.

(* relative to fronts_correct: if `fronts` are the leading fronts of the population for a ranking
   `rank`, no individual of a strictly better front than a selected one is left out *)
Theorem C07_nsga3_front_priority : forall (pop : list nat) (rank : nat -> nat)
    (fronts : list (list nat)) (k R : nat) (niches : list nat) (dist : list Q) draws,
  fronts <> [] -> NoDup (concat fronts) ->
  (forall r x, r < length fronts -> (In x (nth r fronts []) <-> In x pop /\ rank x = r)) ->
  length niches = length (concat fronts) -> Forall (fun c => c < R) niches ->
  length (concat (removelast fronts)) < k <= length (concat fronts) ->
  let o := nsga3_core q_ltb 0%Q fronts k R niches dist draws in
  forall x y, In x pop -> In y (o_chosen o) -> rank x < rank y -> In x (o_chosen o).
Proof. intros. eapply (nsga3_front_priority q_ltb 0%Q pop rank); eauto. Qed.
Print Assumptions C07_nsga3_front_priority.

(* the whole selection with the model's own association (exact instance): nothing is assumed
   about the normalisation inputs best / intercepts / dist *)
Theorem C07_nsga3_end_to_end : forall (eps : Q) fits fronts k refs best icpt dist draws,
  refs <> [] -> fronts <> [] -> NoDup (concat fronts) -> length fits = length (concat fronts) ->
  length (concat (removelast fronts)) < k <= length (concat fronts) ->
  let o := snd (nsga3 q_ops eps fits fronts k refs best icpt dist draws) in
  o_ok o = true /\ length (o_chosen o) = k /\ NoDup (o_chosen o) /\
  incl (o_chosen o) (concat fronts) /\ incl (concat (removelast fronts)) (o_chosen o).
Proof. exact nsga3_spec. Qed.
Print Assumptions C07_nsga3_end_to_end.

(* association: the first reference direction of minimal distance ... *)
Theorem C07_associate_argmin : forall (refs : list (list Q)) (fn : list Q), refs <> [] ->
  let j := associate_one q_ops refs fn in
  j < length refs /\
  forall j', j' < length refs ->
    (perp_d2 q_ops fn (nth j refs []) <= perp_d2 q_ops fn (nth j' refs []))%Q /\
    (j' < j -> (perp_d2 q_ops fn (nth j refs []) < perp_d2 q_ops fn (nth j' refs []))%Q).
Proof. exact associate_one_argmin. Qed.
Print Assumptions C07_associate_argmin.

(* the niche of candidate i is that argmin for its normalised fitness vector *)
Theorem C07_associate_normalised : forall (eps : Q) fits refs best icpt i, i < length fits ->
  nth i (associate q_ops eps fits refs best icpt) 0 =
  associate_one q_ops refs (normalise q_ops eps (nth i fits []) best icpt).
Proof. exact associate_nth. Qed.
Print Assumptions C07_associate_normalised.

(* ... where perp_d2 is the squared perpendicular distance: no point t*r of the reference line is
   closer to fn *)
Theorem C07_perp_d2_is_line_distance : forall (fn r : list Q) (t : Q),
  length fn = length r -> ~ (sdot r r == 0)%Q ->
  (perp_d2 q_ops fn r <= line_d2 t fn r)%Q /\
  (perp_d2 q_ops fn r == line_d2 (sdot fn r / sdot r r) fn r)%Q.
Proof. intros fn r t L H. split; [now apply perp_d2_minimal|apply perp_d2_line]. Qed.
Print Assumptions C07_perp_d2_is_line_distance.

(* normalisation inputs that ARE modelled (exact on integer-valued fitnesses): the remembered
   best point is the coordinatewise minimum of everything seen (lower bound, attained) ... *)
Theorem C07_update_best_spec : forall (prev : option (list Z)) (fits : list (list Z)) (M c : nat),
  fits <> [] -> (forall row, In row fits -> length row = M) ->
  (match prev with Some b => length b = M | None => True end) -> c < M ->
  let rows := fits ++ match prev with Some b => [b] | None => [] end in
  let v := nth c (update_best prev fits) 0%Z in
  (forall row, In row rows -> (v <= nth c row 0)%Z) /\ (exists row, In row rows /\ v = nth c row 0%Z).
Proof. exact update_best_spec. Qed.
Print Assumptions C07_update_best_spec.

(* ... and the i-th extreme point is an input row minimising the i-th achievement scalarising function *)
Theorem C07_find_extreme_points_spec : forall fits best prev i,
  let rows := fits ++ match prev with Some e => e | None => [] end in
  rows <> [] -> i < length best ->
  let e := nth i (find_extreme_points fits best prev) [] in
  In e rows /\ forall row, In row rows -> (asf_val best i e <= asf_val best i row)%Z.
Proof. exact find_extreme_points_spec. Qed.
Print Assumptions C07_find_extreme_points_spec.

(* _randomizedSelect(array, begin, end, i) returns an element of rank i of the segment, for EVERY
   sequence of in-range pivot draws (general: any array, any segment, Hoare-partition invariant).
   Rank by counting:  #{u | a[u] < v} <= i < #{u | not (v < a[u])}.  Generic in the numeric instance,
   for any strict weak order. *)
Theorem C07_rand_select_rank : forall {T} (Op : numops T),
  (forall x, n_ltb Op x x = false) ->
  (forall x y z, n_ltb Op x y = true -> n_ltb Op y z = true -> n_ltb Op x z = true) ->
  (forall x y z, n_ltb Op x y = false -> n_ltb Op y z = false -> n_ltb Op x z = false) ->
  forall fuel arr b e i draws,
  (0 <= b)%Z -> (b <= e)%Z -> (e < Z.of_nat (length arr))%Z -> (0 <= i <= e - b)%Z -> (e - b + 1 <= Z.of_nat fuel)%Z ->
  draws_valid Op fuel arr b e i draws = true ->
  rank_ok Op arr b e i (fst (rand_select Op fuel arr b e i draws)).
Proof. intros T Op H1 H2 H3. exact (rand_select_rank Op H1 H2 H3). Qed.
Print Assumptions C07_rand_select_rank.

(* exact instance: the pivot draws do not affect the result — it is always equivalent (neither <)
   to the i-th element of the sorted array, the reference semantics "k-th smallest" *)
Theorem C07_rand_select_is_kth : forall (arr : list qx) (i : Z) draws,
  (0 <= i < Z.of_nat (length arr))%Z ->
  draws_valid qx_ops (S (length arr)) arr 0 (Z.of_nat (length arr) - 1) i draws = true ->
  let v := fst (rand_select qx_ops (S (length arr)) arr 0 (Z.of_nat (length arr) - 1) i draws) in
  qx_ltb (kth_smallest qx_ops arr i) v = false /\ qx_ltb v (kth_smallest qx_ops arr i) = false.
Proof. exact (rand_select_is_kth qx_ops qx_lt_irrefl qx_lt_trans qx_nlt_trans). Qed.
Print Assumptions C07_rand_select_is_kth.

(* the rank selSPEA2 asks for is inside the array *)
Theorem C07_rank_of_range : forall N, 2 <= N -> (0 <= rank_of N <= Z.of_nat N - 1)%Z.
Proof. exact rank_of_range. Qed.
Print Assumptions C07_rank_of_range.

(* ================================================================== *)
(* reference points (DESIGN A8) *)

Theorem C07_ref_points_count : forall nobj p sc, 1 <= nobj ->
  length (ref_points_q nobj p sc) = binom (nobj + p - 1) p.
Proof. exact ref_points_count. Qed.
Print Assumptions C07_ref_points_count.

(* binom is the binomial coefficient *)
Theorem C07_binom_fact : forall n k, k <= n -> binom n k * (fact k * fact (n - k)) = fact n.
Proof. exact binom_fact. Qed.
Print Assumptions C07_binom_fact.

Theorem C07_ref_points_rows : forall nobj p row, 1 <= nobj -> 1 <= p ->
  In row (ref_points_q nobj p None) ->
  length row = nobj /\ Forall (fun x => (0 <= x)%Q) row /\ (qsum row == 1)%Q.
Proof. exact ref_points_rows. Qed.
Print Assumptions C07_ref_points_rows.

Theorem C07_ref_points_distinct : forall nobj p i j, 1 <= p ->
  let pts := ref_points_q nobj p None in
  i < length pts -> j < length pts -> i <> j -> ~ Forall2 Qeq (nth i pts []) (nth j pts []).
Proof. exact ref_points_distinct. Qed.
Print Assumptions C07_ref_points_distinct.

Theorem C07_ref_points_scaled_rows : forall nobj p s row, 1 <= nobj -> 1 <= p -> (0 <= s)%Q -> (s <= 1)%Q ->
  In row (ref_points_q nobj p (Some s)) ->
  length row = nobj /\ Forall (fun x => (0 <= x)%Q) row /\ (qsum row == 1)%Q.
Proof. exact ref_points_scaled_rows. Qed.
Print Assumptions C07_ref_points_scaled_rows.

Theorem C07_ref_points_scaled_distinct : forall nobj p s i j, 1 <= p -> ~ (s == 0)%Q ->
  let pts := ref_points_q nobj p (Some s) in
  i < length pts -> j < length pts -> i <> j -> ~ Forall2 Qeq (nth i pts []) (nth j pts []).
Proof. exact ref_points_scaled_distinct. Qed.
Print Assumptions C07_ref_points_scaled_distinct.

(* ================================================================== *)
(* non-vacuity: the hypotheses are satisfiable and the branches are reached *)
Example C07_nonvacuous_spea2_trunc :
  let v := [[0; 3]; [1; 2]; [2; 1]; [3; 0]]%Z in
  let vq := map (map inject_Z) v in
  let w := map (map (fun z => QF (inject_Z (- z)))) v in
  length (nd_list qx_ops w) = 4 /\ fst (spea2 qx_ops (map (map QF) vq) w 3 []) = [0; 2; 3].
Proof. vm_compute. split; reflexivity. Qed.

Example C07_nonvacuous_spea2_fill :
  let v := [[0; 0]; [1; 1]; [2; 2]; [3; 3]; [4; 4]]%Z in
  let vq := map (map inject_Z) v in
  let w := map (map (fun z => QF (inject_Z (- z)))) v in
  length (nd_list qx_ops w) = 1 /\ fst (spea2 qx_ops (map (map QF) vq) w 3 [2; 1]%Z) = [0; 1; 2].
Proof. vm_compute. split; reflexivity. Qed.

Example C07_nonvacuous_niching :
  let s := niching q_ltb 0%Q 3 [0; 0; 1; 2; 2] [1#2; 1#3; 1#4; 1#5; 1#6]%Q [1; 0; 0] [[0]; [0]; [0; 1]; [0]] in
  niching_ok 3 s = true /\ ns_sel s = [4; 2; 3] /\ ns_counts s = [1; 1; 2].
Proof. vm_compute. repeat split; reflexivity. Qed.

Example C07_nonvacuous_refs : ref_num 3 2 = [[0; 0; 2]; [0; 1; 1]; [0; 2; 0]; [1; 0; 1]; [1; 1; 0]; [2; 0; 0]] /\ binom 4 2 = 6.
Proof. vm_compute. split; reflexivity. Qed.

Example C07_nonvacuous_select :
  let arr := [QF 2; QF 0; QF 1; QF 1; QF 0] in
  draws_valid qx_ops 6 arr 0 4 2 [3; 0; 2; 2]%Z = true /\
  qx_eqb (fst (rand_select qx_ops 6 arr 0 4 2 [3; 0; 2; 2]%Z)) (QF 1) = true /\
  qx_eqb (kth_smallest qx_ops arr 2) (QF 1) = true.
Proof. vm_compute. repeat split; reflexivity. Qed.
