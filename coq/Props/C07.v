(* Property C07 — theorems only.  Models: Model/C07_{Spea2,Nsga3,RefPoints}.v (deap/tools/emo.py). *)
From Coq Require Import List ZArith QArith Bool.
From DV Require Import Base.PyList Base.C07_Num Model.C07_Spea2 Model.C07_Nsga3 Model.C07_RefPoints
                       Proofs.C07_Spea2.
Import ListNotations.

Theorem C07_dominates_asym : forall {T} (Op : numops T),
  (forall x y, n_ltb Op x y = true -> n_ltb Op y x = false) ->
  forall a b, dominates Op a b = true -> dominates Op b a = false.
Proof. intros T Op H. exact (dominates_asym Op H). Qed.
Print Assumptions C07_dominates_asym.
