(* Property C12, tie (T): the C12 theorems restated on the definitions REGENERATED from the current text of
   deap/gp.py (coq/Gen/C12_gen.v, written by harness/c12_py2coq.py on every run; never committed).
   Theorems only.  Equalities regenerated = model and the transfer of the theorems: Proofs/C12_gen_equiv.v.

   gen_<f> is what the translator produced from the source of <f> in the option monad of Model/C12_GenRt.v
   (None = an exception, or a while loop out of the fuel the translator gave it).  A function the translator
   refused is regenerated as the hand model itself (its theorems here then say nothing beyond Props/C12.v;
   harness/c12.py reports which functions that is).
     gen_Primitive_seq name args ret              Primitive.__init__: the format string stored in self.seq
     gen_Primitive_format / gen_Terminal_format   the two format methods, over the attributes seq / conv_fct, value
     gen_format                                   fixed text: method dispatch on the node object
     gen_str ps t                                 PrimitiveTree.__str__ (ps holds Terminal.value of the argument terminals)
     gen_from_string sub s ps                     PrimitiveTree.from_string
     gen_compile_code t ps                        gp.compile up to the call of eval: the code string
     gen_renameArguments ps kargs                 PrimitiveSetTyped.renameArguments
     gen_compileADF cval trees psets              gp.compileADF (calling the model's compile) *)
From Coq Require Import List ZArith Bool String Lia.
From DV Require Import Base.C12_Str Model.C12_GPPrint Model.C12_GenRt Proofs.C12_GPPrint Gen.C12_gen
  Proofs.C12_gen_equiv.
Import ListNotations.
Local Open Scope string_scope.

(* ---- the source text is the model: for all arguments ---- *)
Theorem C12_gen_source_is_model :
  (forall name a r, gen_Primitive_seq name a r = Some (prim_seq name (List.length a))) /\
  (forall s args, gen_Primitive_format s args = tpl_format s args) /\
  (forall f v, gen_Terminal_format f v = apply_conv f v) /\
  (forall ps n args, arity_matches (List.length args) n = true -> gen_format ps n args = Some (fmt ps n args)) /\
  (forall ps t, gen_str ps t = Some (str_tree ps t)) /\
  (forall sub s ps, gen_from_string sub s ps = read sub (ps_mapping ps) s) /\
  (exists sep, header_sep sep /\ forall t ps, gen_compile_code t ps = Some (code_with sep ps t)) /\
  (forall ps kargs, gen_renameArguments ps kargs = rename kargs ps) /\
  (forall V (cval : cst -> option V) defs,
     flat (gen_compileADF cval (map d_tree defs) (map fp_of defs)) = compile_adf cval defs).
Proof. exact source_is_model. Qed.
Print Assumptions C12_gen_source_is_model.

(* str.format on the format string Primitive.__init__ builds now: name(a1, ..., an) with ", " between the arguments *)
Theorem C12_gen_prim_format : forall name a r args s, List.length args = List.length a ->
  gen_Primitive_seq name a r = Some s ->
  gen_Primitive_format s args = Some (name ++ "(" ++ String.concat ", " args ++ ")").
Proof. exact gen_prim_format. Qed.
Print Assumptions C12_gen_prim_format.

(* the model's compile is a function of the code string and the parameter list only *)
Theorem C12_gen_compile_of_code : forall V (cval : cst -> option V) ps ps' ctx t t',
  gen_compile_code t ps = gen_compile_code t' ps' -> ps_arguments ps = ps_arguments ps' ->
  compile cval ps ctx t = compile cval ps' ctx t'.
Proof. exact @gen_compile_of_code. Qed.
Print Assumptions C12_gen_compile_of_code.

(* ---- __str__ as it is written now never raises and prints the recursive form name(a1, ..., an) ---- *)
Theorem C12_gen_str_is_pp : forall ps t tr, parse t = Some tr -> gen_str ps t = Some (pp ps tr).
Proof. exact gen_str_is_pp. Qed.
Print Assumptions C12_gen_str_is_pp.

Theorem C12_gen_tokenize_printed : forall ps t tr s,
  parse t = Some tr -> all_nodes (node_ok ps) tr -> gen_str ps t = Some s -> tokenize s = map (node_tok ps) t.
Proof. exact gen_tokenize_str. Qed.
Print Assumptions C12_gen_tokenize_printed.

(* ---- from_string(str(t), pset), both as written now: succeeds, prints identically, same node count and
   arities, same denotation, same code string ---- *)
Theorem C12_gen_read_print : forall sub ps t tr,
  (forall a, sub a a = true) -> (forall a b c, sub a b = true -> sub b c = true -> sub a c = true) ->
  parse t = Some tr -> all_nodes (node_ok ps) tr -> all_nodes (resolvable sub ps) tr -> typed sub tr ->
  exists s t',
    gen_str ps t = Some s /\
    gen_from_string sub s ps = Some t' /\
    gen_str ps t' = Some s /\
    List.length t' = List.length t /\
    map node_arity t' = map node_arity t /\
    (forall V (cval : cst -> option V) ctx actuals,
        eval_prefix cval ctx actuals t' = eval_prefix cval ctx actuals t) /\
    gen_compile_code t' ps = gen_compile_code t ps.
Proof. exact gen_read_print. Qed.
Print Assumptions C12_gen_read_print.

(* ---- the code string compile builds now: "lambda a,b: " (parameters joined by "," or ", ": header_sep) in front
   of the printed tree, which parses to the call expression of the tree's shape ---- *)
Theorem C12_gen_code_is_expr : forall ps t tr, parse t = Some tr -> all_nodes (node_ok ps) tr ->
  exists s sep, gen_str ps t = Some s /\ parse_expr s = Some (expr_of ps tr) /\ header_sep sep /\
    gen_compile_code t ps =
    Some (match ps_arguments ps with
          | [] => s
          | params => String.append "lambda " (String.append (String.concat sep params) (String.append ": " s))
          end).
Proof. exact gen_code_is_expr. Qed.
Print Assumptions C12_gen_code_is_expr.

(* ---- compileADF as written now: the main tree evaluated directly, each ADF call evaluating that ADF's tree ---- *)
Theorem C12_gen_compile_adf_sem : forall V (cval : cst -> option V) defs actuals,
  Forall (def_ok) defs -> zero_ok cval (tl defs) ->
  run_compiled cval (flat (gen_compileADF cval (map d_tree defs) (map fp_of defs))) actuals = adf_sem cval defs actuals.
Proof. intros V cval. exact (gen_compile_adf_sem cval). Qed.
Print Assumptions C12_gen_compile_adf_sem.

(* ---- renameArguments as written now, with fresh pairwise distinct new names ---- *)
Theorem C12_gen_rename_fresh : forall kargs ps0,
  NoDup (ps_arguments ps0) -> NoDup (map snd kargs) ->
  (forall n, In n (map snd kargs) -> ~ In n (ps_arguments ps0)) ->
  ps_argvalue ps0 = ps_arguments ps0 -> arg_entries ps0 ->
  exists ps', gen_renameArguments ps0 kargs = Some ps' /\
    ps_arguments ps' = map (new_name kargs) (ps_arguments ps0) /\
    ps_argvalue ps' = ps_arguments ps' /\
    NoDup (ps_arguments ps') /\
    arg_entries ps' /\
    (forall k, ~ In k (ps_arguments ps0) -> ~ In k (map snd kargs) ->
               dget k (ps_mapping ps') = dget k (ps_mapping ps0)).
Proof. exact gen_rename_fresh. Qed.
Print Assumptions C12_gen_rename_fresh.
