(* Property C16 — theorems only.  Model: Model/C16_ObjGraph.v *)
From Coq Require Import List ZArith Bool Arith.
From DV Require Import Model.C16_ObjGraph Proofs.C16_ObjGraph.
Import ListNotations.

Theorem C16_alias_call : forall t a f fa fk args kw,
  tb_get (register t a f fa fk) a = Some (FPartial f fa fk) /\
  call (FPartial f fa fk) args kw = call f (fa ++ args) (kw_merge fk kw).
Proof. exact alias_call. Qed.
Print Assumptions C16_alias_call.
