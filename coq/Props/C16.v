(* Property C16 — theorems only.  Model: Model/C16_ObjGraph.v (deap/creator.py, deap/base.py Toolbox and
   Fitness.__deepcopy__, deap/gp.py PrimitiveTree.__deepcopy__, CPython's deepcopy/pickle memo protocol).

   Vocabulary.  A heap is a list of objects {kind; class; items; attributes}; a value is an atom (immutable),
   a builtin type, or a reference.  "unfold stop k h v" is everything that can be read from v down to depth k
   (objects whose kind satisfies stop are not entered: their identity is read instead); equality of the
   unfoldings at every depth is equality of content, fitness values and validity, and attributes, however
   deep and however shared or cyclic the graph is.  "reach stop h v x": location x can be reached from v.
   is_class stops at created classes (what a clone shares on purpose); no_stop goes through everything.
   deep_ok h (decidable: deep_okb): references stay inside the heap, the class of every object is a class,
   a fitness holds numbers and carries nothing but its values (and constraint_violation). *)
From Coq Require Import List ZArith Bool Arith.
From DV Require Import Model.C16_ObjGraph Proofs.C16_ObjGraph.
Import ListNotations.

(* ---- creator: per-instance attributes are freshly constructed ---- *)
(* everything reachable from a per-instance attribute of a new instance was allocated by that very call
   (location > the instance itself), or is a class *)
Theorem C16_fresh_attrs : forall fuel h c items h' s o,
  new_inst fuel h c items = Some (h', Ref s) -> nth_error h' s = Some o ->
  s = length h /\ ext h h' /\
  forall n v x, In (n, v) (o_attrs o) -> reach is_class h' v x -> length h < x < length h' \/ class_at h' x.
Proof. exact fresh_attrs. Qed.
Print Assumptions C16_fresh_attrs.

(* hence never shared with any other (older) object: what both reach is a class *)
Theorem C16_fresh_attrs_not_shared : forall fuel h c items h' s o older,
  closed h -> inside h older ->
  new_inst fuel h c items = Some (h', Ref s) -> nth_error h' s = Some o ->
  forall n v x, In (n, v) (o_attrs o) -> reach is_class h' v x -> reach is_class h' older x -> class_at h' x.
Proof. exact fresh_attrs_two. Qed.
Print Assumptions C16_fresh_attrs_not_shared.

(* ---- toolbox.clone ---- *)
(* the original is untouched (ext), the copy reads the same at every depth, everything the copy reaches is
   new or a class, and the new heap satisfies the hypotheses again *)
Theorem C16_clone : forall h v h' v',
  deep_ok h -> inside h v -> deepcopy h v = Some (h', v') ->
  ext h h' /\ deep_ok h' /\ inside h' v' /\
  (forall k, unfold is_class k h' v' = unfold is_class k h v) /\
  (forall x, reach is_class h' v' x -> length h <= x < length h' \/ class_at h x) /\
  (forall x, reach is_class h' v x -> x < length h /\ reach is_class h v x).
Proof. exact deepcopy_spec. Qed.
Print Assumptions C16_clone.

(* a write through either one (at a location that is not a class) never changes what the other reads *)
Theorem C16_clone_frame : forall h v h' v',
  deep_ok h -> inside h v -> deepcopy h v = Some (h', v') ->
  forall x m k,
    (reach is_class h' v' x -> ~ class_at h x ->
       unfold is_class k (mutate h' x m) v = unfold is_class k h v) /\
    (reach is_class h' v x -> ~ class_at h x ->
       unfold is_class k (mutate h' x m) v' = unfold is_class k h v).
Proof. exact clone_frame_mutate. Qed.
Print Assumptions C16_clone_frame.

(* clone-of-clone chains of any length and shape: all members read the same and any two share classes only *)
Theorem C16_clone_chain : forall picks h v h' vs',
  deep_ok h -> inside h v -> clone_chain h [v] picks = Some (h', vs') ->
  deep_ok h' /\
  (forall w, In w vs' -> forall k, unfold is_class k h' w = unfold is_class k h v) /\
  (forall i j a b x, i <> j -> nth_error vs' i = Some a -> nth_error vs' j = Some b ->
     reach is_class h' a x -> reach is_class h' b x -> class_at h' x).
Proof.
  intros picks h v h' vs' Ok Hv H.
  destruct (clone_chain_family picks h [v] _ h' vs' (family_single h v Ok Hv) H) as [A B C].
  split; [exact A|split; [|exact C]]. intros w Iw. apply (B w Iw).
Qed.
Print Assumptions C16_clone_chain.

(* cloning terminates (no RecursionError) on whatever reads finitely, and so does any chain *)
Theorem C16_clone_terminates : forall h v d,
  nocut (unfold is_class d h v) = true -> d <= length h -> exists r, deepcopy h v = Some r.
Proof. exact deepcopy_total. Qed.
Print Assumptions C16_clone_terminates.

Theorem C16_clone_chain_terminates : forall picks h v d,
  deep_ok h -> inside h v -> nocut (unfold is_class d h v) = true -> d <= length h -> picks_ok 1 picks ->
  exists r, clone_chain h [v] picks = Some r.
Proof.
  intros picks h v d Ok Hv N L P.
  exact (clone_chain_total picks h [v] _ d (family_single h v Ok Hv) N L P).
Qed.
Print Assumptions C16_clone_chain_terminates.

(* ---- pickle.loads(pickle.dumps(x)) ---- *)
(* same interpreter: classes included, everything reachable from the result is new *)
Theorem C16_pickle_roundtrip : forall h v h' v',
  closed h -> inside h v -> pickle_roundtrip h v = Some (h', v') ->
  ext h h' /\ closed h' /\ inside h' v' /\
  (forall k, unfold no_stop k h' v' = unfold no_stop k h v) /\
  (forall x, reach no_stop h' v' x -> length h <= x < length h') /\
  (forall x, reach no_stop h' v x -> x < length h /\ reach no_stop h v x).
Proof. exact pickle_roundtrip_spec. Qed.
Print Assumptions C16_pickle_roundtrip.

Theorem C16_pickle_frame : forall h v h' v',
  closed h -> inside h v -> pickle_roundtrip h v = Some (h', v') ->
  forall x m k,
    (reach no_stop h' v' x -> unfold no_stop k (mutate h' x m) v = unfold no_stop k h v) /\
    (reach no_stop h' v x -> unfold no_stop k (mutate h' x m) v' = unfold no_stop k h v).
Proof. exact pickle_frame_mutate. Qed.
Print Assumptions C16_pickle_frame.

(* fresh interpreter: a self-contained heap that reads the same, classes (by name, base and dct) included *)
Theorem C16_pickle_fresh : forall h v h' v',
  pickle_fresh h v = Some (h', v') ->
  closed h' /\ inside h' v' /\ (forall k, unfold no_stop k h' v' = unfold no_stop k h v).
Proof. exact pickle_fresh_spec. Qed.
Print Assumptions C16_pickle_fresh.

Theorem C16_pickle_terminates : forall h v d,
  nocut (unfold no_stop d h v) = true -> d <= length h ->
  (exists r, pickle_roundtrip h v = Some r) /\ (exists r, pickle_fresh h v = Some r).
Proof. exact pickle_total. Qed.
Print Assumptions C16_pickle_terminates.

(* the hypotheses are decidable; the correspondence evaluates these checks on every real object graph *)
Theorem C16_hypotheses_decidable : forall h v,
  (deep_okb h = true -> deep_ok h) /\ (closedb h = true -> closed h) /\ (insideb h v = true -> inside h v).
Proof. intros h v. split; [apply deep_okb_sound|split; [apply closedb_sound|apply insideb_sound]]. Qed.
Print Assumptions C16_hypotheses_decidable.

(* ---- Toolbox aliases ---- *)
(* calling the alias with (a, k) calls the function with positional frozen ++ a and the frozen keywords
   overridden by k *)
Theorem C16_alias_call : forall t a f fa fk args kw,
  tb_get (register t a f fa fk) a = Some (FPartial f fa fk) /\
  call (FPartial f fa fk) args kw = call f (fa ++ args) (kw_merge fk kw).
Proof. exact alias_call. Qed.
Print Assumptions C16_alias_call.

(* decorate keeps the frozen arguments, wraps the function by the decorators in order, touches no other alias *)
Theorem C16_decorate_keeps : forall t a f fa fk ds t',
  tb_get t a = Some (FPartial f fa fk) -> decorate t a ds = Some t' ->
  tb_get t' a = Some (FPartial (fold_left (fun g d => FDec d g) ds f) fa fk) /\
  (forall b, b <> a -> tb_get t' b = tb_get t b) /\
  forall args kw, call (FPartial (fold_left (fun g d => FDec d g) ds f) fa fk) args kw =
                  call (fold_left (fun g d => FDec d g) ds f) (fa ++ args) (kw_merge fk kw).
Proof. exact decorate_keeps. Qed.
Print Assumptions C16_decorate_keeps.

Theorem C16_register_unregister : forall t a b f fa fk,
  (a <> b -> tb_get (register t a f fa fk) b = tb_get t b) /\
  (forall t', unregister t a = Some t' -> tb_get t' a = None /\ forall c, c <> a -> tb_get t' c = tb_get t c).
Proof. intros. split; [apply register_other|apply unregister_spec]. Qed.
Print Assumptions C16_register_unregister.

(* an alias pickles exactly when it is undecorated and what it wraps pickles *)
Theorem C16_alias_picklable : forall ok f fa fk ds,
  picklable ok (FPartial (fold_left (fun g d => FDec d g) ds f) fa fk) =
  match ds with [] => picklable ok f | _ => false end.
Proof. exact picklable_alias. Qed.
Print Assumptions C16_alias_picklable.

(* ---- non-vacuity: a class with a per-instance fitness and strategy and a class-level list; an individual
   whose strategy holds a nested list also referenced by a second attribute ---- *)
Definition ex_heap : heap :=
  [ mkobj KClass (Atom 1) [Atom 7] [(51, Atom 7000)];                               (* 0: fitness class *)
    mkobj KPyList (BType 0) [Atom 1; Atom 2] [];                                     (* 1: class-level list *)
    mkobj KClass (Atom 2) [Atom 1] [(0, Ref 0); (2, BType 0); (5, Ref 1)];           (* 2: individual class *)
    mkobj KFit (Ref 0) [Atom 100004] [];                                             (* 3: a valid fitness *)
    mkobj KPyList (BType 0) [Atom 9] [];                                             (* 4: nested list *)
    mkobj KPyList (BType 0) [Ref 4; Atom 3] [];                                      (* 5: strategy *)
    mkobj KList (Ref 2) [Atom 1; Atom 0; Atom 1] [(0, Ref 3); (2, Ref 5); (7, Ref 4)] ].  (* 6: individual *)

Example C16_nonvacuous :
  deep_okb ex_heap = true /\ insideb ex_heap (Ref 6) = true /\
  nocut (unfold is_class 3 ex_heap (Ref 6)) = true /\
  (exists h' , deepcopy ex_heap (Ref 6) = Some (h', Ref 7) /\ length h' = 11) /\
  (exists h', clone_chain ex_heap [Ref 6] [0; 1; 0] = Some (h', [Ref 6; Ref 7; Ref 11; Ref 15])) /\
  (exists h', pickle_roundtrip ex_heap (Ref 6) = Some (h', Ref 10)) /\
  (exists h', new_inst 5 ex_heap (Ref 2) [Atom 4] = Some (h', Ref 7) /\
              nth_error h' 7 = Some (mkobj KList (Ref 2) [Atom 4] [(0, Ref 8); (2, Ref 9)])).
Proof. vm_compute. repeat split; eexists; repeat split. Qed.

(* observation outside the statement, reproduced on the implementation by the harness: an attribute stored on
   the fitness object itself (here attribute 13) makes deep_ok false and is dropped by Fitness.__deepcopy__,
   while pickle keeps it *)
Definition ex_heap_fitattr : heap :=
  [ mkobj KClass (Atom 1) [Atom 7] [(51, Atom 7000)];
    mkobj KFit (Ref 0) [Atom 100004] [(13, Atom 5)] ].

Example C16_observation_fitness_attribute :
  deep_okb ex_heap_fitattr = false /\
  (exists h', deepcopy ex_heap_fitattr (Ref 1) = Some (h', Ref 2) /\
              nth_error h' 2 = Some (mkobj KFit (Ref 0) [Atom 100004] [])) /\
  (exists h', pickle_roundtrip ex_heap_fitattr (Ref 1) = Some (h', Ref 3) /\
              nth_error h' 3 = Some (mkobj KFit (Ref 2) [Atom 100004] [(13, Atom 5)])).
Proof. vm_compute. repeat split; eexists; repeat split. Qed.

(* non-vacuity on a cyclic graph: a tree-based individual listed among its own relatives (family = [ind]);
   the clone's list holds the clone *)
Definition ex_cyclic : heap :=
  [ mkobj KClass (Atom 1) [Atom 7] [(51, Atom 7000)];
    mkobj KClass (Atom 2) [Atom 6] [(0, Ref 0)];
    mkobj KFit (Ref 0) [Atom 100012] [];
    mkobj KPyList (BType 0) [Ref 4] [];
    mkobj KTree (Ref 1) [Atom 6000; Atom 6002; Atom 6003] [(0, Ref 2); (12, Ref 3)] ].

Example C16_nonvacuous_cyclic :
  deep_okb ex_cyclic = true /\
  (exists h', deepcopy ex_cyclic (Ref 4) = Some (h', Ref 5) /\
     nth_error h' 5 = Some (mkobj KTree (Ref 1) [Atom 6000; Atom 6002; Atom 6003] [(0, Ref 6); (12, Ref 7)]) /\
     nth_error h' 7 = Some (mkobj KPyList (BType 0) [Ref 5] [])) /\
  (exists h', pickle_fresh ex_cyclic (Ref 4) = Some (h', Ref 2) /\ length h' = 5).
Proof. vm_compute. repeat split; eexists; repeat split. Qed.
