(* Property C13 — tie (T), regeneration.  coq/Gen/C13_gen.v is written on every run by harness/c13_py2coq.py
   from the CURRENT text of deap/cma.py (class Strategy): computeParams as a whole, and of update the
   statements defining hsig, self.sigma and self.update_count, and self.chiN and the default lambda_ of __init__.
   Here: the regenerated definitions are the hand model for all arguments and every number type, and the
   C13 theorems about the parameters and the step size restated on the regenerated definitions.
   (The matrix statements of update -- paths, C, eigh -- are tied by the correspondence only.)
   Proofs in Proofs/C13_gen_equiv.v, Proofs/C13_gen_transferR.v, Proofs/C13_gen_transfer.v. *)
From mathcomp Require Import all_ssreflect fingroup perm all_algebra.
From Coq Require Reals.
From DV Require Import Proofs.C13_CMArefine Proofs.C13_CMAsort.
From DV Require Model.C13_GenRt Gen.C13_gen Proofs.C13_gen_equiv Proofs.C13_gen_transfer Proofs.C13_gen_transferR
                Proofs.C13_WeightsR.
Set Implicit Arguments.
Unset Strict Implicit.
Unset Printing Implicit Defensive.
Import GRing.Theory Num.Theory.
Local Open Scope ring_scope.
Module G := DV.Gen.C13_gen.
Module GE := DV.Proofs.C13_gen_equiv.
Module GT := DV.Proofs.C13_gen_transfer.
Module GR := DV.Proofs.C13_gen_transferR.
Module WR := DV.Proofs.C13_WeightsR.
Module Rt := DV.Model.C13_GenRt.

(* ---- regenerated = hand model, for every number type and all arguments ------------------------- *)
Theorem C13_gen_computeParams_is_model :
  forall (T : Type) (Nm : E.Num T) (dim lambda_ : nat) (chiN : T) (k : E.kargs),
    G.gen_computeParams Nm dim lambda_ chiN k = E.compute_params Nm dim lambda_ chiN k.
Proof. exact GE.gen_computeParams_eq. Qed.
Print Assumptions C13_gen_computeParams_is_model.

Theorem C13_gen_hsig_is_model :
  forall (T : Type) (Nm : E.Num T) (P : E.params) (st : E.state) (ps : seq T),
    G.gen_hsig Nm P st ps = E.hsig_of Nm P st ps.
Proof. exact GE.gen_hsig_eq. Qed.
Print Assumptions C13_gen_hsig_is_model.

(* the executable update is the rest of the hand model run with the REGENERATED h_sigma ... *)
Theorem C13_gen_update_uses_hsig :
  forall (T : Type) (Nm : E.Num T) (eigh : seq (seq T) -> seq T * seq (seq T))
         (P : E.params) (st : E.state) (pop : seq (seq T * seq T)),
    let spop := List.map snd (E.sort_pop Nm pop) in
    let ps' := E.new_ps Nm P st (E.vsub Nm (E.new_centroid Nm P spop) (E.s_centroid st)) in
    E.update Nm eigh P st pop = E.update_core Nm eigh P st spop (G.gen_hsig Nm P st ps').
Proof. exact @GE.gen_update_hsig. Qed.
Print Assumptions C13_gen_update_uses_hsig.

(* ... its new step size is the REGENERATED statement `self.sigma *= exp(...)` on the new path ... *)
Theorem C13_gen_update_sigma :
  forall (T : Type) (Nm : E.Num T) (eigh : seq (seq T) -> seq T * seq (seq T))
         (P : E.params) (st : E.state) (pop : seq (seq T * seq T)),
    let spop := List.map snd (E.sort_pop Nm pop) in
    let ps' := E.new_ps Nm P st (E.vsub Nm (E.new_centroid Nm P spop) (E.s_centroid st)) in
    E.s_sigma (E.update Nm eigh P st pop) = G.gen_sigma Nm P st ps'.
Proof. exact @GE.gen_update_sigma. Qed.
Print Assumptions C13_gen_update_sigma.

(* ... and its generation counter the REGENERATED `self.update_count += 1` *)
Theorem C13_gen_update_count :
  forall (T : Type) (Nm : E.Num T) (eigh : seq (seq T) -> seq T * seq (seq T))
         (P : E.params) (st : E.state) (pop : seq (seq T * seq T)),
    let spop := List.map snd (E.sort_pop Nm pop) in
    let ps' := E.new_ps Nm P st (E.vsub Nm (E.new_centroid Nm P spop) (E.s_centroid st)) in
    E.s_count (E.update Nm eigh P st pop) = G.gen_count Nm P st ps' /\ G.gen_count Nm P st ps' = (E.s_count st).+1.
Proof. move=> T Nm eigh P st pop; split; [exact: GE.gen_update_count | exact: GE.gen_count_eq]. Qed.
Print Assumptions C13_gen_update_count.

(* chiN of a freshly constructed strategy is the REGENERATED `sqrt(N) * (1 - 1/(4N) + 1/(21 N^2))` statement *)
Theorem C13_gen_init_chiN :
  forall (T : Type) (Nm : E.Num T) (eigh : seq (seq T) -> seq T * seq (seq T)) (dl : nat -> nat)
         (centroid : seq T) (sigma : T) (k : E.kargs),
    E.p_chiN (E.init Nm eigh dl centroid sigma k).1 = G.gen_chiN Nm (size centroid) /\
    G.gen_chiN Nm (size centroid) = E.chiN_of Nm (size centroid).
Proof. move=> T Nm eigh dl c s k; split; [exact: GE.gen_init_chiN | exact: GE.gen_chiN_eq]. Qed.
Print Assumptions C13_gen_init_chiN.

(* int(4 + 3 * log(N)) as written now = the default_lambda the correspondence evaluates (float instance) *)
Theorem C13_gen_default_lambda_is_model :
  forall dim : nat, G.gen_default_lambda dim = E.default_lambda dim.
Proof. exact GE.gen_default_lambda_eq. Qed.
Print Assumptions C13_gen_default_lambda_is_model.

(* ---- the property theorems, on the regenerated definitions ------------------------------------------ *)
(* the regenerated computeParams, read through the abstraction list -> row vector, IS the algebraic
   computeParams of Props/C13.v: C13_weights_pos_noninc_sum1, C13_computeParams_is_documented and
   C13_default_rates_admissible are therefore statements about the current source text *)
Theorem C13_gen_compute_params_refines :
  forall (R : rcfType) (exp ln : R -> R) (n dim lambda_ : nat) (chiN : R) (k : E.kargs),
    dim = n ->
    let mu := E.getd (E.k_mu k) (Nat.div lambda_ 2) in
    let P := G.gen_computeParams (RNum exp ln) dim lambda_ chiN k in
    wfP n mu P /\ absP mu P = A.compute_params n mu ln chiN (absK k).
Proof. exact: GT.gen_compute_params_refines. Qed.
Print Assumptions C13_gen_compute_params_refines.

(* the regenerated step-size statement gives the published sigma' = sigma exp(cs/damps (|p_sigma'|/chiN - 1)) *)
Theorem C13_gen_sigma_is_published :
  forall (R : rcfType) (exp ln : R -> R) (n mu : nat)
         (eighL : seq (seq R) -> seq R * seq (seq R)) (eighA : 'M_n -> 'rV_n * 'M_n)
         (P : E.params) (st : E.state) (pop : seq (seq R * seq R)),
    (forall C : seq (seq R), mshape n n C ->
       [/\ size (eighL C).1 = n, mshape n n (eighL C).2
         & eighA (mxL n n C) = (rvL n (eighL C).1, mxL n n (eighL C).2)]) ->
    wfP n mu P -> wfS n st ->
    let spop := List.map snd (E.sort_pop (RNum exp ln) pop) in
    (mu <= size spop)%N -> all (fun x : seq R => size x == n) spop ->
    E.s_sigma st != 0 -> \sum_(i < mu) (rvL mu (E.p_weights P)) 0 i = 1 ->
    let ps' := E.new_ps (RNum exp ln) P st
                 (E.vsub (RNum exp ln) (E.new_centroid (RNum exp ln) P spop) (E.s_centroid st)) in
    G.gen_sigma (RNum exp ln) P st ps'
    = (S.cma_update exp (absP mu P) (absS n st) (mxL mu n (take mu spop))).2.
Proof. exact: GT.gen_sigma_is_published. Qed.
Print Assumptions C13_gen_sigma_is_published.

(* the weights of the regenerated computeParams at Coq's reals with the real ln: mu of them, positive,
   non-increasing, summing to one (axioms: Coq's Reals, as printed) *)
Theorem C13_gen_weights_pos_noninc_sum1_R :
  forall (dim lambda_ : nat) (chiN : Rdefinitions.R) (k : E.kargs),
    let mu := E.getd (E.k_mu k) (Nat.div lambda_ 2) in
    (1 <= mu)%coq_nat ->
    let w := E.p_weights (G.gen_computeParams WR.RNum dim lambda_ chiN k) in
    length w = mu /\
    (forall i, (i < mu)%coq_nat -> Rdefinitions.Rlt (Rdefinitions.IZR BinNums.Z0) (List.nth i w (Rdefinitions.IZR BinNums.Z0))) /\
    (forall i j, (i <= j)%coq_nat /\ (j < mu)%coq_nat ->
                 Rdefinitions.Rle (List.nth j w (Rdefinitions.IZR BinNums.Z0)) (List.nth i w (Rdefinitions.IZR BinNums.Z0))) /\
    E.vsum WR.RNum w = Rdefinitions.IZR (BinNums.Zpos BinNums.xH).
Proof. exact GR.gen_weights_pos_noninc_sum1_R. Qed.
Print Assumptions C13_gen_weights_pos_noninc_sum1_R.
