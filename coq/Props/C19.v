(* Property C19 -- theorems only.
   Model: Model/C19_Penalty.v (deap/tools/constraint.py, DeltaPenalty and ClosestValidPenalty),
   re-derived from the working-tree source on every run (Gen/C19_gen.v proves the regenerated
   definitions equal to the model and restates the main theorems on them).

   Reading guide.  For any types I (individuals) and Args (the extra positional and keyword
   arguments, passed as one bundle) and any  W : I -> list Q  (i.fitness.weights):
     delta_penalty W feas delta dist func i a          = DeltaPenalty(feas, delta, dist)(func)(i, *a)
     closest_valid_penalty W feas fbl alpha dist func i a = ClosestValidPenalty(feas, fbl, alpha, dist)(func)(i, *a)
   both evaluate to (outcome, log); log lists every callback invocation in order
   (EFeas = feasibility, EEval = evaluation function, EClosest = feasible, EDist1/EDist2 = distance);
   `calls log` keeps the evaluator invocations.  delta / distance values are  VNum q (scalar)  or
   VTup l (per objective);  vnth k v  is the k-th component (a scalar counts for every objective);
   dval1 / dval2 give the distance charged (absent distance function: 0 on every objective);
   sgn w = 1 if w >= 0 else -1, exactly as the code computes it. *)
From Coq Require Import List QArith Bool Arith.
From DV Require Import Base.C19_PyRt Model.C19_Penalty Proofs.C19_Penalty.
Import ListNotations.
Local Open Scope Q_scope.

Section C19.
  Context {I Args : Type} (W : I -> list Q).

  (* ---- feasible individuals: exactly the undecorated result, one evaluator call, same extra arguments ---- *)
  Theorem C19_feasible_passthrough_delta :
    forall feas delta dist (func : I -> Args -> val) i a,
      num_or_tup delta -> feas i = true ->
      delta_penalty W feas delta dist func i a = (Ok (func i a), [EFeas i; EEval i a]).
  Proof. exact (feasible_passthrough_delta W). Qed.

  Theorem C19_feasible_passthrough_closest :
    forall feas fbl alpha dist (func : I -> Args -> val) i a,
      feas i = true ->
      closest_valid_penalty W feas fbl alpha dist func i a = (Ok (func i a), [EFeas i; EEval i a]).
  Proof. exact (feasible_passthrough_closest W). Qed.

  (* ---- infeasible, constant penalty: the evaluation function is never called (no hypothesis at all) ---- *)
  Theorem C19_delta_no_eval :
    forall feas delta dist (func : I -> Args -> val) i a,
      feas i = false ->
      calls (snd (delta_penalty W feas delta dist func i a)) = [].
  Proof. exact (delta_no_eval W). Qed.

  (* ---- infeasible, constant penalty: r_k = Delta_k - sgn(w_k) * d_k.
     The result has min(#Delta, #weights, #distances) components (zip truncation; scalars do not
     truncate); exactly one per objective when the per-objective quantities have the right size. ---- *)
  Theorem C19_delta_formula :
    forall feas delta dist (func : I -> Args -> val) i a,
      feas i = false -> num_or_tup delta -> num_or_tup (dval1 W dist i) ->
      let n := length (W i) in
      exists r,
        delta_penalty W feas delta dist func i a = (Ok (VTup r), EFeas i :: dlog1 dist i) /\
        length r = Nat.min (Nat.min (vlen n delta) n) (vlen n (dval1 W dist i)) /\
        (fits n delta -> fits n (dval1 W dist i) -> length r = n) /\
        forall k, (k < length r)%nat ->
          nth k r 0 = vnth k delta - sgn (nth k (W i) 0) * vnth k (dval1 W dist i).
  Proof. exact (delta_formula W). Qed.

  (* ---- infeasible, closest valid: r_k = f_k(valid x) - sgn(w_k) * alpha * d_k; the log shows the
     evaluator is called once, on the closest valid point, with the same extra arguments, and the
     distance function receives (valid x, x). ---- *)
  Theorem C19_closest_formula :
    forall feas fbl alpha dist (func : I -> Args -> val) i a fv,
      feas i = false ->
      func (fbl i) a = VTup fv -> length fv = length (W i) ->
      num_or_tup (dval2 W dist (fbl i) i) ->
      let n := length (W i) in
      exists r,
        closest_valid_penalty W feas fbl alpha dist func i a =
          (Ok (VTup r), [EFeas i; EClosest i; EEval (fbl i) a] ++ dlog2 dist (fbl i) i) /\
        length r = Nat.min n (vlen n (dval2 W dist (fbl i) i)) /\
        (fits n (dval2 W dist (fbl i) i) -> length r = n) /\
        forall k, (k < length r)%nat ->
          nth k r 0 = nth k fv 0 - sgn (nth k (W i) 0) * alpha * vnth k (dval2 W dist (fbl i) i).
  Proof. exact (closest_formula W). Qed.

  (* one evaluator call, on valid(x) -- never on the infeasible individual -- whatever else happens *)
  Theorem C19_closest_one_call :
    forall feas fbl alpha dist (func : I -> Args -> val) i a,
      feas i = false ->
      calls (snd (closest_valid_penalty W feas fbl alpha dist func i a)) = [(fbl i, a)].
  Proof. exact (closest_one_call W). Qed.

  (* the explicit size check of ClosestValidPenalty *)
  Theorem C19_closest_size_check :
    forall feas fbl alpha dist (func : I -> Args -> val) i a fv,
      feas i = false -> func (fbl i) a = VTup fv -> length fv <> length (W i) ->
      closest_valid_penalty W feas fbl alpha dist func i a =
        (Exc IndexError, [EFeas i; EClosest i; EEval (fbl i) a]).
  Proof. exact (closest_size_check W). Qed.

  (* ---- never better than the constant / than the closest valid fitness, on any objective.
     (0 <= w covers the statement's w > 0; the code treats a zero weight like a maximised one.)
     The third conjunct is DEAP's own notion: weighted values w * r, which Fitness compares. ---- *)
  Theorem C19_delta_never_better :
    forall feas delta dist (func : I -> Args -> val) i a r log,
      feas i = false -> num_or_tup delta -> num_or_tup (dval1 W dist i) ->
      (forall k, 0 <= vnth k (dval1 W dist i)) ->
      delta_penalty W feas delta dist func i a = (Ok (VTup r), log) ->
      forall k, (k < length r)%nat ->
        let w := nth k (W i) 0 in
        (0 <= w -> nth k r 0 <= vnth k delta) /\
        (w < 0 -> vnth k delta <= nth k r 0) /\
        w * nth k r 0 <= w * vnth k delta.
  Proof. exact (delta_never_better W). Qed.

  Theorem C19_closest_never_better :
    forall feas fbl alpha dist (func : I -> Args -> val) i a fv r log,
      feas i = false -> func (fbl i) a = VTup fv -> length fv = length (W i) ->
      num_or_tup (dval2 W dist (fbl i) i) ->
      0 <= alpha -> (forall k, 0 <= vnth k (dval2 W dist (fbl i) i)) ->
      closest_valid_penalty W feas fbl alpha dist func i a = (Ok (VTup r), log) ->
      forall k, (k < length r)%nat ->
        let w := nth k (W i) 0 in
        (0 <= w -> nth k r 0 <= nth k fv 0) /\
        (w < 0 -> nth k fv 0 <= nth k r 0) /\
        w * nth k r 0 <= w * nth k fv 0.
  Proof. exact (closest_never_better W). Qed.

  (* ---- never improves as the distance grows (dist' >= dist on every objective) ---- *)
  Theorem C19_delta_monotone_in_distance :
    forall feas delta (dist dist' : option (I -> val)) (func : I -> Args -> val) i a r r' log log',
      feas i = false -> num_or_tup delta ->
      num_or_tup (dval1 W dist i) -> num_or_tup (dval1 W dist' i) ->
      (forall k, vnth k (dval1 W dist i) <= vnth k (dval1 W dist' i)) ->
      delta_penalty W feas delta dist func i a = (Ok (VTup r), log) ->
      delta_penalty W feas delta dist' func i a = (Ok (VTup r'), log') ->
      forall k, (k < length r)%nat -> (k < length r')%nat ->
        let w := nth k (W i) 0 in
        (0 <= w -> nth k r' 0 <= nth k r 0) /\ (w < 0 -> nth k r 0 <= nth k r' 0).
  Proof. exact (delta_monotone W). Qed.

  Theorem C19_closest_monotone_in_distance :
    forall feas fbl alpha (dist dist' : option (I -> I -> val)) (func : I -> Args -> val) i a fv r r' log log',
      feas i = false -> func (fbl i) a = VTup fv -> length fv = length (W i) ->
      num_or_tup (dval2 W dist (fbl i) i) -> num_or_tup (dval2 W dist' (fbl i) i) ->
      0 <= alpha ->
      (forall k, vnth k (dval2 W dist (fbl i) i) <= vnth k (dval2 W dist' (fbl i) i)) ->
      closest_valid_penalty W feas fbl alpha dist func i a = (Ok (VTup r), log) ->
      closest_valid_penalty W feas fbl alpha dist' func i a = (Ok (VTup r'), log') ->
      forall k, (k < length r)%nat -> (k < length r')%nat ->
        let w := nth k (W i) 0 in
        (0 <= w -> nth k r' 0 <= nth k r 0) /\ (w < 0 -> nth k r 0 <= nth k r' 0).
  Proof. exact (closest_monotone W). Qed.

  (* the error values of the run-time library (Stuck, NonTermination) and TypeError are unreachable
     for DeltaPenalty on numbers and tuples: it always returns a value *)
  Theorem C19_delta_total :
    forall feas delta dist (func : I -> Args -> val) i a,
      num_or_tup delta -> (feas i = false -> num_or_tup (dval1 W dist i)) ->
      exists v, fst (delta_penalty W feas delta dist func i a) = Ok v.
  Proof. exact (delta_total W). Qed.
  (* ---- further consequences ---- *)
  (* infeasible, constant penalty: outcome and log are the same whatever the evaluation function and
     the extra arguments are (a semantic form of "does not call the evaluation function") *)
  Theorem C19_delta_ignores_evaluator :
    forall feas delta dist (func func' : I -> Args -> val) i (a a' : Args),
      feas i = false ->
      delta_penalty W feas delta dist func i a = delta_penalty W feas delta dist func' i a'.
  Proof. exact (delta_ignores_evaluator W). Qed.

  (* infeasible, closest valid: the evaluation function matters only through its value at valid(x) *)
  Theorem C19_closest_only_valid_point :
    forall feas fbl alpha dist (func func' : I -> Args -> val) i (a : Args),
      feas i = false ->
      func (fbl i) a = func' (fbl i) a ->
      closest_valid_penalty W feas fbl alpha dist func i a =
      closest_valid_penalty W feas fbl alpha dist func' i a.
  Proof. exact (closest_only_valid_point W). Qed.

  (* no distance function (or alpha == 0): exactly the constant / the closest valid fitness *)
  Theorem C19_delta_without_distance :
    forall feas delta (func : I -> Args -> val) i a,
      feas i = false -> num_or_tup delta ->
      exists r, delta_penalty W feas delta None func i a = (Ok (VTup r), [EFeas i]) /\
        forall k, (k < length r)%nat -> nth k r 0 == vnth k delta.
  Proof. exact (delta_without_distance W). Qed.

  Theorem C19_closest_without_penalty :
    forall feas fbl alpha dist (func : I -> Args -> val) i a fv,
      feas i = false -> func (fbl i) a = VTup fv -> length fv = length (W i) ->
      num_or_tup (dval2 W dist (fbl i) i) ->
      dist = None \/ alpha == 0 ->
      exists r log, closest_valid_penalty W feas fbl alpha dist func i a = (Ok (VTup r), log) /\
        forall k, (k < length r)%nat -> nth k r 0 == nth k fv 0.
  Proof. exact (closest_without_penalty W). Qed.

  (* strictly worse as soon as the charged distance is positive (and alpha > 0) on a non-zero weight *)
  Theorem C19_delta_strictly_worse :
    forall feas delta dist (func : I -> Args -> val) i a r log,
      feas i = false -> num_or_tup delta -> num_or_tup (dval1 W dist i) ->
      delta_penalty W feas delta dist func i a = (Ok (VTup r), log) ->
      forall k, (k < length r)%nat -> 0 < vnth k (dval1 W dist i) ->
        let w := nth k (W i) 0 in
        (0 < w -> nth k r 0 < vnth k delta) /\ (w < 0 -> vnth k delta < nth k r 0).
  Proof. exact (delta_strictly_worse W). Qed.

  Theorem C19_closest_strictly_worse :
    forall feas fbl alpha dist (func : I -> Args -> val) i a fv r log,
      feas i = false -> func (fbl i) a = VTup fv -> length fv = length (W i) ->
      num_or_tup (dval2 W dist (fbl i) i) ->
      closest_valid_penalty W feas fbl alpha dist func i a = (Ok (VTup r), log) ->
      forall k, (k < length r)%nat -> 0 < alpha -> 0 < vnth k (dval2 W dist (fbl i) i) ->
        let w := nth k (W i) 0 in
        (0 < w -> nth k r 0 < nth k fv 0) /\ (w < 0 -> nth k fv 0 < nth k r 0).
  Proof. exact (closest_strictly_worse W). Qed.
End C19.

Print Assumptions C19_feasible_passthrough_delta.
Print Assumptions C19_feasible_passthrough_closest.
Print Assumptions C19_delta_no_eval.
Print Assumptions C19_delta_formula.
Print Assumptions C19_closest_formula.
Print Assumptions C19_closest_one_call.
Print Assumptions C19_closest_size_check.
Print Assumptions C19_delta_never_better.
Print Assumptions C19_closest_never_better.
Print Assumptions C19_delta_monotone_in_distance.
Print Assumptions C19_closest_monotone_in_distance.
Print Assumptions C19_delta_total.
Print Assumptions C19_delta_ignores_evaluator.
Print Assumptions C19_closest_only_valid_point.
Print Assumptions C19_delta_without_distance.
Print Assumptions C19_closest_without_penalty.
Print Assumptions C19_delta_strictly_worse.
Print Assumptions C19_closest_strictly_worse.

(* non-vacuity: two objectives (maximise, minimise), scalar constant 10, distance (1/2, 2):
   the infeasible individual gets (10 - 1/2, 10 + 2) and the evaluator is not called;
   closest-valid with f(valid x) = (3, 4), alpha = 2, scalar distance 1/2 gives (3 - 1, 4 + 1). *)
Example C19_nonvacuous :
  let W := fun _ : nat => [1; -1] in
  delta_penalty (Args := unit) W (fun _ => false) (VNum 10) (Some (fun _ => VTup [1#2; 2]))
                (fun _ _ => VTup [0; 0]) 0%nat tt
    = (Ok (VTup [10 - 1 * (1#2); 10 - -1 * 2]), [EFeas 0%nat; EDist1 0%nat]) /\
  closest_valid_penalty (Args := unit) W (fun _ => false) (fun _ => 1%nat) 2 (Some (fun _ _ => VNum (1#2)))
                (fun _ _ => VTup [3; 4]) 0%nat tt
    = (Ok (VTup [3 - 1 * 2 * (1#2); 4 - -1 * 2 * (1#2)]),
       [EFeas 0%nat; EClosest 0%nat; EEval 1%nat tt; EDist2 1%nat 0%nat]).
Proof. split; reflexivity. Qed.
