(* Property C15 — theorems only (placeholder while the proofs are being built). *)
From Coq Require Import List QArith Bool.
From DV Require Import Model.C15_HV.
Import ListNotations.
Local Open Scope Q_scope.

Example C15_witness_value :
  hv [1;3;3;3] [[0;1;0;1];[0;0;2;1];[0;1;0;0]] == 20 /\
  grid_measure [1;3;3;3] [[0;1;0;1];[0;0;2;1];[0;1;0;0]] == 20.
Proof. split; vm_compute; reflexivity. Qed.
