(* Property C15 — theorems only.  Model: Model/C15_HV.v; proofs: Proofs/C15_HV.v.

   Reading of the statement.  Minimisation; a point p spans the box [p, ref).  "The Lebesgue measure
   of the union of the boxes" is written as the finite sum [grid_measure]: the coordinates of the points
   and of the reference cut the space into grid cells; each cell lies inside the union or is disjoint
   from it (C15_cell_homogeneous), and the cells below the reference tile the bounding region, so the
   measure of the union is the sum of the volumes of the covered cells.  Finite additivity of the Lebesgue
   measure on disjoint boxes is NOT formalised (no measure theory library is installed); it is the one
   mathematical step between [grid_measure] and the measure.

   What is proved is about the model [hv] (HSO recursion).  That the C extension and pyhv compute [hv]
   is established by the correspondence run (harness/c15.py), not by these theorems: the dimension-sweep
   data structures are not modelled. *)
From Coq Require Import List QArith Bool SetoidList Sorted Permutation.
From DV Require Import Model.C15_HV Model.C15_Sweep Proofs.C15_HV Proofs.C15_Sym Proofs.C15_Sweep.
Import ListNotations.
Local Open Scope Q_scope.

(* hv is the measure: every dimension, every finite point list.  No hypothesis is needed: a point with a
   coordinate on or beyond the reference has an empty box on both sides of the equation. *)
Theorem C15_hv_is_measure : forall ref pts, hv ref pts == grid_measure ref pts.
Proof. exact hv_is_measure. Qed.
Print Assumptions C15_hv_is_measure.

(* stronger: hv equals the grid sum on EVERY grid that contains the coordinates of the points (so the grid
   sum is invariant under refinement of the grid) *)
Theorem C15_hv_any_grid : forall ref pts axes,
  valid_grid ref pts axes -> hv ref pts == gmeasure axes pts.
Proof. exact hv_gmeasure. Qed.
Print Assumptions C15_hv_any_grid.

Theorem C15_grid_refine : forall ref pts axes1 axes2,
  valid_grid ref pts axes1 -> valid_grid ref pts axes2 -> gmeasure axes1 pts == gmeasure axes2 pts.
Proof. exact gmeasure_grid_independent. Qed.
Print Assumptions C15_grid_refine.

(* geometric meaning of "covered": a cell of a valid grid lies inside the union of the boxes or is
   disjoint from it, and the former happens exactly when its lower corner is dominated *)
Theorem C15_cell_homogeneous : forall ref pts axes c x,
  valid_grid ref pts axes -> In c (cells axes) -> in_cell x c ->
  (covered pts c = true <-> exists p, In p pts /\ wdom ref p x).
Proof. exact cell_homogeneous. Qed.
Print Assumptions C15_cell_homogeneous.

(* regardless of point order, duplicates or dominated points *)
Theorem C15_hv_perm : forall ref pts1 pts2, Permutation pts1 pts2 -> hv ref pts1 == hv ref pts2.
Proof. exact hv_perm. Qed.
Print Assumptions C15_hv_perm.

Theorem C15_hv_dup : forall ref p pts, In p pts -> hv ref (p :: pts) == hv ref pts.
Proof. exact hv_dup. Qed.
Print Assumptions C15_hv_dup.

Theorem C15_hv_set_ext : forall ref pts1 pts2,
  (forall p, In p pts1 <-> In p pts2) -> hv ref pts1 == hv ref pts2.
Proof. exact hv_set_ext. Qed.
Print Assumptions C15_hv_set_ext.

Theorem C15_hv_dominated : forall ref p q pts,
  In p pts -> wdom ref p q -> hv ref (q :: pts) == hv ref pts.
Proof. exact hv_dominated. Qed.
Print Assumptions C15_hv_dominated.

Theorem C15_hv_dominated_Forall2 : forall ref p q pts,
  In p pts -> Forall2 Qle p q -> hv ref (q :: pts) == hv ref pts.
Proof. intros ref p q pts H D. apply (hv_dominated ref p q pts H). apply Forall2_wdom. exact D. Qed.
Print Assumptions C15_hv_dominated_Forall2.

(* points on (or beyond) the reference boundary contribute nothing *)
Theorem C15_hv_boundary : forall ref q pts, outside ref q -> hv ref (q :: pts) == hv ref pts.
Proof. exact hv_boundary. Qed.
Print Assumptions C15_hv_boundary.

Theorem C15_hv_mono : forall ref pts1 pts2,
  (forall p, In p pts1 -> In p pts2) -> hv ref pts1 <= hv ref pts2.
Proof. exact hv_mono. Qed.
Print Assumptions C15_hv_mono.

(* closed forms: one point, one dimension, two-dimensional staircase *)
Theorem C15_hv_single : forall ref p, strictly_below ref p -> hv ref [p] == box_vol ref p.
Proof. exact hv_single. Qed.
Print Assumptions C15_hv_single.

Theorem C15_hv_1d : forall r p pts,
  In p pts -> hd0 p < r -> (forall q, In q pts -> hd0 p <= hd0 q) -> hv [r] pts == r - hd0 p.
Proof. exact hv_1d. Qed.
Print Assumptions C15_hv_1d.

Theorem C15_hv_2d_staircase : forall rx ry l,
  staircase rx ry l -> hv [rx; ry] (map (fun xy => [fst xy; snd xy]) l) == stair_area rx ry l.
Proof. exact hv_2d_staircase. Qed.
Print Assumptions C15_hv_2d_staircase.

(* the hypervolume of a population is that measure taken on its negated weighted objectives; with the
   default reference (worst + 1) every point strictly dominates the reference *)
Theorem C15_population_hv : forall w vals refo,
  let P := map (fun v => map Qopp (map2 Qmult v w)) vals in
  pop_hv w vals refo == grid_measure (the_ref refo P) P.
Proof. exact pop_hv_is_measure. Qed.
Print Assumptions C15_population_hv.

Theorem C15_default_ref : forall d pts,
  pts <> [] -> Forall (fun p => length p = d) pts ->
  length (default_ref pts) = d /\ Forall (fun p => Forall2 Qlt p (default_ref pts)) pts.
Proof. exact default_ref_strict. Qed.
Print Assumptions C15_default_ref.

(* the indicator returns the (first) index whose removal reduces the hypervolume the least *)
Theorem C15_indicator_least_loss : forall w vals refo, vals <> [] ->
  let P := wobj w vals in
  let r := the_ref refo P in
  let i := indicator w vals refo in
  let loss j := hv r P - hv r (remove_nth j P) in
  (i < length vals)%nat /\
  (forall j, (j < length vals)%nat -> loss i <= loss j) /\
  (forall j, (j < i)%nat -> loss i < loss j) /\
  (forall j, 0 <= loss j).
Proof. exact indicator_least_loss. Qed.
Print Assumptions C15_indicator_least_loss.

(* symmetries: exchanging two adjacent coordinates (so slicing on another coordinate gives the same value)
   and translating points and reference together *)
Theorem C15_hv_swap_adjacent : forall k ref pts, (S k < length ref)%nat ->
  hv (swap_ref k ref) (map (swap_at k) pts) == hv ref pts.
Proof. exact hv_swap_at. Qed.
Print Assumptions C15_hv_swap_adjacent.

(* slicing on the LAST coordinate (hv_last, the usual description of HSO) gives the same value in every
   dimension, for points of the dimension of the reference *)
Theorem C15_hv_last_is_hv : forall ref pts,
  Forall (fun p => length p = length ref) pts -> hv_last ref pts == hv ref pts.
Proof. exact hv_last_is_hv. Qed.
Print Assumptions C15_hv_last_is_hv.

Theorem C15_hv_last_2obj : forall rx ry l,
  hv_last [rx; ry] (map (fun xy : Q * Q => [fst xy; snd xy]) l) == hv [rx; ry] (map (fun xy => [fst xy; snd xy]) l).
Proof. exact hv_last_2d. Qed.
Print Assumptions C15_hv_last_2obj.

Theorem C15_hv_translate : forall t ref ref' pts pts',
  length ref = length t -> length ref' = length t ->
  sh t ref ref' -> Forall2 (sh t) pts pts' -> hv ref' pts' == hv ref pts.
Proof. exact hv_translate. Qed.
Print Assumptions C15_hv_translate.

(* The code paths for ONE and TWO objectives, transcribed from the sources (Model/C15_Sweep.v), compute hv:
   _hv.c for every input (its filter drops the points that do not strictly dominate the reference), for
   whatever order qsort gives to equal second coordinates; pyhv.py for points weakly dominating the
   reference. *)
Theorem C15_c_extension_2obj : forall rx ry pts, chv2 rx ry pts == hv [rx; ry] (map pt2 pts).
Proof. exact chv2_correct. Qed.
Print Assumptions C15_c_extension_2obj.

Theorem C15_c_extension_2obj_any_tie_order : forall rx ry pts sorted,
  Permutation sorted (c_filter2 rx ry pts) -> ysorted sorted ->
  chv2_sorted rx ry sorted == hv [rx; ry] (map pt2 pts).
Proof. exact chv2_sorted_correct. Qed.
Print Assumptions C15_c_extension_2obj_any_tie_order.

Theorem C15_pyhv_2obj : forall rx ry pts,
  (forall p, In p pts -> fst p <= rx /\ snd p <= ry) -> pyhv2 rx ry pts == hv [rx; ry] (map pt2 pts).
Proof. exact pyhv2_correct. Qed.
Print Assumptions C15_pyhv_2obj.

Theorem C15_c_extension_1obj : forall r xs, chv1 r xs == hv [r] (map sing xs).
Proof. exact chv1_correct. Qed.
Print Assumptions C15_c_extension_1obj.

Theorem C15_pyhv_1obj : forall r xs,
  (forall x, In x xs -> x <= r) -> pyhv1 r xs == hv [r] (map sing xs).
Proof. exact pyhv1_correct. Qed.
Print Assumptions C15_pyhv_1obj.

(* the hypothesis of C15_pyhv_2obj is needed: a point beyond the reference makes pyhv wrong (out of the
   property's scope, recorded for completeness) *)
Example C15_pyhv_2obj_needs_domination :
  ~ pyhv2 1 1 [(0, 0); (2, (-1))] == hv [1; 1] (map pt2 [(0, 0); (2, (-1))]).
Proof. vm_compute. discriminate. Qed.

(* non-vacuity: the input on which pyhv was wrong before the repair (12 instead of 20), a staircase,
   a population *)
Example C15_nonvacuous :
  hv [1;3;3;3] [[0;1;0;1];[0;0;2;1];[0;1;0;0]] == 20 /\
  grid_measure [1;3;3;3] [[0;1;0;1];[0;0;2;1];[0;1;0;0]] == 20 /\
  valid_grid [1;3;3;3] [[0;1;0;1];[0;0;2;1];[0;1;0;0]] [[0;1];[0;1;3];[0;2;3];[0;1;3]] /\
  staircase 4 4 [(0,3);(1,2);(3,0)] /\
  indicator [1;-1] [[1;5];[2;3];[3;4];[0;9]] None = 0%nat /\
  outside [1;3;3;3] [0;3;0;0] /\ wdom [1;3;3;3] [0;1;0;0] [0;1;0;1].
Proof.
  split; [vm_compute; reflexivity|]. split; [vm_compute; reflexivity|].
  split; [apply C15_nonvacuous_grid|]. split; [apply C15_nonvacuous_stair|].
  split; [vm_compute; reflexivity|]. split; [cbn; right; left; discriminate|].
  cbn. repeat split; discriminate.
Qed.
