(* Property C12 — theorems only.  Model: Model/C12_GPPrint.v (deap/gp.py). *)
From Coq Require Import List ZArith Bool String.
From DV Require Import Base.C12_Str Model.C12_GPPrint Proofs.C12_GPPrint.
Import ListNotations.
Local Open Scope string_scope.

(* PrimitiveTree.__str__ (the stack machine) prints every well-formed prefix list as the recursive
   name(a1, ..., an) form of the tree it encodes: every argument of every arity in its position *)
Theorem C12_str_is_pp : forall ps t tr, parse t = Some tr -> str_tree ps t = pp ps tr.
Proof. exact str_is_pp. Qed.
Print Assumptions C12_str_is_pp.
