(* Property C12 — theorems only.  Model: Model/C12_GPPrint.v (deap/gp.py); proofs: Proofs/C12_GPPrint.v.

   Reading guide.  t : list node is a PrimitiveTree (prefix order); parse t = Some tr says t is well formed
   (exactly one complete tree tr).  Hypotheses used below (all defined in Proofs/C12_GPPrint.v):
     all_nodes (node_ok ps) tr      names are Python identifiers, constants print as a separator-free atom
                                    that evaluates back to the constant (DESIGN Appendix B 8)
     all_nodes (resolvable sub ps)  the printed token of every node leads pset.mapping / eval back to it
     typed sub tr                   every argument is acceptable where it stands (issubclass)
     pset_ok ps                     Terminal.value of argument j = pset.arguments[j]; distinct identifiers
     all_nodes (name_fresh ..) tr   no primitive / named terminal is shadowed by an argument name
   TRUSTED, not proved: CPython's parser and evaluator agree with parse_expr / eval_expr on the printed
   call-expression fragment (checked on every run by the differential harness). *)
From Coq Require Import List ZArith Bool String Lia.
From DV Require Import Base.C12_Str Model.C12_GPPrint Proofs.C12_GPPrint.
Import ListNotations.
Local Open Scope string_scope.

(* PrimitiveTree.__str__ (the stack machine) prints every well-formed prefix list as the recursive
   name(a1, ..., an) form of the tree it encodes: every argument of every arity in its position;
   arity-0 primitives print name() *)
Theorem C12_str_is_pp : forall ps t tr, parse t = Some tr -> str_tree ps t = pp ps tr.
Proof. exact str_is_pp. Qed.
Print Assumptions C12_str_is_pp.

(* the recursive-descent reading of prefix lists used to state the theorems is the inverse of flatten *)
Theorem C12_parse_flatten : forall tr, wf_tree tr -> parse (flatten tr) = Some tr.
Proof. exact parse_flatten. Qed.
Print Assumptions C12_parse_flatten.

Theorem C12_parse_sound : forall t tr, parse t = Some tr -> t = flatten tr /\ wf_tree tr.
Proof. exact parse_sound. Qed.
Print Assumptions C12_parse_sound.

(* the tokens from_string obtains from the printed form are the nodes' tokens, one per node, in order *)
Theorem C12_tokenize_printed : forall ps t tr,
  parse t = Some tr -> all_nodes (node_ok ps) tr ->
  tokenize (str_tree ps t) = map (node_tok ps) t.
Proof. exact tokenize_str. Qed.
Print Assumptions C12_tokenize_printed.

(* from_string(str(t), pset) succeeds and yields a tree that prints identically, has the same node count and
   arities, denotes the same function and compiles to the same code *)
Theorem C12_read_print : forall sub ps t tr,
  (forall a, sub a a = true) -> (forall a b c, sub a b = true -> sub b c = true -> sub a c = true) ->
  parse t = Some tr -> all_nodes (node_ok ps) tr -> all_nodes (resolvable sub ps) tr -> typed sub tr ->
  exists t',
    read sub (ps_mapping ps) (str_tree ps t) = Some t' /\
    str_tree ps t' = str_tree ps t /\
    List.length t' = List.length t /\
    map node_arity t' = map node_arity t /\
    (forall V (cval : cst -> option V) ctx actuals,
        eval_prefix cval ctx actuals t' = eval_prefix cval ctx actuals t) /\
    (forall V (cval : cst -> option V) ctx, compile cval ps ctx t' = compile cval ps ctx t).
Proof. exact read_print. Qed.
Print Assumptions C12_read_print.

(* the code string compile hands to eval is the call expression with the shape of the tree *)
Theorem C12_code_is_expr : forall ps t tr,
  parse t = Some tr -> all_nodes (node_ok ps) tr -> parse_expr (str_tree ps t) = Some (expr_of ps tr).
Proof. exact code_is_expr. Qed.
Print Assumptions C12_code_is_expr.

(* gp.compile(t, pset)( *actuals ) — or the value itself for a set without arguments — is the direct
   evaluation of the prefix tree: primitives are the context's functions, argument terminal j is the j-th
   actual argument whatever it is currently called, named terminals are context values, constants and
   ephemeral values are themselves.  A wrong number of arguments is an error on both sides. *)
Theorem C12_compile_sem : forall V (cval : cst -> option V) ps ctx t tr actuals,
  parse t = Some tr -> pset_ok ps -> all_nodes (node_ok ps) tr ->
  all_nodes (name_fresh (ps_arguments ps)) tr ->
  run_compiled cval (compile cval ps ctx t) actuals =
  if Nat.eqb (List.length (ps_arguments ps)) (List.length actuals)
  then eval_prefix cval ctx actuals t else None.
Proof. intros V cval. exact (compile_sem_list cval). Qed.
Print Assumptions C12_compile_sem.

(* compileADF([main; adf1; ...], psets): the result is the main tree evaluated directly, a call of adf_i
   evaluating adf_i's own prefix tree on the argument values, adf_i seeing exactly the ADFs after it.
   zero_ok: an ADF (not the main tree) without argument is evaluated when compiled, so it must not raise. *)
Theorem C12_compile_adf_sem : forall V (cval : cst -> option V) defs actuals,
  Forall (def_ok) defs -> zero_ok cval (tl defs) ->
  run_compiled cval (compile_adf cval defs) actuals = adf_sem cval defs actuals.
Proof. intros V cval. exact (compile_adf_sem cval). Qed.
Print Assumptions C12_compile_adf_sem.

(* renameArguments with fresh, pairwise distinct new names: the call succeeds; pset.arguments is renamed
   pointwise; every argument Terminal's value is its new name; the argument terminals are registered under
   their new names; every other entry of pset.mapping is untouched *)
Theorem C12_rename_fresh : forall kargs ps0,
  NoDup (ps_arguments ps0) -> NoDup (map snd kargs) ->
  (forall n, In n (map snd kargs) -> ~ In n (ps_arguments ps0)) ->
  ps_argvalue ps0 = ps_arguments ps0 -> arg_entries ps0 ->
  exists ps', rename kargs ps0 = Some ps' /\
    ps_arguments ps' = map (new_name kargs) (ps_arguments ps0) /\
    ps_argvalue ps' = ps_arguments ps' /\
    NoDup (ps_arguments ps') /\
    arg_entries ps' /\
    (forall k, ~ In k (ps_arguments ps0) -> ~ In k (map snd kargs) ->
               dget k (ps_mapping ps') = dget k (ps_mapping ps0)).
Proof. exact rename_fresh. Qed.
Print Assumptions C12_rename_fresh.

(* "(possibly renamed) arguments": after such a renaming the same tree object compiles to the same function
   of the actual arguments (argument terminal j still denotes the j-th actual argument) *)
Theorem C12_rename_same_function : forall V (cval : cst -> option V) kargs ps0 ps' ctx t tr actuals,
  parse t = Some tr -> pset_ok ps0 -> arg_entries ps0 ->
  all_nodes (node_ok ps0) tr -> all_nodes (name_fresh (ps_arguments ps0)) tr ->
  NoDup (map snd kargs) -> (forall n, In n (map snd kargs) -> ~ In n (ps_arguments ps0)) ->
  (forall n, In n (map snd kargs) -> is_ident n = true /\ all_nodes (avoids n) tr) ->
  rename kargs ps0 = Some ps' ->
  pset_ok ps' /\
  run_compiled cval (compile cval ps' ctx t) actuals = run_compiled cval (compile cval ps0 ctx t) actuals.
Proof. intros V cval. exact (rename_same_function cval). Qed.
Print Assumptions C12_rename_same_function.

(* outside the freshness hypothesis the code does misbehave (recorded, not part of the claim): swapping the
   names of two arguments leaves both pset.arguments entries swapped but only one terminal reachable, so
   ARG0 now denotes the *second* actual argument *)
Example C12_rename_collision :
  let ps := mkpset ["ARG0"; "ARG1"] ["ARG0"; "ARG1"] [("ARG0", NArg 0 0); ("ARG1", NArg 1 0)] in
  rename [("ARG0", "ARG1"); ("ARG1", "ARG0")] ps =
  Some (mkpset ["ARG1"; "ARG0"] ["ARG0"; "ARG1"] [("ARG0", NArg 0 0)]).
Proof. reflexivity. Qed.

(* PrimitiveSetTyped.__init__ establishes the consistency hypotheses used above (pset_ok, arg_entries) for
   every identifier prefix and every number of arguments; registering an object (addPrimitive, addADF,
   addTerminal, addEphemeralConstant) makes it the entry of its key, leaves the other keys alone, and keeps
   the consistency as long as the key is not an argument name *)
Theorem C12_init_ok : forall prefix tys,
  is_ident prefix = true ->
  let ps := pset_init prefix tys in
  pset_ok ps /\ arg_entries ps /\ ps_arguments ps = map (arg_name prefix) (seq 0 (List.length tys)).
Proof. exact init_ok. Qed.
Print Assumptions C12_init_ok.

Theorem C12_add_registers : forall o ps names ps' names',
  pset_add o (ps, names) = Some (ps', names') ->
  dget (bop_key o) (ps_mapping ps') = Some (bop_node o) /\
  (forall k, k <> bop_key o -> dget k (ps_mapping ps') = dget k (ps_mapping ps)) /\
  ps_arguments ps' = ps_arguments ps /\ ps_argvalue ps' = ps_argvalue ps.
Proof. exact add_registers. Qed.
Print Assumptions C12_add_registers.

Theorem C12_add_keeps_ok : forall o ps names ps' names',
  pset_add o (ps, names) = Some (ps', names') -> ~ In (bop_key o) (ps_arguments ps) ->
  pset_ok ps -> arg_entries ps -> pset_ok ps' /\ arg_entries ps'.
Proof. exact add_keeps_ok. Qed.
Print Assumptions C12_add_keeps_ok.

(* a whole construction history: an object registered under a key that no later registration reuses is the
   entry of its key at the end (the hypothesis "resolvable" for primitives and for terminals registered
   under their printed form), and the set stays consistent when no key is an argument name *)
Theorem C12_build_lookup : forall ops st st' o,
  pset_build ops st = Some st' -> NoDup (map bop_key ops) -> In o ops ->
  dget (bop_key o) (ps_mapping (fst st')) = Some (bop_node o).
Proof. exact build_lookup. Qed.
Print Assumptions C12_build_lookup.

Theorem C12_build_keeps_ok : forall ops st st',
  pset_build ops st = Some st' ->
  (forall k, In k (map bop_key ops) -> ~ In k (ps_arguments (fst st))) ->
  pset_ok (fst st) -> arg_entries (fst st) -> pset_ok (fst st') /\ arg_entries (fst st').
Proof. exact build_keeps_ok. Qed.
Print Assumptions C12_build_keeps_ok.

(* integer (also negative) and boolean constants always meet the printing hypothesis *)
Theorem C12_int_bool_constants_ok : forall ps r,
  (forall z, node_ok ps (NConst (CInt z) r)) /\ (forall b, node_ok ps (NConst (CBool b) r)).
Proof. intros ps r. split; intro; [apply const_int_ok|apply const_bool_ok]. Qed.
Print Assumptions C12_int_bool_constants_ok.

(* non-vacuity: a set with a renamed argument, a named terminal, a negative constant, an arity-0 primitive;
   the tree  add(neg(x), add(-3, k()))  meets every hypothesis above *)
Definition ex_ps : pset :=
  mkpset ["x"; "ARG1"] ["x"; "ARG1"]
    [("add", NPrim "add" [0; 0] 0); ("neg", NPrim "neg" [0] 0); ("k", NPrim "k" [] 0);
     ("x", NArg 0 0); ("ARG1", NArg 1 0); ("five", NSym "five" 0)].
Definition ex_tree : tree :=
  T (NPrim "add" [0; 0] 0)
    [T (NPrim "neg" [0] 0) [T (NArg 0 0) []];
     T (NPrim "add" [0; 0] 0) [T (NConst (CInt (-3)) 0) []; T (NPrim "k" [] 0) []]].

Example C12_nonvacuous :
  parse (flatten ex_tree) = Some ex_tree /\
  all_nodes (node_ok ex_ps) ex_tree /\
  all_nodes (resolvable (fun _ _ => true) ex_ps) ex_tree /\
  typed (fun _ _ => true) ex_tree /\
  pset_ok ex_ps /\
  all_nodes (name_fresh (ps_arguments ex_ps)) ex_tree /\
  str_tree ex_ps (flatten ex_tree) = "add(neg(x), add(-3, k()))".
Proof.
  split; [reflexivity|]. split.
  { unfold all_nodes. cbn [ex_tree flatten flat_map app].
    repeat (apply Forall_cons; [first [reflexivity | split; reflexivity]|]). apply Forall_nil. }
  split.
  { unfold all_nodes. cbn [ex_tree flatten flat_map app].
    apply Forall_cons; [reflexivity|]. apply Forall_cons; [reflexivity|].
    apply Forall_cons; [left; exists (NArg 0 0); repeat split|].
    apply Forall_cons; [reflexivity|].
    apply Forall_cons; [right; split; [reflexivity|]; exists (CInt (-3)), 0; repeat split|].
    apply Forall_cons; [reflexivity|]. apply Forall_nil. }
  split.
  { unfold ex_tree.
    repeat (first [apply Forall_nil
                  | apply Forall_cons
                  | apply ty_node; [intros ? ? ? E; inversion E; subst; repeat constructor|]]). }
  split; [repeat split|]. split; [|reflexivity].
  unfold all_nodes. cbn [ex_tree flatten flat_map app].
  repeat (apply Forall_cons; [cbn; first [lia | intuition discriminate | exact I]|]). apply Forall_nil.
Qed.
