(* Property C04, tie (T) -- theorems only, on the definitions REGENERATED from the current text of
   deap/tools/emo.py (coq/Gen/C04_gen.v, harness/c04_py2coq.py).  Compiled on every run after regeneration.
   A function the translator refused is the hand model itself in Gen/C04_gen.v (its `is_model` theorem is then
   trivial and the harness reports `tie: correspondence-only` for it). *)
From Coq Require Import List ZArith Bool Permutation.
From DV Require Import Base.PyTuple Base.PyList Model.C04_NDSort Model.C04_LogSort Model.C04_GenRt
  Proofs.C04_NDSort Proofs.C04_NDLoop Proofs.C04_Spec Proofs.C04_LogWrap Proofs.C04_LogRank
  Proofs.C04_LogSweep Proofs.C04_LogBase Proofs.C04_LogTop Proofs.C04_LogFuel Proofs.C04_LogFinal
  Gen.C04_gen Proofs.C04_gen_equiv Proofs.C04_gen_props.
Import ListNotations.
Local Open Scope Z_scope.

(* isDominated, regenerated = the model's loop, for all arguments *)
Theorem C04_gen_isDominated_is_model : forall w1 w2, gen_isDominated w1 w2 = is_dominated w1 w2.
Proof. exact gen_isDominated_eq. Qed.
Print Assumptions C04_gen_isDominated_is_model.

(* regenerated isDominated(a, b) is Pareto dominance of b over a (the relation of the specification) *)
Theorem C04_gen_isDominated_dominates : forall a b, gen_isDominated a b = nd_dom b a.
Proof. exact gen_isDominated_dominates. Qed.
Print Assumptions C04_gen_isDominated_dominates.

(* median (doubled value), regenerated = model, for every sequence of tuples and every itemgetter key *)
Theorem C04_gen_median_is_model : forall seq obj, gen_median seq (fun f => item f obj) = median2 (map (fun f => item f obj) seq).
Proof. exact gen_median_item. Qed.
Print Assumptions C04_gen_median_is_model.

(* splitA *)
Theorem C04_gen_splitA_is_model : forall fs obj, gen_splitA fs obj = splitA fs obj.
Proof. exact gen_splitA_eq. Qed.
Print Assumptions C04_gen_splitA_is_model.

(* splitB *)
Theorem C04_gen_splitB_is_model : forall best worst obj, gen_splitB best worst obj = splitB best worst obj.
Proof. exact gen_splitB_eq. Qed.
Print Assumptions C04_gen_splitB_is_model.

(* sweepA *)
Theorem C04_gen_sweepA_is_model : forall fs front, gen_sweepA fs front = sweepA fs front.
Proof. exact gen_sweepA_eq. Qed.
Print Assumptions C04_gen_sweepA_is_model.

(* sweepB: never out of fuel (the bound on the while loop suffices), and the model's result, when the tuples of `best`
   are not empty *)
Theorem C04_gen_sweepB_is_model : forall best worst front, Forall (fun f => f <> []) best ->
  gen_sweepB best worst front = Some (sweepB best worst front).
Proof. exact gen_sweepB_eq. Qed.
Print Assumptions C04_gen_sweepB_is_model.

(* sortNDHelperB (same fuel); fitness tuples are not empty (sweepB tests the truth value of a tuple) *)
Theorem C04_gen_sortNDHelperB_is_model : forall fuel best worst obj front, Forall (fun f => f <> []) best ->
  gen_sortNDHelperB fuel best worst obj front = helperB fuel best worst obj front.
Proof. exact gen_sortNDHelperB_eq. Qed.
Print Assumptions C04_gen_sortNDHelperB_is_model.

(* sortNDHelperA (same fuel) *)
Theorem C04_gen_sortNDHelperA_is_model : forall fuel fs obj front, Forall (fun f => f <> []) fs ->
  gen_sortNDHelperA fuel fs obj front = helperA fuel fs obj front.
Proof. exact gen_sortNDHelperA_eq. Qed.
Print Assumptions C04_gen_sortNDHelperA_is_model.

(* sortLogNondominated itself, regenerated = the model, for every non-empty population (individuals[0] raises on the empty one)
   of individuals with at least one objective *)
Theorem C04_gen_sort_log_is_model : forall pop k ffo, pop <> [] -> (forall x, In x pop -> iw x <> []) ->
  gen_sortLogNondominated pop k ffo = sort_log pop k ffo.
Proof. exact gen_sortLogNondominated_eq. Qed.
Print Assumptions C04_gen_sort_log_is_model.

(* C04_sweepA_correct on the regenerated sweepA *)
Theorem C04_gen_sweepA_correct : forall fs front,
  ordered2 fs -> (forall f, In f fs -> (2 <= length f)%nat) -> (forall f, In f fs -> In f (kkeys front)) ->
  A_postR (dom_pref 1) fs front (gen_sweepA fs front).
Proof. exact gen_sweepA_correct. Qed.
Print Assumptions C04_gen_sweepA_correct.

(* C04_sweepB_correct on the regenerated sweepB *)
Theorem C04_gen_sweepB_correct : forall best worst front,
  sorted2 best -> sorted2 worst -> NoDup worst ->
  (forall l, In l best -> (2 <= length l)%nat) -> (forall h, In h worst -> (2 <= length h)%nat) ->
  (forall l, In l best -> ~ In l worst) -> (forall h, In h worst -> In h (kkeys front)) ->
  exists front', gen_sweepB best worst front = Some front' /\ B_postR (ge_pref 1) best worst front front'.
Proof. exact gen_sweepB_correct. Qed.
Print Assumptions C04_gen_sweepB_correct.

(* C04_helperA_correct on the regenerated sortNDHelperA *)
Theorem C04_gen_helperA_correct : forall Mlen fuel m S fr fr',
  (1 <= m)%nat -> (Datatypes.S m <= Mlen)%nat -> Apre Mlen m S fr ->
  gen_sortNDHelperA fuel S (Z.of_nat m) fr = Some fr' -> A_postR (dom_pref m) S fr fr'.
Proof. exact gen_helperA_correct. Qed.
Print Assumptions C04_gen_helperA_correct.

(* C04_helperB_correct on the regenerated sortNDHelperB *)
Theorem C04_gen_helperB_correct : forall Mlen fuel m L H fr fr',
  (1 <= m)%nat -> (S m <= Mlen)%nat -> Bpre Mlen L H fr ->
  gen_sortNDHelperB fuel L H (Z.of_nat m) fr = Some fr' -> B_postR (ge_pref m) L H fr fr'.
Proof. exact gen_helperB_correct. Qed.
Print Assumptions C04_gen_helperB_correct.

(* C04_sort_log_correct on the regenerated sortLogNondominated: exact dominance-depth ranking, every k, both flags *)
Theorem C04_gen_sort_log_correct : forall pop k ffo,
  NoDup (map uid pop) -> same_len (map iw pop) -> pop <> [] ->
  (forall x, In x pop -> (2 <= length (iw x))%nat) ->
  exists r, gen_sortLogNondominated pop k ffo = Some r /\ Forall2 (@Permutation ind) (log_fronts r) (spec_sort pop k ffo).
Proof. exact gen_sort_log_correct. Qed.
Print Assumptions C04_gen_sort_log_correct.

(* both procedures agree *)
Theorem C04_gen_sorts_agree : forall pop k ffo,
  NoDup (map uid pop) -> same_len (map iw pop) -> pop <> [] ->
  (forall x, In x pop -> (2 <= length (iw x))%nat) ->
  exists fs r, sort_nd pop k ffo = Some fs /\ gen_sortLogNondominated pop k ffo = Some r /\
               Forall2 (@Permutation ind) (log_fronts r) fs.
Proof. exact gen_sorts_agree. Qed.
Print Assumptions C04_gen_sorts_agree.

(* first front only = the non-dominated set *)
Theorem C04_gen_sort_log_first_front_only : forall pop k,
  NoDup (map uid pop) -> same_len (map iw pop) -> pop <> [] ->
  (forall x, In x pop -> (2 <= length (iw x))%nat) -> k <> 0 ->
  exists F, gen_sortLogNondominated pop k true = Some (LFlat F) /\ NoDup (map uid F) /\
            forall x, In x F <-> In x pop /\ forall y, In y pop -> idom y x = false.
Proof. exact gen_log_first_front_only. Qed.
Print Assumptions C04_gen_sort_log_first_front_only.

(* exactly the leading fronts needed to reach k *)
Theorem C04_gen_sort_log_leading_fronts : forall pop k,
  NoDup (map uid pop) -> same_len (map iw pop) -> pop <> [] ->
  (forall x, In x pop -> (2 <= length (iw x))%nat) -> k <> 0 ->
  exists fs j, gen_sortLogNondominated pop k false = Some (LFronts fs) /\
    (j < length (spec_fronts pop))%nat /\
    Forall2 (@Permutation ind) fs (firstn (S j) (spec_fronts pop)) /\
    (forall j', (0 < j' <= j)%nat -> ztotal (firstn j' (spec_fronts pop)) < Z.min (zlen pop) k) /\
    Z.min (zlen pop) k <= ztotal fs.
Proof. exact gen_log_leading_fronts. Qed.
Print Assumptions C04_gen_sort_log_leading_fronts.

