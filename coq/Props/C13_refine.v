(* Property C13 — refinement theorems only: the executable list model that the correspondence
   evaluates against /repo (Model/C13_CMAexec.v, here at an arbitrary real closed field R) computes,
   through the abstraction list -> row vector / list of rows -> matrix, exactly the algebraic model
   (Model/C13_CMAalg.v) of Props/C13.v.  E = executable model, A = algebraic model, S = published
   equations.  Proofs in Proofs/C13_CMArefine.v. *)
From mathcomp Require Import all_ssreflect fingroup perm all_algebra.
From DV Require Import Proofs.C13_CMArefine Proofs.C13_CMAsort.
Set Implicit Arguments.
Unset Strict Implicit.
Unset Printing Implicit Defensive.
Import GRing.Theory Num.Theory.
Local Open Scope ring_scope.

(* Strategy.update of the executable model, population sort included *)
Theorem C13_exec_update_refines :
  forall (R : rcfType) (exp ln : R -> R) (n mu : nat)
         (eighL : seq (seq R) -> seq R * seq (seq R)) (eighA : 'M_n -> 'rV_n * 'M_n)
         (P : E.params) (st : E.state) (pop : seq (seq R * seq R)),
    (forall C : seq (seq R), mshape n n C ->
       [/\ size (eighL C).1 = n, mshape n n (eighL C).2
         & eighA (mxL n n C) = (rvL n (eighL C).1, mxL n n (eighL C).2)]) ->
    wfP n mu P -> wfS n st ->
    let spop := List.map snd (E.sort_pop (RNum exp ln) pop) in
    (mu <= size spop)%N -> all (fun x : seq R => size x == n) spop ->
    let st' := E.update (RNum exp ln) eighL P st pop in
    wfS n st' /\
    absS n st' = A.update_sorted exp eighA (@argsortA_of R exp ln n) (absP mu P) (absS n st)
                                 (mxL mu n (take mu spop)).
Proof. exact: exec_update_refines. Qed.
Print Assumptions C13_exec_update_refines.

(* with the eigh oracle exactly as the correspondence supplies it (the recorded numpy value) *)
Theorem C13_exec_update_refines_recorded :
  forall (R : rcfType) (exp ln : R -> R) (n mu : nat) (e : seq R * seq (seq R))
         (P : E.params) (st : E.state) (pop : seq (seq R * seq R)),
    size e.1 = n -> mshape n n e.2 -> wfP n mu P -> wfS n st ->
    let spop := List.map snd (E.sort_pop (RNum exp ln) pop) in
    (mu <= size spop)%N -> all (fun x : seq R => size x == n) spop ->
    let st' := E.update (RNum exp ln) (fun=> e) P st pop in
    wfS n st' /\
    absS n st' = A.update_sorted exp (fun=> (rvL n e.1, mxL n n e.2)) (@argsortA_of R exp ln n)
                                 (absP mu P) (absS n st) (mxL mu n (take mu spop)).
Proof. exact: exec_update_refines_recorded. Qed.
Print Assumptions C13_exec_update_refines_recorded.

(* hence the executable update produces the published quantities (Hansen's equations) *)
Theorem C13_exec_update_is_published :
  forall (R : rcfType) (exp ln : R -> R) (n mu : nat)
         (eighL : seq (seq R) -> seq R * seq (seq R)) (eighA : 'M_n -> 'rV_n * 'M_n)
         (P : E.params) (st : E.state) (pop : seq (seq R * seq R)),
    (forall C : seq (seq R), mshape n n C ->
       [/\ size (eighL C).1 = n, mshape n n (eighL C).2
         & eighA (mxL n n C) = (rvL n (eighL C).1, mxL n n (eighL C).2)]) ->
    wfP n mu P -> wfS n st ->
    let spop := List.map snd (E.sort_pop (RNum exp ln) pop) in
    (mu <= size spop)%N -> all (fun x : seq R => size x == n) spop ->
    E.s_sigma st != 0 -> \sum_(i < mu) (rvL mu (E.p_weights P)) 0 i = 1 ->
    let st' := E.update (RNum exp ln) eighL P st pop in
    (rvL n (E.s_centroid st'), rvL n (E.s_ps st'), rvL n (E.s_pc st'), mxL n n (E.s_C st'), E.s_sigma st')
    = S.cma_update exp (absP mu P) (absS n st) (mxL mu n (take mu spop)).
Proof. exact: exec_update_is_published. Qed.
Print Assumptions C13_exec_update_is_published.

Theorem C13_exec_generate_refines :
  forall (R : rcfType) (exp ln : R -> R) (n lam : nat) (P : E.params) (st : E.state)
         (arz : seq (seq R)),
    E.p_dim P = n -> wfS n st -> mshape lam n arz ->
    let g := E.generate (RNum exp ln) P st id arz in
    mshape lam n g /\ mxL lam n g = A.generate (absS n st) (mxL lam n arz).
Proof. exact: exec_generate_refines. Qed.
Print Assumptions C13_exec_generate_refines.

Theorem C13_exec_compute_params_refines :
  forall (R : rcfType) (exp ln : R -> R) (n dim lambda_ : nat) (chiN : R) (k : E.kargs),
    dim = n ->
    let mu := E.getd (E.k_mu k) (Nat.div lambda_ 2) in
    let P := E.compute_params (RNum exp ln) dim lambda_ chiN k in
    wfP n mu P /\ absP mu P = A.compute_params n mu ln chiN (absK k).
Proof. exact: exec_compute_params_refines. Qed.
Print Assumptions C13_exec_compute_params_refines.

Theorem C13_exec_init_refines :
  forall (R : rcfType) (exp ln : R -> R) (n : nat)
         (eighL : seq (seq R) -> seq R * seq (seq R)) (eighA : 'M_n -> 'rV_n * 'M_n)
         (default_lambda : nat -> nat) (centroid : seq R) (sigma : R) (k : E.kargs),
    (forall C : seq (seq R), mshape n n C ->
       [/\ size (eighL C).1 = n, mshape n n (eighL C).2
         & eighA (mxL n n C) = (rvL n (eighL C).1, mxL n n (eighL C).2)]) ->
    size centroid = n ->
    (if E.k_cmatrix k is Some C0 then mshape n n C0 else true) ->
    let lambda_ := E.getd (E.k_lambda k) (default_lambda n) in
    let mu := E.getd (E.k_mu k) (Nat.div lambda_ 2) in
    let Pst := E.init (RNum exp ln) eighL default_lambda centroid sigma k in
    let cmA := if E.k_cmatrix k is Some C0 then Some (mxL n n C0) else None in
    [/\ wfP n mu Pst.1, wfS n Pst.2
      & (absP mu Pst.1, absS n Pst.2)
        = A.init mu ln eighA (@argsortA_of R exp ln n) (rvL n centroid) sigma cmA (absK k)].
Proof. exact: exec_init_refines. Qed.
Print Assumptions C13_exec_init_refines.

(* the insertion sort of the executable model is mathcomp's sort, for every total transitive order *)
Theorem C13_sort_desc_is_sort :
  forall (T : eqType) (leT : rel T), total leT -> transitive leT ->
  forall s : seq T, E.sort_desc (fun x y => ~~ leT x y) s = sort leT s.
Proof. exact: sort_descE. Qed.
Print Assumptions C13_sort_desc_is_sort.

(* END TO END: Strategy.update of the executable model on an unsorted evaluated population (fitness
   tuples compared as CPython compares tuples) is the update of the algebraic model on the abstracted
   population (keys in the lexicographic order on R-tuples) *)
Theorem C13_exec_update_refines_alg :
  forall (R : rcfType) (exp ln : R -> R) (n mu : nat)
         (eighL : seq (seq R) -> seq R * seq (seq R)) (eighA : 'M_n -> 'rV_n * 'M_n)
         (P : E.params) (st : E.state) (pop : seq (seq R * seq R)),
    (forall C : seq (seq R), mshape n n C ->
       [/\ size (eighL C).1 = n, mshape n n (eighL C).2
         & eighA (mxL n n C) = (rvL n (eighL C).1, mxL n n (eighL C).2)]) ->
    wfP n mu P -> wfS n st ->
    (mu <= size pop)%N -> all (fun p : seq R * seq R => size p.2 == n) pop ->
    let st' := E.update (RNum exp ln) eighL P st pop in
    wfS n st' /\
    absS n st' = A.update exp eighA (@argsortA_of R exp ln n) (absP mu P) (absS n st) (absPop n pop).
Proof. exact: exec_update_refines_alg. Qed.
Print Assumptions C13_exec_update_refines_alg.

(* transfer (example of use): one update of the EXECUTABLE model keeps the strategy consistent *)
Theorem C13_exec_update_consistent :
  forall (R : rcfType) (exp ln : R -> R) (n mu : nat)
         (eighL : seq (seq R) -> seq R * seq (seq R)) (eighA : 'M_n -> 'rV_n * 'M_n)
         (P : E.params) (st : E.state) (pop : seq (seq R * seq R)),
    (forall C : seq (seq R), mshape n n C ->
       [/\ size (eighL C).1 = n, mshape n n (eighL C).2
         & eighA (mxL n n C) = (rvL n (eighL C).1, mxL n n (eighL C).2)]) ->
    wfP n mu P -> wfS n st ->
    (mu <= size pop)%N -> all (fun p : seq R * seq R => size p.2 == n) pop ->
    (forall x, 0 < exp x) -> AP.rates_ok (absP mu P) ->
    A.p_ccov1 (absP mu P) + A.p_ccovmu (absP mu P) <= 1 ->
    AP.psd (A.s_C (absS n st)) -> AP.consistent (absS n st) ->
    (forall C : 'M[R]_n, C^T = C -> AP.psd C -> AP.eigh_ok eighA C) ->
    let st' := E.update (RNum exp ln) eighL P st pop in
    AP.consistent (absS n st') /\ AP.psd (A.s_C (absS n st')).
Proof. exact: exec_update_consistent. Qed.
Print Assumptions C13_exec_update_consistent.
