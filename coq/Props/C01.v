(* Property C01 — theorems only.  Model: Model/C01_Fitness.v (deap/base.py). *)
From Coq Require Import List ZArith Bool.
From DV Require Import Base.PyTuple Base.PyList Model.C01_Fitness Proofs.C01_Fitness.
Import ListNotations.
Local Open Scope Z_scope.

(* the six operators are exactly the lexicographic comparison of the weighted values *)
Theorem C01_cmp_is_lex : forall a b : fit,
  (f_lt a b = true <-> lex_lt (wv a) (wv b)) /\
  (f_le a b = true <-> (lex_lt (wv a) (wv b) \/ wv a = wv b)) /\
  (f_eq a b = true <-> wv a = wv b) /\
  (f_ne a b = true <-> wv a <> wv b) /\
  (f_gt a b = true <-> lex_lt (wv b) (wv a)) /\
  (f_ge a b = true <-> (lex_lt (wv b) (wv a) \/ wv a = wv b)).
Proof. exact cmp_is_lex. Qed.
Print Assumptions C01_cmp_is_lex.

Theorem C01_cmp_consistent : forall a b : fit,
  (f_lt a b = true /\ f_eq a b = false /\ f_gt a b = false) \/
  (f_lt a b = false /\ f_eq a b = true /\ f_gt a b = false) \/
  (f_lt a b = false /\ f_eq a b = false /\ f_gt a b = true).
Proof. exact cmp_consistent. Qed.
Print Assumptions C01_cmp_consistent.

(* weighted values are value * weight, objective by objective *)
Theorem C01_wv_is_weighted : forall w f v f',
  set_values w f v = Some f' ->
  length (wv f') = length w /\
  forall i, (i < length w)%nat -> nth i (wv f') 0 = nth i v 0 * nth i w 0.
Proof. exact wv_is_weighted. Qed.
Print Assumptions C01_wv_is_weighted.

(* dominance: no worse everywhere on the slice and strictly better somewhere *)
Theorem C01_dominates_iff : forall a b obj,
  let ps := zip (apply_slice (wv a) obj) (apply_slice (wv b) obj) in
  dominates a b obj = true <->
  (Forall (fun p => fst p >= snd p) ps /\ Exists (fun p => fst p > snd p) ps).
Proof. exact dominates_iff. Qed.
Print Assumptions C01_dominates_iff.

(* values read back unchanged (any non-zero weights, in particular +1/-1) *)
Theorem C01_values_roundtrip : forall w f v f',
  Forall (fun x => x <> 0) w -> set_values w f v = Some f' -> get_values w f' = v.
Proof. exact values_roundtrip. Qed.
Print Assumptions C01_values_roundtrip.

(* valid exactly while values are assigned and not deleted: any history *)
Theorem C01_valid_after_set : forall w f ops v,
  length v = length w -> w <> [] -> valid (run_ops w f (ops ++ [OSet v])) = true.
Proof. exact valid_after_set. Qed.
Print Assumptions C01_valid_after_set.

Theorem C01_invalid_after_del : forall w f ops, valid (run_ops w f (ops ++ [ODel])) = false.
Proof. exact invalid_after_del. Qed.
Print Assumptions C01_invalid_after_del.

(* a clone compares equal to its original *)
Theorem C01_clone_eq : forall f,
  f_eq f (deepcopy f) = true /\ valid (deepcopy f) = valid f /\ wv (deepcopy f) = wv f.
Proof. exact clone_eq. Qed.
Print Assumptions C01_clone_eq.

Theorem C01_constrained_clone_eq : forall f,
  c_eq f (c_deepcopy f) = true /\ valid (c_deepcopy f) = valid f /\
  violates (c_deepcopy f) = violates f.
Proof. exact c_clone_eq. Qed.
Print Assumptions C01_constrained_clone_eq.

(* a violating fitness is never better than, equal to, or dominating a non-violating one *)
Theorem C01_constrained_never_better : forall a b,
  violates a = true -> violates b = false ->
  c_gt a b = false /\ c_ge a b = false /\ c_eq a b = false /\ c_ne a b = true /\
  c_dominates a b = false /\ c_lt a b = true /\ c_le a b = true /\ c_dominates b a = true.
Proof. exact constrained_never_better. Qed.
Print Assumptions C01_constrained_never_better.

Theorem C01_constrained_feasible_is_plain : forall a b,
  violates a = false -> violates b = false ->
  c_lt a b = f_lt a b /\ c_le a b = f_le a b /\ c_eq a b = f_eq a b /\
  c_gt a b = f_gt a b /\ c_ge a b = f_ge a b /\ c_ne a b = f_ne a b /\
  c_dominates a b = dominates a b slice_all.
Proof. exact constrained_feasible_is_plain. Qed.
Print Assumptions C01_constrained_feasible_is_plain.

(* non-vacuity: concrete states meeting the hypotheses *)
Example C01_nonvacuous :
  violates (mkfit [] (Some [false; true])) = true /\
  violates (mkfit [3; -2] (Some [false])) = false /\
  set_values [1; -1] (mkfit [] None) [5; 7] = Some (mkfit [5; -7] None).
Proof. repeat split. Qed.
