(* Property C08 -- tie (T): the C08 theorems restated on the definitions REGENERATED from the current source text
   of deap/tools/support.py (coq/Gen/C08_gen.v, written by harness/c08_py2coq.py on every run; packaged as
   histories by Model/C08_GenApi.v), plus the equivalence of the regenerated methods with the two hand models.
   gen_hof_run / gen_pf_run / gen_trace : the regenerated methods at the value-level world VW (individuals are
   values, deepcopy = identity);  gen_h_trace : the same regenerated text at the heap-level world HW (objects in a
   store, references, deepcopy = allocation).  Everything is `exact` of a lemma of Proofs/C08_gen_thms.v or
   Proofs/C08_gen_equiv.v. *)
From Coq Require Import List ZArith Bool.
From DV Require Import Base.PyTuple Base.PyList Model.C01_Fitness Model.C08_Archive Model.C08_Heap
  Proofs.C08_Lists Proofs.C08_Refine Proofs.C08_Hof Proofs.C08_Pf Proofs.C08_More Proofs.C08_HeapSim
  Model.C08_GenRt Gen.C08_gen Model.C08_GenApi Proofs.C08_gen_equiv Proofs.C08_gen_thms.
Import ListNotations.
Local Open Scope Z_scope.

(* ---------------------------------------------------------------- regenerated = hand model *)

(* every history of update / insert / remove / clear, either class: the regenerated methods and the hand model
   Model/C08_Archive.v reach the same states (and raise at the same operation) *)
Theorem C08_gen_trace_is_model :
  forall (ind : Type) (fitness : ind -> list Z) (similar : ind -> ind -> bool)
         (kind : option Z) (ops : list (op ind)) (h : hof ind),
  gen_trace ind fitness similar kind h ops = trace ind fitness similar kind h ops.
Proof. exact gen_trace_eq. Qed.
Print Assumptions C08_gen_trace_is_model.

(* method by method, value level *)
Theorem C08_gen_methods_are_model :
  forall (ind : Type) (fitness : ind -> list Z) (similar : ind -> ind -> bool) (h : hof ind),
  (forall x, @gen_insert (VW ind fitness similar) x h = Some (tt, insert ind fitness h x)) /\
  (forall i, @gen_remove (VW ind fitness similar) i h = lift_u (remove ind h i)) /\
  @gen_clear (VW ind fitness similar) h = Some (tt, clear h) /\
  (forall m pop, @gen_hof_update (VW ind fitness similar) m pop h = lift_u (hof_update ind fitness similar m h pop)) /\
  (forall pop, @gen_pf_update (VW ind fitness similar) pop h = lift_u (pf_update ind fitness similar h pop)).
Proof. exact gen_methods_v. Qed.
Print Assumptions C08_gen_methods_are_model.

(* the same regenerated text at the heap-level world is the heap-level hand model Model/C08_Heap.v: in
   particular  item = deepcopy(item)  comes first in insert, the archive's lists receive the COPY and
   self.keys receives the copy's own fitness object *)
Theorem C08_gen_heap_trace_is_model :
  forall (sim : obj -> obj -> bool) (kind : option Z) (hops : list hop) (s : heap * harch),
  gen_h_trace sim kind s hops = h_trace sim kind s hops.
Proof. exact gen_h_trace_eq. Qed.
Print Assumptions C08_gen_heap_trace_is_model.

(* ---------------------------------------------------------------- the C08 theorems on the regenerated definitions *)

Theorem C08_gen_hof_shape :
  forall (ind : Type) (fitness : ind -> list Z) (similar : ind -> ind -> bool)
         (m : Z) (batches : list (list ind)),
  1 <= m ->
  exists h, gen_hof_run ind fitness similar m batches = Some h /\
    keys h = rev (map fitness (items h)) /\
    (forall i j a b, (i < j)%nat -> nth_error (items h) i = Some a -> nth_error (items h) j = Some b ->
                     fit_lt (fitness a) (fitness b) = false) /\
    zlen (items h) <= m /\
    (forall a, In a (items h) -> In a (concat batches)).
Proof. exact gen_hof_shape_thm. Qed.
Print Assumptions C08_gen_hof_shape.

Theorem C08_gen_hof_distinct :
  forall (ind : Type) (fitness : ind -> list Z) (similar : ind -> ind -> bool),
  (forall x y, similar x y = similar y x) ->
  forall (m : Z) (batches : list (list ind)),
  1 <= m ->
  exists h, gen_hof_run ind fitness similar m batches = Some h /\
    forall i j a b, i <> j -> nth_error (items h) i = Some a -> nth_error (items h) j = Some b ->
                    similar a b = false.
Proof. exact gen_hof_distinct_thm. Qed.
Print Assumptions C08_gen_hof_distinct.

Theorem C08_gen_hof_inv :
  forall (ind : Type) (fitness : ind -> list Z) (similar : ind -> ind -> bool),
  (forall x y, similar x y = similar y x) ->
  (forall x, similar x x = true) ->
  forall (m : Z) (batches : list (list ind)),
  1 <= m ->
  (forall a b, In a (concat batches) -> In b (concat batches) -> similar a b = true -> fitness a = fitness b) ->
  exists h, gen_hof_run ind fitness similar m batches = Some h /\
    keys h = rev (map fitness (items h)) /\
    (forall i j a b, (i < j)%nat -> nth_error (items h) i = Some a -> nth_error (items h) j = Some b ->
                     fit_lt (fitness a) (fitness b) = false) /\
    zlen (items h) <= m /\
    (forall i j a b, i <> j -> nth_error (items h) i = Some a -> nth_error (items h) j = Some b ->
                     similar a b = false) /\
    (forall a, In a (items h) -> In a (concat batches)).
Proof. exact gen_hof_inv_thm. Qed.
Print Assumptions C08_gen_hof_inv.

Theorem C08_gen_hof_best_of_seen :
  forall (ind : Type) (fitness : ind -> list Z) (similar : ind -> ind -> bool),
  (forall x y, similar x y = similar y x) ->
  (forall x, similar x x = true) ->
  forall (m : Z) (batches : list (list ind)),
  1 <= m ->
  (forall a b, In a (concat batches) -> In b (concat batches) -> similar a b = true -> fitness a = fitness b) ->
  exists h, gen_hof_run ind fitness similar m batches = Some h /\
    forall s, In s (concat batches) ->
      (exists a, In a (items h) /\ similar s a = true) \/
      (zlen (items h) = m /\
       forall worst, py_get (items h) (-1) = Some worst -> fit_gt (fitness s) (fitness worst) = false).
Proof. exact gen_hof_best_of_seen_thm. Qed.
Print Assumptions C08_gen_hof_best_of_seen.

Theorem C08_gen_hof_all_when_room :
  forall (ind : Type) (fitness : ind -> list Z) (similar : ind -> ind -> bool),
  (forall x y, similar x y = similar y x) ->
  (forall x, similar x x = true) ->
  forall (m : Z) (batches : list (list ind)),
  1 <= m ->
  (forall a b, In a (concat batches) -> In b (concat batches) -> similar a b = true -> fitness a = fitness b) ->
  (forall l, nosim ind similar l -> incl l (concat batches) -> zlen l <= m) ->
  exists h, gen_hof_run ind fitness similar m batches = Some h /\
    forall s, In s (concat batches) -> exists a, In a (items h) /\ similar s a = true.
Proof. exact gen_hof_all_when_room_thm. Qed.
Print Assumptions C08_gen_hof_all_when_room.

Theorem C08_gen_hof_size :
  forall (ind : Type) (fitness : ind -> list Z) (similar : ind -> ind -> bool),
  (forall x y, similar x y = similar y x) ->
  (forall x, similar x x = true) ->
  (forall x y z, similar x y = true -> similar y z = true -> similar x z = true) ->
  forall (m : Z) (batches : list (list ind)),
  1 <= m ->
  (forall a b, In a (concat batches) -> In b (concat batches) -> similar a b = true -> fitness a = fitness b) ->
  exists h, gen_hof_run ind fitness similar m batches = Some h /\
    forall l, nosim ind similar l -> incl l (concat batches) -> zlen l <= zlen (items h) \/ zlen (items h) = m.
Proof. exact gen_hof_size_thm. Qed.
Print Assumptions C08_gen_hof_size.

Theorem C08_gen_pf_inv :
  forall (ind : Type) (fitness : ind -> list Z) (similar : ind -> ind -> bool)
         (batches : list (list ind)) (nobj : nat),
  (forall s, In s (concat batches) -> length (fitness s) = nobj) ->
  exists h, gen_pf_run ind fitness similar batches = Some h /\
    keys h = rev (map fitness (items h)) /\
    (forall i j a b, (i < j)%nat -> nth_error (items h) i = Some a -> nth_error (items h) j = Some b ->
                     fit_lt (fitness a) (fitness b) = false) /\
    (forall a b, In a (items h) -> In b (items h) -> fit_dom (fitness a) (fitness b) = false).
Proof. exact gen_pf_inv_thm. Qed.
Print Assumptions C08_gen_pf_inv.

Theorem C08_gen_pf_exact :
  forall (ind : Type) (fitness : ind -> list Z) (similar : ind -> ind -> bool),
  (forall x, similar x x = true) ->
  (forall x y, similar x y = similar y x) ->
  forall (batches : list (list ind)) (nobj : nat),
  (forall s, In s (concat batches) -> length (fitness s) = nobj) ->
  exists h, gen_pf_run ind fitness similar batches = Some h /\
    (forall a, In a (items h) ->
       In a (concat batches) /\ forall t, In t (concat batches) -> fit_dom (fitness t) (fitness a) = false) /\
    (forall s, In s (concat batches) ->
       (forall t, In t (concat batches) -> fit_dom (fitness t) (fitness s) = false) ->
       exists a, In a (items h) /\ fitness s = fitness a /\ similar s a = true) /\
    (forall i j a b, i <> j -> nth_error (items h) i = Some a -> nth_error (items h) j = Some b ->
       fitness a = fitness b -> similar a b = false).
Proof. exact gen_pf_exact_thm. Qed.
Print Assumptions C08_gen_pf_exact.

Theorem C08_gen_hof_continue :
  forall (ind : Type) (fitness : ind -> list Z) (similar : ind -> ind -> bool),
  (forall x y, similar x y = similar y x) ->
  (forall x, similar x x = true) ->
  forall (m : Z) (S : list ind) (batches : list (list ind)),
  1 <= m -> desc ind fitness S -> zlen S <= m -> nosim ind similar S ->
  (forall a b, In a (S ++ concat batches) -> In b (S ++ concat batches) -> similar a b = true -> fitness a = fitness b) ->
  exists h, gen_hof_run_from ind fitness similar m (mirror ind fitness S) batches = Some h /\
    keys h = rev (map fitness (items h)) /\
    HInv ind fitness similar m (items h) (S ++ concat batches).
Proof. exact gen_hof_continue_thm. Qed.
Print Assumptions C08_gen_hof_continue.

Theorem C08_gen_pf_continue :
  forall (ind : Type) (fitness : ind -> list Z) (similar : ind -> ind -> bool),
  (forall x y, similar x y = similar y x) ->
  (forall x, similar x x = true) ->
  forall (n : nat) (S : list ind) (batches : list (list ind)),
  mutual ind fitness S -> notwin ind fitness similar S -> desc ind fitness S ->
  all_len ind fitness n (S ++ concat batches) ->
  exists h, gen_pf_run_from ind fitness similar (mirror ind fitness S) batches = Some h /\
    keys h = rev (map fitness (items h)) /\
    PInv ind fitness similar (items h) (S ++ concat batches).
Proof. exact gen_pf_continue_thm. Qed.
Print Assumptions C08_gen_pf_continue.

Theorem C08_gen_deepcopy_independent :
  forall (sim : obj -> obj -> bool) (nu : nat) (kind : option Z) (u : heap) (hops : list hop),
  length u = nu -> Forall (hop_ok nu) hops ->
  map (option_map view) (gen_h_trace sim kind (u, mkharch [] []) hops) = vtrace sim kind u empty hops.
Proof. exact gen_heap_simulation_init. Qed.
Print Assumptions C08_gen_deepcopy_independent.

Theorem C08_gen_api_mirror_sorted :
  forall (ind : Type) (fitness : ind -> list Z) (similar : ind -> ind -> bool)
         (kind : option Z) (ops : list (op ind)),
  (match kind with Some m => 1 <= m | None => True end) ->
  Forall (fun o => match o with
                   | Some h => keys h = rev (map fitness (items h)) /\ desc ind fitness (items h)
                   | None => True end)
         (gen_trace ind fitness similar kind empty ops).
Proof. exact gen_api_good. Qed.
Print Assumptions C08_gen_api_mirror_sorted.

Theorem C08_gen_clear_resets :
  forall (ind : Type) (fitness : ind -> list Z) (similar : ind -> ind -> bool)
         (kind : option Z) (us : list (uop ind)),
  (match kind with Some m => 1 <= m | None => True end) ->
  gen_final ind fitness similar kind us =
  match kind with
  | Some m => gen_hof_run ind fitness similar m (after_last_clear ind us [])
  | None => gen_pf_run ind fitness similar (after_last_clear ind us [])
  end.
Proof. exact gen_final_is_run. Qed.
Print Assumptions C08_gen_clear_resets.

Theorem C08_gen_remove_out_of_range :
  forall (ind : Type) (fitness : ind -> list Z) (similar : ind -> ind -> bool) (h : hof ind) (i : Z),
  i < - hlen h \/ hlen h <= i -> run_u (@gen_remove (VW ind fitness similar) i) h = None.
Proof. exact gen_remove_out_of_range. Qed.
Print Assumptions C08_gen_remove_out_of_range.

(* ---------------------------------------------------------------- non-vacuity: the regenerated definitions run *)
Example C08_gen_nonvacuous_hof :
  let A := mkind 0 [0] [1; 5] in let B := mkind 1 [1] [3; 0] in
  let C := mkind 2 [2] [2; 2] in let D := mkind 3 [3] [1; 5] in
  gen_hof_run cind wv (csimilar SimEq) 2 [[A; B]; []; [A; D]; [C]]
  = Some (mkhof [[2; 2]; [3; 0]] [B; C]).
Proof. vm_compute. reflexivity. Qed.

Example C08_gen_nonvacuous_pf :
  let A := mkind 0 [0] [3; 2; 0] in let B := mkind 1 [1] [2; 9; 0] in
  let C := mkind 2 [2] [1; 1; 1] in let D := mkind 3 [3] [4; 3; 1] in
  gen_pf_run cind wv (csimilar SimEq) [[A; B; C]; [D]]
  = Some (mkhof [[2; 9; 0]; [4; 3; 1]] [D; B]).
Proof. vm_compute. reflexivity. Qed.
