(* Property C06 — theorems only.
   Model: Model/C06_Select.v (deap/tools/selection.py, selTournamentDCD of deap/tools/emo.py).

   Reading guide.  An operator is a function of the population, its parameters and the list of
   recorded draws; `= Ok out rest` means it returned the list `out` having consumed the draws
   up to `rest`; a draw log that CPython's `random` cannot produce (wrong kind, index out of range,
   u outside [0,1), not a permutation, repeated sample index) makes the model answer Mismatch, so
   every theorem below quantifies over all draw values in the library-guaranteed ranges.
   Individuals are records (uid, wvalues, len, crowding distance); "the very objects of the
   population" is `In x inds` on these records (uids included); that the population list and the
   individuals are not mutated is a fact about the implementation, checked by the harness on every
   call (the model is functional). *)
From Coq Require Import List Bool Arith ZArith Permutation Sorted QArith Qround.
From DV Require Import Base.PyList Base.C06_Py Model.C06_Select.
From DV Require Import Proofs.C06_Sort Proofs.C06_Basic Proofs.C06_Roulette Proofs.C06_SUS
  Proofs.C06_Lexicase Proofs.C06_DCD Proofs.C06_Safety Proofs.C06_More.
Import ListNotations.

(* ------------------------------------------------------------------ selRandom *)
Theorem C06_selRandom : forall inds k ds out rest,
  selRandom inds k ds = Ok out rest -> length out = k /\ Forall (fun x => In x inds) out.
Proof. exact selRandom_spec. Qed.
Print Assumptions C06_selRandom.

Theorem C06_selRandom_no_raise : forall inds k ds e, inds <> [] -> selRandom inds k ds <> Raise e.
Proof. exact selRandom_no_raise. Qed.
Print Assumptions C06_selRandom_no_raise.

(* ------------------------------------------------------------------ selBest / selWorst *)
(* min(k, n) individuals, in non-increasing fitness order, a sub-multiset of the population, and
   every non-selected individual is <= every selected one *)
Theorem C06_selBest : forall inds k,
  let out := selBest inds k in
  length out = Nat.min k (length inds) /\
  StronglySorted (fun a b => f_le b a = true) out /\
  exists rest, Permutation inds (out ++ rest) /\
               forall x y, In x rest -> In y out -> f_le x y = true.
Proof. exact selBest_spec. Qed.
Print Assumptions C06_selBest.

Theorem C06_selWorst : forall inds k,
  let out := selWorst inds k in
  length out = Nat.min k (length inds) /\
  StronglySorted (fun a b => f_le a b = true) out /\
  exists rest, Permutation inds (out ++ rest) /\
               forall x y, In x rest -> In y out -> f_le y x = true.
Proof. exact selWorst_spec. Qed.
Print Assumptions C06_selWorst.

(* f_le is the lexicographic order of the weighted values (CPython tuple comparison) *)
Theorem C06_fitness_order : forall a b,
  (f_lt a b = true <-> qlex_lt (wv a) (wv b)) /\ f_le a b = negb (f_lt b a) /\
  f_gt a b = f_lt b a /\ (f_le a b = true \/ f_le b a = true).
Proof.
  intros a b. split; [apply qtup_lt_spec|]. split; [apply f_le_lt|]. split; [apply f_gt_lt|apply f_le_total].
Qed.
Print Assumptions C06_fitness_order.

(* ties are broken by input order (stable sort), which determines the result completely *)
Theorem C06_selBest_stable : forall inds a,
  filter (f_eqv a) (py_sorted_rev f_lt inds) = filter (f_eqv a) inds /\
  filter (f_eqv a) (py_sorted f_lt inds) = filter (f_eqv a) inds.
Proof. intros; split; [apply selBest_stable|apply selWorst_stable]. Qed.
Print Assumptions C06_selBest_stable.

(* ------------------------------------------------------------------ selTournament *)
(* k winners; each is an element of the population and a best one (no aspirant is strictly
   better) of tournsize aspirants sampled from the population by the recorded draws *)
Theorem C06_selTournament : forall inds k tournsize ds out rest,
  selTournament inds k tournsize ds = Ok out rest ->
  length out = k /\
  Forall (fun w => In w inds /\
     exists aspirants d d',
       selRandom inds tournsize d = Ok aspirants d' /\
       length aspirants = tournsize /\ Forall (fun a => In a inds) aspirants /\
       In w aspirants /\ forall a, In a aspirants -> f_le a w = true) out.
Proof. exact selTournament_spec. Qed.
Print Assumptions C06_selTournament.

Theorem C06_selTournament_no_raise : forall inds k tournsize ds e,
  inds <> [] -> (1 <= tournsize)%nat -> selTournament inds k tournsize ds <> Raise e.
Proof. exact selTournament_no_raise. Qed.
Print Assumptions C06_selTournament_no_raise.

(* ------------------------------------------------------------------ selDoubleTournament *)
(* size_choice ps i1 i2 u c : of the two candidates i1, i2 (sampling order) the shorter one is kept
   iff u < ps/2; on equal lengths the first one iff u < 1/2.
   size_winner ps P c  : c is the outcome of that rule on two candidates satisfying P, 0 <= u < 1.
   fit_winner fs P w   : w is a best one of fs aspirants satisfying P. *)
Theorem C06_selDoubleTournament : forall inds k fitness_size parsimony_size fitness_first ds out rest,
  selDoubleTournament inds k fitness_size parsimony_size fitness_first ds = Ok out rest ->
  1 <= parsimony_size /\ parsimony_size <= 2 /\ length out = k /\
  (fitness_first = true ->
     Forall (size_winner parsimony_size (fit_winner fitness_size (fun x => In x inds))) out) /\
  (fitness_first = false ->
     Forall (fit_winner fitness_size (size_winner parsimony_size (fun x => In x inds))) out).
Proof. exact selDoubleTournament_spec. Qed.
Print Assumptions C06_selDoubleTournament.

Theorem C06_selDoubleTournament_elements : forall inds k fs ps ff ds out rest,
  selDoubleTournament inds k fs ps ff ds = Ok out rest -> Forall (fun x => In x inds) out.
Proof. exact selDoubleTournament_elements. Qed.
Print Assumptions C06_selDoubleTournament_elements.

Theorem C06_selDoubleTournament_no_raise : forall inds k fs ps ff ds e,
  inds <> [] -> (1 <= fs)%nat -> 1 <= ps -> ps <= 2 -> selDoubleTournament inds k fs ps ff ds <> Raise e.
Proof. exact selDoubleTournament_no_raise. Qed.
Print Assumptions C06_selDoubleTournament_no_raise.

(* ------------------------------------------------------------------ selRoulette *)
(* positive first objectives: exactly k individuals; the draws are k values u in [0,1) and spin u
   returns the individual at the position j of the fitness-sorted population with
   c_j <= u*S < c_{j+1}  (c = cumulative sums, S = total) *)
Theorem C06_selRoulette : forall w inds k ds out rest,
  Forall (fun x => 0 < val0 w x) inds -> inds <> [] ->
  selRoulette w inds k ds = Ok out rest ->
  let s := py_sorted_rev f_lt inds in
  let S := sum_fits w inds in
  0 < S /\ S == tot w s /\ length out = k /\ Forall (fun x => In x inds) out /\
  exists us, ds = map DRandom us ++ rest /\
    Forall2 (fun u x => 0 <= u /\ u < 1 /\
               exists j, nth_error s j = Some x /\
                         cum w s j <= u * S /\ u * S < cum w s (Datatypes.S j)) us out.
Proof. exact selRoulette_spec. Qed.
Print Assumptions C06_selRoulette.

(* "iff", for distinct individuals; the intervals are disjoint, and in units of the unit interval
   the one of position j is [c_j/S, c_{j+1}/S), of length f_j/S *)
Theorem C06_roulette_spin_iff : forall w l t j x,
  Forall (fun x => 0 < val0 w x) l -> NoDup (map uid l) -> 0 <= t ->
  nth_error l j = Some x ->
  (spin w l 0 t = Some x <-> cum w l j <= t /\ t < cum w l (S j)).
Proof. exact spin_iff. Qed.
Print Assumptions C06_roulette_spin_iff.

Theorem C06_roulette_share : forall w l j x u S,
  0 < S -> nth_error l j = Some x ->
  ((cum w l j <= u * S /\ u * S < cum w l (Datatypes.S j)) <->
   (cum w l j / S <= u /\ u < cum w l (Datatypes.S j) / S)) /\
  cum w l (Datatypes.S j) / S - cum w l j / S == val0 w x / S.
Proof. intros. split; [apply share_interval; assumption|apply share_length; assumption]. Qed.
Print Assumptions C06_roulette_share.

Theorem C06_selRoulette_no_raise : forall w inds k ds e,
  Forall (fun x => 0 < val0 w x) inds -> selRoulette w inds k ds <> Raise e.
Proof. exact selRoulette_no_raise. Qed.
Print Assumptions C06_selRoulette_no_raise.

(* ------------------------------------------------------------------ selStochasticUniversalSampling *)
(* k = 0 (after the fix in /repo): the empty list *)
Theorem C06_selSUS_k0 : forall w inds ds,
  forallb (has_val0 w) inds = true -> selSUS w inds 0 ds = Ok [] ds.
Proof. exact selSUS_k0. Qed.
Print Assumptions C06_selSUS_k0.

(* k >= 1, positive first objectives, distinct individuals, start draw u in (0,1): exactly k
   individuals, each x selected floor or ceil of k*f_x/S times.
   (u = 0 is excluded: see DESIGN App. B4 and design_notes/C06.md) *)
Theorem C06_selSUS : forall w inds k u ds out rest,
  Forall (fun x => 0 < val0 w x) inds -> inds <> [] -> NoDup (map uid inds) -> (0 < k)%nat ->
  selSUS w inds k (DRandom u :: ds) = Ok out rest -> 0 < u ->
  let S := sum_fits w inds in
  rest = ds /\ u < 1 /\ 0 < S /\ length out = k /\ Forall (fun x => In x inds) out /\
  forall x, In x inds ->
    let share := inject_Z (Z.of_nat k) * val0 w x / S in
    (Qfloor share <= Z.of_nat (count_uid (uid x) out))%Z /\
    (Z.of_nat (count_uid (uid x) out) <= Qceiling share)%Z.
Proof. exact selSUS_spec. Qed.
Print Assumptions C06_selSUS.

Theorem C06_selSUS_no_raise : forall w inds k ds e,
  Forall (fun x => 0 < val0 w x) inds -> inds <> [] -> selSUS w inds k ds <> Raise e.
Proof. exact selSUS_no_raise. Qed.
Print Assumptions C06_selSUS_no_raise.

(* the boundary that the hypothesis 0 < u excludes: two individuals of fitness 1, k = 2, start draw
   exactly 0: the first individual is selected twice (its share is 1) *)
Example C06_selSUS_start_zero :
  let a := mkind 0 [1] 0 None in let b := mkind 1 [1] 0 None in
  selSUS [1] [a; b] 2 [DRandom 0] = Ok [a; a] [].
Proof. vm_compute. reflexivity. Qed.

(* ------------------------------------------------------------------ lexicase *)
(* case_dominates w m y x : y is at least as good as x on every case < m (max or min according to
   the sign of the weight) and strictly better on one.
   uniform w inds : every individual has one value per weight. *)
Theorem C06_selLexicase_undominated : forall w inds k ds out rest,
  uniform w inds -> selLexicase w inds k ds = Ok out rest ->
  length out = k /\
  Forall (fun win => In win inds /\ forall y, In y inds -> ~ case_dominates w (length w) y win) out.
Proof. exact selLexicase_undominated. Qed.
Print Assumptions C06_selLexicase_undominated.

(* epsilon = 0 is plain lexicase, draw for draw *)
Theorem C06_selEpsilonLexicase_eps0 : forall w inds k eps ds,
  eps == 0 -> selEpsilonLexicase w inds k eps ds = selLexicase w inds k ds.
Proof. exact selEpsilonLexicase_eps0. Qed.
Print Assumptions C06_selEpsilonLexicase_eps0.

(* Full statement for epsilon > 0 ("a lexicase winner is never dominated case-by-case by another
   candidate"):
     forall w inds k eps ds out rest, uniform w inds -> 0 <= eps ->
       selEpsilonLexicase w inds k eps ds = Ok out rest ->
       Forall (fun win => forall y, In y inds -> ~ case_dominates w (length w) y win) out.
   It is false by design of epsilon-lexicase (KNOWN-FINDING C06.eps_lexicase_dominated_within_eps): *)
Theorem C06_eps_lexicase_literal_refuted :
  exists w inds k eps ds out rest win y,
    uniform w inds /\ 0 <= eps /\ selEpsilonLexicase w inds k eps ds = Ok out rest /\
    In win out /\ In y inds /\ case_dominates w (length w) y win.
Proof.
  exists [1], [mkind 0 [1] 0 None; mkind 1 [3 # 4] 0 None], 1%nat, (1 # 2),
         [DShuffle [0%nat]; DChoice 2 1], [mkind 1 [3 # 4] 0 None], [],
         (mkind 1 [3 # 4] 0 None), (mkind 0 [1] 0 None).
  split; [repeat constructor|]. split; [discriminate|]. split; [vm_compute; reflexivity|].
  split; [left; reflexivity|]. split; [left; reflexivity|]. split.
  - intros c Hc. assert (c = 0%nat) by (cbn in Hc; apply Nat.lt_1_r; exact Hc). subst c.
    vm_compute. discriminate.
  - exists 0%nat. split; [cbn; constructor|]. vm_compute. reflexivity.
Qed.
Print Assumptions C06_eps_lexicase_literal_refuted.

(* what does hold for every epsilon >= 0: no candidate that is nowhere worse than the winner is
   better than it by MORE than epsilon on any case (epsilon = 0 gives the literal statement) *)
Theorem C06_eps_lexicase_partial : forall w inds k eps ds out rest,
  uniform w inds -> 0 <= eps -> selEpsilonLexicase w inds k eps ds = Ok out rest ->
  length out = k /\
  Forall (fun win => In win inds /\
            forall y, In y inds -> ~ case_dominates_beyond w (length w) eps y win) out.
Proof. exact selEpsilonLexicase_partial. Qed.
Print Assumptions C06_eps_lexicase_partial.

(* eps_survivor: the winner is alive at every considered case and no candidate alive there beats it
   by more than the tolerance (epsilon, resp. the median absolute deviation of the alive values) *)
Theorem C06_eps_survivor : forall w inds k eps ds out rest,
  uniform w inds -> selEpsilonLexicase w inds k eps ds = Ok out rest ->
  length out = k /\ Forall (survivor_round w (step_eps eps w) (fun _ _ => eps) inds) out.
Proof.
  intros w inds k eps ds out rest U H.
  eapply (lexicase_gen_survivor w (step_eps eps w) (fun _ _ => eps)); eauto.
  - apply step_eps_sub.
  - intros; eapply step_eps_tol; eauto.
Qed.
Print Assumptions C06_eps_survivor.

Theorem C06_auto_eps_survivor : forall w inds k ds out rest,
  uniform w inds -> selAutomaticEpsilonLexicase w inds k ds = Ok out rest ->
  length out = k /\ Forall (survivor_round w (step_auto w) (mad_of w) inds) out.
Proof.
  intros w inds k ds out rest U H.
  eapply (lexicase_gen_survivor w (step_auto w) (mad_of w)); eauto.
  - apply step_auto_sub.
  - apply step_auto_tol.
Qed.
Print Assumptions C06_auto_eps_survivor.

Theorem C06_lexicase_elements : forall step w inds k ds out rest,
  (forall c cands x, In x (step c cands) -> In x cands) ->
  lexicase_gen step w inds k ds = Ok out rest -> length out = k /\ Forall (fun x => In x inds) out.
Proof.
  intros step w inds k ds out rest Hs. unfold lexicase_gen. apply repeatM_Forall. intros d x d' H.
  destruct inds as [|x0 r]; [discriminate|]. bind_inv H as cases d1 H1 H2.
  apply choice_In in H2. eapply lex_filter_sub; eauto.
Qed.
Print Assumptions C06_lexicase_elements.

Theorem C06_lexicase_no_raise : forall w inds k eps ds e, inds <> [] -> 0 <= eps ->
  selLexicase w inds k ds <> Raise e /\ selEpsilonLexicase w inds k eps ds <> Raise e /\
  selAutomaticEpsilonLexicase w inds k ds <> Raise e.
Proof.
  intros w inds k eps ds e Hne He. repeat split; apply lexicase_gen_no_raise; try exact Hne.
  - apply step_plain_nonempty.
  - intros; apply step_eps_nonempty; assumption.
  - apply step_auto_nonempty.
Qed.
Print Assumptions C06_lexicase_no_raise.

(* ------------------------------------------------------------------ selTournamentDCD *)
Theorem C06_selTournamentDCD : forall inds k ds out rest,
  NoDup (map uid inds) -> (k mod 4 = 0)%nat ->
  selTournamentDCD inds k ds = Ok out rest ->
  (k <= length inds)%nat /\ length out = k /\ Forall (fun x => In x inds) out /\
  forall u, (count_uid u out <= 2)%nat.
Proof. exact selTournamentDCD_spec. Qed.
Print Assumptions C06_selTournamentDCD.

Theorem C06_selTournamentDCD_no_raise : forall inds k ds e,
  (k <= length inds)%nat -> (k mod 4 = 0)%nat -> selTournamentDCD inds k ds <> Raise e.
Proof. exact selTournamentDCD_no_raise. Qed.
Print Assumptions C06_selTournamentDCD_no_raise.

(* ------------------------------------------------------------------ tie-breaking, dominance, totality *)
(* among equally good aspirants the FIRST sampled one wins (max(key=) returns the first maximum):
   everything sampled before the winner is strictly worse *)
Theorem C06_tournament_first_max : forall aspirants ds w rest,
  best_of aspirants ds = Ok w rest ->
  exists l1 l2, aspirants = l1 ++ w :: l2 /\ Forall (fun x => f_lt x w = true) l1.
Proof. exact best_of_first. Qed.
Print Assumptions C06_tournament_first_max.

(* Fitness.dominates as used by selTournamentDCD: no worse everywhere, better somewhere *)
Theorem C06_dominates : forall a b,
  dominates a b = true <->
  Forall (fun p => snd p <= fst p) (zip (wv a) (wv b)) /\ Exists (fun p => snd p < fst p) (zip (wv a) (wv b)).
Proof. exact dominates_spec. Qed.
Print Assumptions C06_dominates.

(* the binary tournament of selTournamentDCD: dominance, then larger crowding distance, then a coin *)
Theorem C06_DCD_tourn_rule : forall x y ds z rest, tourn x y ds = Ok z rest ->
  (dominates x y = true -> z = x /\ rest = ds) /\
  (dominates x y = false -> dominates y x = true -> z = y /\ rest = ds) /\
  (dominates x y = false -> dominates y x = false ->
     (cd_lt (cd x) (cd y) = true -> z = y /\ rest = ds) /\
     (cd_lt (cd x) (cd y) = false -> cd_lt (cd y) (cd x) = true -> z = x /\ rest = ds) /\
     (cd_lt (cd x) (cd y) = false -> cd_lt (cd y) (cd x) = false ->
        exists u, ds = DRandom u :: rest /\ 0 <= u /\ u < 1 /\ (u <= 1 # 2 -> z = x) /\ (1 # 2 < u -> z = y))).
Proof. exact tourn_rule. Qed.
Print Assumptions C06_DCD_tourn_rule.

(* totality: every draw log that CPython's random can produce is accepted by the model (answer Ok),
   so the theorems above are not vacuous for any seed *)
Theorem C06_selRandom_total : forall inds idxs rest,
  Forall (fun i => i < length inds)%nat idxs ->
  selRandom inds (length idxs) (map (DChoice (length inds)) idxs ++ rest) = Ok (pick inds idxs) rest.
Proof. exact selRandom_total. Qed.
Print Assumptions C06_selRandom_total.

Theorem C06_selTournament_total : forall inds ts (chunks : list (list nat)) rest,
  (1 <= ts)%nat ->
  Forall (fun ch => length ch = ts /\ Forall (fun i => i < length inds)%nat ch) chunks ->
  exists out, selTournament inds (length chunks) ts
                (concat (map (map (DChoice (length inds))) chunks) ++ rest) = Ok out rest.
Proof. exact selTournament_total. Qed.
Print Assumptions C06_selTournament_total.

Theorem C06_selRoulette_total : forall w inds us rest,
  Forall (fun x => 0 < val0 w x) inds -> Forall (fun u => 0 <= u /\ u < 1) us ->
  exists out, selRoulette w inds (length us) (map DRandom us ++ rest) = Ok out rest.
Proof. exact selRoulette_total. Qed.
Print Assumptions C06_selRoulette_total.

Theorem C06_selSUS_total : forall w inds k u rest,
  Forall (fun x => 0 < val0 w x) inds -> inds <> [] -> (0 < k)%nat -> 0 <= u -> u < 1 ->
  exists out, selSUS w inds k (DRandom u :: rest) = Ok out rest.
Proof. exact selSUS_total. Qed.
Print Assumptions C06_selSUS_total.

(* a lexicase log: per selection a permutation of the cases and an index below the number of
   survivors; a DCD log: two samples of the whole population and enough coin draws *)
Theorem C06_lexicase_total : forall step w inds (rounds : list (list nat * nat)) rest,
  Forall (lex_round_ok step w inds) rounds ->
  exists out, lexicase_gen step w inds (length rounds)
                (concat (map (lex_round_draws step w inds) rounds) ++ rest) = Ok out rest.
Proof. exact lexicase_gen_total. Qed.
Print Assumptions C06_lexicase_total.

Theorem C06_selTournamentDCD_total : forall inds k idx1 idx2 ds,
  (k <= length inds)%nat -> (k mod 4 = 0)%nat ->
  sample_ok (length inds) idx1 -> sample_ok (length inds) idx2 ->
  all_random ds -> (k <= length ds)%nat ->
  exists out rest,
    selTournamentDCD inds k (DSample (length inds) idx1 :: DSample (length inds) idx2 :: ds) = Ok out rest.
Proof. exact selTournamentDCD_total. Qed.
Print Assumptions C06_selTournamentDCD_total.

(* ------------------------------------------------------------------ non-vacuity *)
(* concrete populations and draw logs on which every operator answers Ok (so the hypotheses
   `... = Ok out rest` above are satisfiable), evaluated by the kernel *)
Example C06_nonvacuous :
  let a := mkind 0 [2; (-1)] 3 (Some 1) in
  let b := mkind 1 [1; (-1)] 1 None in
  let c := mkind 2 [1; (-3)] 1 (Some (1 # 2)) in
  let d := mkind 3 [3; (-2)] 2 None in
  let pop := [a; b; c; d] in
  let w := [1; (-1)] in
  selRandom pop 2 [DChoice 4 3; DChoice 4 0] = Ok [d; a] [] /\
  selBest pop 2 = [d; a] /\ selWorst pop 5 = [c; b; a; d] /\
  selTournament pop 1 2 [DChoice 4 1; DChoice 4 2] = Ok [b] [] /\
  selRoulette w pop 2 [DRandom (1 # 2); DRandom 0] = Ok [a; d] [] /\
  selSUS w pop 2 [DRandom (1 # 2)] = Ok [d; b] [] /\
  selDoubleTournament pop 1 1 (3 # 2) true [DChoice 4 0; DChoice 4 1; DRandom (7 # 8)] = Ok [a] [] /\
  selLexicase w pop 1 [DShuffle [1; 0]%nat; DChoice 1 0] = Ok [a] [] /\
  selEpsilonLexicase w pop 1 1 [DShuffle [0; 1]%nat; DChoice 2 1] = Ok [d] [] /\
  selAutomaticEpsilonLexicase w pop 1 [DShuffle [0; 1]%nat; DChoice 1 0] = Ok [d] [] /\
  selTournamentDCD pop 4 [DSample 4 [0; 1; 2; 3]%nat; DSample 4 [3; 2; 1; 0]%nat] = Ok [a; d; d; a] [] /\
  Forall (fun x => 0 < val0 w x) pop /\ uniform w pop /\ NoDup (map uid pop).
Proof.
  cbv zeta. repeat split; try (vm_compute; reflexivity).
  - repeat constructor.
  - repeat constructor.
  - repeat constructor; cbn; intuition discriminate.
Qed.
