(* Property C06 — theorems only (placeholder, filled at M2). *)
From Coq Require Import List Bool Arith QArith.
From DV Require Import Base.C06_Py Model.C06_Select.
Import ListNotations.
