(* Property C09 -- tie (T): the theorems of Props/C09.v restated on the definitions regenerated on THIS run
   from the source text of deap/tools/crossover.py and deap/tools/mutation.py (coq/Gen/C09_gen.v, written by
   harness/c09_py2coq.py; `gen_f` = translation of the current body of f, or an alias of the model when the
   translator refused f -- see Gen.C09_gen.refused and the evidence notes).
   meq m1 m2 (Proofs/C09_GenTac.v) = forall draw streams ds, m1 ds = m2 ds. *)
From Coq Require Import List ZArith QArith Bool Permutation Lia.
From DV Require Import Base.PyList Base.C09_Lists Model.C09_SeqOps Proofs.C09_GenTac Gen.C09_gen Proofs.C09_gen_equiv.
Import ListNotations.
Local Open Scope Z_scope.

(* the regenerated definitions are the model, for every argument and every draw stream *)
Theorem C09_gen_source_is_model :
  (forall (A : Type) (p1 p2 : list A), meq (gen_cxOnePoint p1 p2) (cxOnePoint p1 p2)) /\
  (forall (A : Type) (p1 p2 : list A), meq (gen_cxTwoPoint p1 p2) (cxTwoPoint p1 p2)) /\
  (forall (A : Type) (p1 p2 : list A) indpb, meq (gen_cxUniform p1 p2 indpb) (cxUniform p1 p2 indpb)) /\
  (forall p indpb, meq (gen_mutFlipBit p indpb) (mutFlipBit p indpb)) /\
  (forall p low up indpb, meq (gen_mutUniformInt p low up indpb) (mutUniformInt p low up indpb)) /\
  (forall (A : Type) (p : list A) indpb, meq (gen_mutShuffleIndexes p indpb) (mutShuffleIndexes p indpb)) /\
  (forall (A : Type) (p : list A), meq (gen_mutInversion p) (mutInversion p)) /\
  (forall (A : Type) (p1 p2 : list A), meq (gen_cxMessyOnePoint p1 p2) (cxMessyOnePoint p1 p2)) /\
  (forall (A B : Type) (ind1 ind2 : list A * list B), meq (gen_cxESTwoPoint ind1 ind2) (cxESTwoPoint ind1 ind2)) /\
  (forall p1 p2, meq (gen_cxPartialyMatched p1 p2) (cxPartialyMatched p1 p2)) /\
  (forall p1 p2 indpb, meq (gen_cxUniformPartialyMatched p1 p2 indpb) (cxUniformPartialyMatched p1 p2 indpb)) /\
  (forall p1 p2, meq (gen_cxOrdered p1 p2) (cxOrdered p1 p2)).
Proof. exact source_is_model. Qed.
Print Assumptions C09_gen_source_is_model.

(* ---- one-point: multiset conserved, lengths exchanged, loci before the cut kept, from the cut on swapped *)
Theorem C09_gen_one_point : forall (A : Type) (p1 p2 : list A), 2 <= Z.min (zlen p1) (zlen p2) ->
  always (gen_cxOnePoint p1 p2) (fun c =>
    Permutation (fst c ++ snd c) (p1 ++ p2) /\
    length (fst c) = length p2 /\ length (snd c) = length p1 /\
    exists cx : nat, (1 <= cx < Nat.min (length p1) (length p2))%nat /\
      forall i, ((i < cx)%nat -> kept_at p1 p2 (fst c) (snd c) i) /\
                ((cx <= i)%nat -> swapped_at p1 p2 (fst c) (snd c) i)).
Proof. exact gen_one_point_thm. Qed.
Print Assumptions C09_gen_one_point.

(* error branch: shorter parent of length < 2 -> randint(1, size-1) raises ValueError *)
Theorem C09_gen_one_point_guard : forall (A : Type) (p1 p2 : list A),
  Z.min (zlen p1) (zlen p2) < 2 -> only_raises (gen_cxOnePoint p1 p2) ValueError.
Proof. exact gen_cxOnePoint_guard. Qed.
Print Assumptions C09_gen_one_point_guard.

(* ---- two-point: multiset conserved, lengths kept, loci in [a,b) swapped, all others kept *)
Theorem C09_gen_two_point : forall (A : Type) (p1 p2 : list A), 2 <= Z.min (zlen p1) (zlen p2) ->
  always (gen_cxTwoPoint p1 p2) (fun c =>
    Permutation (fst c ++ snd c) (p1 ++ p2) /\
    length (fst c) = length p1 /\ length (snd c) = length p2 /\
    exists a b : nat, (1 <= a < b)%nat /\ (b <= Nat.min (length p1) (length p2))%nat /\
      forall i, ((a <= i < b)%nat -> swapped_at p1 p2 (fst c) (snd c) i) /\
                (~ (a <= i < b)%nat -> kept_at p1 p2 (fst c) (snd c) i)).
Proof. exact gen_two_point_thm. Qed.
Print Assumptions C09_gen_two_point.

Theorem C09_gen_two_point_guard : forall (A : Type) (p1 p2 : list A),
  Z.min (zlen p1) (zlen p2) < 2 -> only_raises (gen_cxTwoPoint p1 p2) ValueError.
Proof. exact gen_cxTwoPoint_guard. Qed.
Print Assumptions C09_gen_two_point_guard.

(* ---- uniform, every indpb: multiset conserved, lengths kept, every locus holds the two parental
   genes of that locus, loci beyond the shorter parent untouched *)
Theorem C09_gen_uniform : forall (A : Type) (p1 p2 : list A) (indpb : Q),
  always (gen_cxUniform p1 p2 indpb) (fun c =>
    Permutation (fst c ++ snd c) (p1 ++ p2) /\
    length (fst c) = length p1 /\ length (snd c) = length p2 /\
    forall i, locus_ok p1 p2 (fst c) (snd c) i /\
              ((Nat.min (length p1) (length p2) <= i)%nat -> kept_at p1 p2 (fst c) (snd c) i)).
Proof. exact gen_uniform_thm. Qed.
Print Assumptions C09_gen_uniform.

(* ---- messy one-point, any lengths (also 0 and 1): multiset conserved; heads kept, tails exchanged *)
Theorem C09_gen_messy : forall (A : Type) (p1 p2 : list A),
  always (gen_cxMessyOnePoint p1 p2) (fun c =>
    Permutation (fst c ++ snd c) (p1 ++ p2) /\
    exists a1 a2 : nat, (a1 <= length p1)%nat /\ (a2 <= length p2)%nat /\
      fst c = firstn a1 p1 ++ skipn a2 p2 /\ snd c = firstn a2 p2 ++ skipn a1 p1 /\
      (length (fst c) = a1 + (length p2 - a2))%nat /\ (length (snd c) = a2 + (length p1 - a1))%nat).
Proof. exact gen_messy_thm. Qed.
Print Assumptions C09_gen_messy.

(* ---- strategy-carrying two-point: the children's (gene, strategy) pairs are a two-point
   crossover of the parents' pairs — each gene moves together with its strategy value *)
Theorem C09_gen_es_two_point_pairs : forall (A B : Type) (g1 g2 : list A) (s1 s2 : list B),
  2 <= Z.min (zlen g1) (zlen g2) -> length s1 = length g1 -> length s2 = length g2 ->
  always (gen_cxESTwoPoint (g1, s1) (g2, s2)) (fun c =>
    let cg1 := fst (fst c) in let cs1 := snd (fst c) in
    let cg2 := fst (snd c) in let cs2 := snd (snd c) in
    length cg1 = length g1 /\ length cs1 = length s1 /\ length cg2 = length g2 /\ length cs2 = length s2 /\
    Permutation (combine cg1 cs1 ++ combine cg2 cs2) (combine g1 s1 ++ combine g2 s2) /\
    exists a b : nat, (1 <= a < b)%nat /\ (b <= Nat.min (length g1) (length g2))%nat /\
      forall i, ((a <= i < b)%nat -> swapped_at (combine g1 s1) (combine g2 s2) (combine cg1 cs1) (combine cg2 cs2) i) /\
                (~ (a <= i < b)%nat -> kept_at (combine g1 s1) (combine g2 s2) (combine cg1 cs1) (combine cg2 cs2) i)).
Proof. exact gen_es_two_point_thm. Qed.
Print Assumptions C09_gen_es_two_point_pairs.

Theorem C09_gen_es_two_point_guard : forall (A B : Type) (ind1 ind2 : list A * list B),
  Z.min (zlen (fst ind1)) (zlen (fst ind2)) < 2 -> only_raises (gen_cxESTwoPoint ind1 ind2) ValueError.
Proof. exact gen_es_two_point_guard. Qed.
Print Assumptions C09_gen_es_two_point_guard.

(* ---- permutation operators: permutations of 0..n-1 (is_perm, Base/C09_Lists.v) go to
   permutations of the same elements; in particular no IndexError *)
Theorem C09_gen_pmx_perm : forall p1 p2 : list Z,
  is_perm p1 -> is_perm p2 -> length p1 = length p2 -> (1 <= length p1)%nat ->
  always (gen_cxPartialyMatched p1 p2) (fun c =>
    is_perm (fst c) /\ is_perm (snd c) /\ Permutation (fst c) p1 /\ Permutation (snd c) p2).
Proof. exact gen_pmx_thm. Qed.
Print Assumptions C09_gen_pmx_perm.

Theorem C09_gen_upmx_perm : forall (p1 p2 : list Z) (indpb : Q),
  is_perm p1 -> is_perm p2 -> length p1 = length p2 ->
  always (gen_cxUniformPartialyMatched p1 p2 indpb) (fun c =>
    is_perm (fst c) /\ is_perm (snd c) /\ Permutation (fst c) p1 /\ Permutation (snd c) p2).
Proof. exact gen_upmx_thm. Qed.
Print Assumptions C09_gen_upmx_perm.

(* the model reads through the aliases temp1 = ind1, temp2 = ind2, i.e. from the lists being written *)
Theorem C09_gen_ordered_perm : forall p1 p2 : list Z,
  is_perm p1 -> is_perm p2 -> length p1 = length p2 -> (2 <= length p1)%nat ->
  always (gen_cxOrdered p1 p2) (fun c =>
    (is_perm (fst c) /\ is_perm (snd c) /\ Permutation (fst c) p1 /\ Permutation (snd c) p2) /\
    (* and on the segment [a, b] each child holds the other parent's genes *)
    exists a b : nat, (a < b < length p1)%nat /\
      forall i, (a <= i <= b)%nat -> swapped_at p1 p2 (fst c) (snd c) i).
Proof. exact gen_ordered_thm. Qed.
Print Assumptions C09_gen_ordered_perm.

Theorem C09_gen_ordered_guard : forall p1 p2 : list Z,
  Z.min (zlen p1) (zlen p2) < 2 -> only_raises (gen_cxOrdered p1 p2) ValueError.
Proof. exact gen_ordered_guard. Qed.
Print Assumptions C09_gen_ordered_guard.

(* index shuffling, every indpb, any gene type: a rearrangement of the same genes *)
Theorem C09_gen_shuffle : forall (A : Type) (p : list A) (indpb : Q), zlen p <> 1 ->
  always (gen_mutShuffleIndexes p indpb) (fun c => Permutation c p /\ length c = length p).
Proof. exact gen_shuffle_thm. Qed.
Print Assumptions C09_gen_shuffle.

Theorem C09_gen_shuffle_perm : forall (p : list Z) (indpb : Q), is_perm p -> zlen p <> 1 ->
  always (gen_mutShuffleIndexes p indpb) (fun c => is_perm c /\ Permutation c p).
Proof. exact gen_shuffle_perm_thm. Qed.
Print Assumptions C09_gen_shuffle_perm.

(* inversion, any length (also 0): the slice [s, e) reversed in place *)
Theorem C09_gen_inversion : forall (A : Type) (p : list A),
  always (gen_mutInversion p) (fun c =>
    Permutation c p /\ length c = length p /\
    exists s e : nat, (s <= e <= length p)%nat /\
      c = firstn s p ++ rev (firstn (e - s) (skipn s p)) ++ skipn e p).
Proof. exact gen_inversion_thm. Qed.
Print Assumptions C09_gen_inversion.

Theorem C09_gen_inversion_perm : forall p : list Z, is_perm p ->
  always (gen_mutInversion p) (fun c => is_perm c /\ Permutation c p).
Proof. exact gen_inversion_perm_thm. Qed.
Print Assumptions C09_gen_inversion_perm.

(* ---- bit flip: length kept, every gene unchanged or replaced by type(x)(not x), which keeps the
   Python type, negates the truth value, and on bits (0/1 ints, bools, 0.0/1.0) is the complement *)
Theorem C09_gen_flip_bit : forall (p : list gene) (indpb : Q),
  always (gen_mutFlipBit p indpb) (fun c =>
    length c = length p /\
    forall i g, nth_error p i = Some g -> nth_error c i = Some g \/ nth_error c i = Some (flip_gene g)).
Proof. exact gen_flip_bit_thm. Qed.
Print Assumptions C09_gen_flip_bit.

(* ---- uniform integer: length kept; each gene unchanged or an integer within the bounds of its
   locus; `bound` is a scalar or a per-gene sequence at least as long as the individual *)
Theorem C09_gen_uniform_int_bounds : forall (p : list Z) (low up : bound) (indpb : Q),
  bound_covers low (length p) -> bound_covers up (length p) ->
  (forall i, (i < length p)%nat -> bound_at low i <= bound_at up i) ->
  always (gen_mutUniformInt p low up indpb) (fun c =>
    length c = length p /\
    forall i x, nth_error p i = Some x ->
      exists y, nth_error c i = Some y /\ (y = x \/ bound_at low i <= y <= bound_at up i)).
Proof. exact gen_uniform_int_thm. Qed.
Print Assumptions C09_gen_uniform_int_bounds.

(* error branch: a bound sequence shorter than the individual -> IndexError before any draw *)
Theorem C09_gen_uniform_int_guard : forall (p : list Z) (low up : bound) (indpb : Q),
  ~ bound_covers low (length p) \/ ~ bound_covers up (length p) ->
  forall ds, run (gen_mutUniformInt p low up indpb) ds = Raise IndexError.
Proof. exact gen_uniform_int_guard. Qed.
Print Assumptions C09_gen_uniform_int_guard.

(* ---- non-vacuity: the regenerated definitions run to completion on concrete library-consistent streams
   (the same runs as C09_nonvacuous_runs of Props/C09.v) *)
Example C09_gen_nonvacuous_runs :
  run (gen_cxOnePoint [1; 2; 3] [4; 5; 6; 7]) [DRandint 1 2 (Some 2)] = Ok ([1; 2; 6; 7], [4; 5; 3]) /\
  run (gen_cxTwoPoint [1; 2; 3; 4] [5; 6; 7; 8]) [DRandint 1 4 (Some 4); DRandint 1 3 (Some 2)] = Ok ([1; 2; 7; 8], [5; 6; 3; 4]) /\
  run (gen_cxUniform [1; 2; 3] [4; 5; 6] (1 # 2)) [DRandom (1 # 4); DRandom (3 # 4); DRandom 0] = Ok ([4; 2; 6], [1; 5; 3]) /\
  run (gen_cxMessyOnePoint [1; 2; 3] [4; 5]) [DRandint 0 3 (Some 0); DRandint 0 2 (Some 2)] = Ok ([], [4; 5; 1; 2; 3]) /\
  run (gen_cxESTwoPoint ([1; 2; 3], [11; 12; 13]) ([4; 5; 6], [14; 15; 16])) [DRandint 1 3 (Some 1); DRandint 1 2 (Some 1)]
    = Ok (([1; 5; 3], [11; 15; 13]), ([4; 2; 6], [14; 12; 16])) /\
  run (gen_cxPartialyMatched [0; 1; 2; 3; 4] [4; 3; 2; 1; 0]) [DRandint 0 5 (Some 1); DRandint 0 4 (Some 2)] = Ok ([0; 3; 2; 1; 4], [4; 1; 2; 3; 0]) /\
  run (gen_cxUniformPartialyMatched [0; 1; 2] [2; 0; 1] (1 # 2)) [DRandom 0; DRandom (3 # 4); DRandom (3 # 4)] = Ok ([2; 1; 0], [0; 2; 1]) /\
  run (gen_cxOrdered [0; 1; 2; 3; 4; 5] [5; 3; 1; 0; 2; 4]) [DSample2 6 (Some (4, 2))] = Ok ([3; 4; 1; 0; 2; 5], [1; 0; 2; 3; 4; 5]) /\
  run (gen_mutShuffleIndexes [0; 1; 2; 3] (1 # 2))
      [DRandom 0; DRandint 0 2 (Some 0); DRandom (3 # 4); DRandom 0; DRandint 0 2 (Some 2); DRandom (3 # 4)] = Ok [1; 0; 3; 2] /\
  run (gen_mutInversion [0; 1; 2; 3; 4]) [DRandrange 5 (Some 4); DRandrange 5 (Some 1)] = Ok [0; 3; 2; 1; 4] /\
  run (gen_mutFlipBit [GInt 0; GBool true; GFloat 1; GInt 1] (1 # 2)) [DRandom 0; DRandom 0; DRandom 0; DRandom (3 # 4)]
    = Ok [GInt 1; GBool false; GFloat 0; GInt 1] /\
  run (gen_mutUniformInt [7; 7; 7] (BScalar (-3)) (BSeq [0; 5; 9; 9]) (1 # 2))
      [DRandom 0; DRandint (-3) 0 (Some (-3)); DRandom (3 # 4); DRandom 0; DRandint (-3) 9 (Some 9)] = Ok [-3; 7; 9].
Proof. vm_compute. repeat split. Qed.
