(* Property C02, tie (T): the theorems of Props/C02.v restated on the definitions that
   harness/c02_py2coq.py REGENERATES from the current text of deap/algorithms.py (varAnd, varOr) on
   every run (coq/Gen/C02_gen.v, never committed), plus the two lemmas that make this possible:
   the regenerated functions ARE the hand model, for all arguments, operator oracles and states.

   gen_varAnd / gen_varOr take the comparison / addition / constant 1.0 the source applies to cxpb,
   mutpb and the draws (ltb leb add one), the two operator oracles, and then the Python parameters in
   source order (population, [lambda_,] cxpb, mutpb); the state (heap, draws, call counter, log) comes
   last.  If the translator refuses a function (source outside its grammar), the generated definition
   is the hand model itself and the harness reports `tie: correspondence-only` for it. *)
From Coq Require Import List ZArith Bool.
From DV Require Import Model.C02_Variation Model.C02_GenRt Proofs.C02_Variation Proofs.C02_Progress Proofs.C02_Trace.
From DV Require Import Gen.C02_gen Proofs.C02_gen_equiv Proofs.C02_gen_props.
Import ListNotations.

(* ---------------------------------------------------------------- regenerated = hand model *)
Theorem C02_gen_varAnd_is_model :
  forall G F T ltb leb add one mate_o mut_o pop cxpb mutpb s,
  @gen_varAnd G F T ltb leb add one mate_o mut_o pop cxpb mutpb s = var_and ltb mate_o mut_o cxpb mutpb s pop.
Proof. exact gen_varAnd_eq. Qed.
Print Assumptions C02_gen_varAnd_is_model.

Theorem C02_gen_varOr_is_model :
  forall G F T ltb leb add one mate_o mut_o pop lambda_ cxpb mutpb s,
  @gen_varOr G F T ltb leb add one mate_o mut_o pop lambda_ cxpb mutpb s
  = var_or ltb leb add one mate_o mut_o lambda_ cxpb mutpb s pop.
Proof. exact gen_varOr_eq. Qed.
Print Assumptions C02_gen_varOr_is_model.

(* ---------------------------------------------------------------- the theorems of Props/C02.v on the regenerated text *)
(* no individual of the population (indeed no pre-existing object) is modified -- also when the
   call ends in an exception *)
Theorem C02_gen_varAnd_parents_untouched :
  forall G F T ltb leb add one mate_o mut_o h0 pop, wf_heap h0 -> pop_ok h0 pop ->
  (forall k x y, ret_distinct (ma_r1 (mate_o k x y)) (ma_r2 (mate_o k x y))) ->
  forall cxpb mutpb d s' res,
  @gen_varAnd G F T ltb leb add one mate_o mut_o pop cxpb mutpb (start h0 d) = (s', res) ->
  untouched h0 pop (hp s').
Proof. exact gen_and_parents_untouched. Qed.
Print Assumptions C02_gen_varAnd_parents_untouched.

Theorem C02_gen_varAnd_offspring_count :
  forall G F T ltb leb add one mate_o mut_o h0 pop, wf_heap h0 -> pop_ok h0 pop ->
  (forall k x y, ret_distinct (ma_r1 (mate_o k x y)) (ma_r2 (mate_o k x y))) ->
  forall cxpb mutpb d s' res,
  @gen_varAnd G F T ltb leb add one mate_o mut_o pop cxpb mutpb (start h0 d) = (s', res) ->
  forall off, res = inr off -> length off = length pop.
Proof. exact gen_and_offspring_count. Qed.
Print Assumptions C02_gen_varAnd_offspring_count.

Theorem C02_gen_varAnd_offspring_independent :
  forall G F T ltb leb add one mate_o mut_o h0 pop, wf_heap h0 -> pop_ok h0 pop ->
  (forall k x y, ret_distinct (ma_r1 (mate_o k x y)) (ma_r2 (mate_o k x y))) ->
  forall cxpb mutpb d s' res,
  @gen_varAnd G F T ltb leb add one mate_o mut_o pop cxpb mutpb (start h0 d) = (s', res) ->
  forall off, res = inr off -> independent h0 (hp s') off.
Proof. exact gen_and_offspring_independent. Qed.
Print Assumptions C02_gen_varAnd_offspring_independent.

Theorem C02_gen_varAnd_varied_invalid :
  forall G F T ltb leb add one mate_o mut_o h0 pop, wf_heap h0 -> pop_ok h0 pop ->
  (forall k x y, ret_distinct (ma_r1 (mate_o k x y)) (ma_r2 (mate_o k x y))) ->
  forall cxpb mutpb d s' res,
  @gen_varAnd G F T ltb leb add one mate_o mut_o pop cxpb mutpb (start h0 d) = (s', res) ->
  forall off, res = inr off -> varied_invalid (hp s') (lg s') off.
Proof. exact gen_and_varied_invalid. Qed.
Print Assumptions C02_gen_varAnd_varied_invalid.

Theorem C02_gen_varAnd_valid_is_parent_copy :
  forall G F T ltb leb add one mate_o mut_o h0 pop, wf_heap h0 -> pop_ok h0 pop ->
  (forall k x y, ret_distinct (ma_r1 (mate_o k x y)) (ma_r2 (mate_o k x y))) ->
  forall cxpb mutpb d s' res,
  @gen_varAnd G F T ltb leb add one mate_o mut_o pop cxpb mutpb (start h0 d) = (s', res) ->
  forall off, res = inr off -> valid_is_parent_copy h0 pop (hp s') (lg s') off.
Proof. exact gen_and_valid_is_parent_copy. Qed.
Print Assumptions C02_gen_varAnd_valid_is_parent_copy.

(* ---------------------------------------------------------------- varOr (with the reproduction branch cloning) *)
Theorem C02_gen_varOr_parents_untouched :
  forall G F T ltb mate_o mut_o h0 pop, wf_heap h0 -> pop_ok h0 pop ->
  forall leb add one lambda_ cxpb mutpb d s' res,
  @gen_varOr G F T ltb leb add one mate_o mut_o pop lambda_ cxpb mutpb (start h0 d) = (s', res) ->
  untouched h0 pop (hp s').
Proof. exact gen_or_parents_untouched. Qed.
Print Assumptions C02_gen_varOr_parents_untouched.

Theorem C02_gen_varOr_offspring_count :
  forall G F T ltb mate_o mut_o h0 pop, wf_heap h0 -> pop_ok h0 pop ->
  forall leb add one lambda_ cxpb mutpb d s' res,
  @gen_varOr G F T ltb leb add one mate_o mut_o pop lambda_ cxpb mutpb (start h0 d) = (s', res) ->
  forall off, res = inr off -> length off = Z.to_nat lambda_.
Proof. exact gen_or_offspring_count. Qed.
Print Assumptions C02_gen_varOr_offspring_count.

Theorem C02_gen_varOr_offspring_independent :
  forall G F T ltb mate_o mut_o h0 pop, wf_heap h0 -> pop_ok h0 pop ->
  forall leb add one lambda_ cxpb mutpb d s' res,
  @gen_varOr G F T ltb leb add one mate_o mut_o pop lambda_ cxpb mutpb (start h0 d) = (s', res) ->
  forall off, res = inr off -> independent h0 (hp s') off.
Proof. exact gen_or_offspring_independent. Qed.
Print Assumptions C02_gen_varOr_offspring_independent.

Theorem C02_gen_varOr_varied_invalid :
  forall G F T ltb mate_o mut_o h0 pop, wf_heap h0 -> pop_ok h0 pop ->
  forall leb add one lambda_ cxpb mutpb d s' res,
  @gen_varOr G F T ltb leb add one mate_o mut_o pop lambda_ cxpb mutpb (start h0 d) = (s', res) ->
  forall off, res = inr off -> varied_invalid (hp s') (lg s') off.
Proof. exact gen_or_varied_invalid. Qed.
Print Assumptions C02_gen_varOr_varied_invalid.

Theorem C02_gen_varOr_valid_is_parent_copy :
  forall G F T ltb mate_o mut_o h0 pop, wf_heap h0 -> pop_ok h0 pop ->
  forall leb add one lambda_ cxpb mutpb d s' res,
  @gen_varOr G F T ltb leb add one mate_o mut_o pop lambda_ cxpb mutpb (start h0 d) = (s', res) ->
  forall off, res = inr off -> valid_is_parent_copy h0 pop (hp s') (lg s') off.
Proof. exact gen_or_valid_is_parent_copy. Qed.
Print Assumptions C02_gen_varOr_valid_is_parent_copy.

(* the guards: exactly when the real varOr raises instead of returning lambda_ offspring *)
Theorem C02_gen_varOr_assertion :
  forall G F T ltb mate_o mut_o h0 pop leb add one lambda_ cxpb mutpb d s' res,
  @gen_varOr G F T ltb leb add one mate_o mut_o pop lambda_ cxpb mutpb (start h0 d) = (s', res) ->
  leb (add cxpb mutpb) one = false -> res = inl AssertionError /\ s' = start h0 d.
Proof. exact gen_or_assertion. Qed.
Print Assumptions C02_gen_varOr_assertion.

(* random.sample(population, 2) on a population of fewer than two individuals: ValueError *)
Theorem C02_gen_varOr_small_population_raises :
  forall G F T ltb mate_o mut_o h0 pop leb add one lambda_ cxpb mutpb d s' res,
  @gen_varOr G F T ltb leb add one mate_o mut_o pop lambda_ cxpb mutpb (start h0 d) = (s', res) ->
  forall u rest,
  leb (add cxpb mutpb) one = true -> (0 < lambda_)%Z -> d = DRandom u :: rest ->
  ltb u cxpb = true -> length pop < 2 -> res = inl ValueError /\ hp s' = h0.
Proof. exact gen_or_small_population_raises. Qed.
Print Assumptions C02_gen_varOr_small_population_raises.

(* random.choice(population) on an empty population: IndexError *)
Theorem C02_gen_varOr_empty_population_raises :
  forall G F T ltb mate_o mut_o h0 pop leb add one lambda_ cxpb mutpb d s' res,
  @gen_varOr G F T ltb leb add one mate_o mut_o pop lambda_ cxpb mutpb (start h0 d) = (s', res) ->
  forall u rest,
  leb (add cxpb mutpb) one = true -> (0 < lambda_)%Z -> d = DRandom u :: rest ->
  ltb u cxpb = false -> pop = [] -> res = inl IndexError /\ hp s' = h0.
Proof. exact gen_or_empty_population_raises. Qed.
Print Assumptions C02_gen_varOr_empty_population_raises.

(* without the hypothesis that mate returns two different objects: parents are still untouched and
   the count is still right (the other three clauses genuinely need it: if mate returns the same
   object twice, varAnd's result contains it twice) *)
Theorem C02_gen_varAnd_untouched_and_count_any_operator :
  forall G F T ltb leb add one mate_o mut_o h0 pop, wf_heap h0 -> pop_ok h0 pop ->
  forall cxpb mutpb d s' res,
  @gen_varAnd G F T ltb leb add one mate_o mut_o pop cxpb mutpb (start h0 d) = (s', res) ->
  untouched h0 pop (hp s') /\ forall off, res = inr off -> length off = length pop.
Proof. exact gen_and_weak. Qed.
Print Assumptions C02_gen_varAnd_untouched_and_count_any_operator.

(* varAnd never raises: it consumes exactly len//2 + len values of random.random() *)
Theorem C02_gen_varAnd_total :
  forall G F T ltb leb add one mate_o mut_o cxpb mutpb h0 pop us rest,
  length us = Nat.div2 (length pop) + length pop ->
  exists s' off, @gen_varAnd G F T ltb leb add one mate_o mut_o pop cxpb mutpb (start h0 (map DRandom us ++ rest)) = (s', inr off)
                 /\ dr s' = rest.
Proof. exact gen_and_total. Qed.
Print Assumptions C02_gen_varAnd_total.

(* varOr returns whenever the assertion holds and the population has two members at every crossover
   draw and one at every other draw (or_draws_ok); with the guards above this is exactly when *)
Theorem C02_gen_varOr_total :
  forall G F T ltb mate_o mut_o leb add one lambda_ cxpb mutpb h0 pop d,
  leb (add cxpb mutpb) one = true ->
  or_draws_ok ltb cxpb (length pop) (Z.to_nat lambda_) d ->
  exists s' off, @gen_varOr G F T ltb leb add one mate_o mut_o pop lambda_ cxpb mutpb (start h0 d) = (s', inr off).
Proof. exact gen_or_total. Qed.
Print Assumptions C02_gen_varOr_total.

(* varAnd: offspring i went through an operator, or it is the clone of population[i] and still has its
   genotype and fitness values *)
Theorem C02_gen_varAnd_positional :
  forall G F T ltb leb add one mate_o mut_o h0 pop, wf_heap h0 -> pop_ok h0 pop ->
  (forall k x y, ret_distinct (ma_r1 (mate_o k x y)) (ma_r2 (mate_o k x y))) ->
  forall cxpb mutpb d s' off,
  @gen_varAnd G F T ltb leb add one mate_o mut_o pop cxpb mutpb (start h0 d) = (s', inr off) ->
  Forall2 (fun p o => varied (lg s') o \/
                      (In (EClone p o) (lg s') /\ geno (ind_at (hp s') o) = geno (ind_at h0 p)
                       /\ fit_of (hp s') o = fit_of h0 p)) pop off.
Proof. exact gen_and_positional. Qed.
Print Assumptions C02_gen_varAnd_positional.

(* no draw below cxpb or mutpb (in particular cxpb = mutpb = 0 with draws in [0,1)): no operator is
   called and offspring i is an exact copy of population[i] *)
Theorem C02_gen_varAnd_probability_zero :
  forall G F T ltb leb add one mate_o mut_o h0 pop, wf_heap h0 -> pop_ok h0 pop ->
  (forall k x y, ret_distinct (ma_r1 (mate_o k x y)) (ma_r2 (mate_o k x y))) ->
  forall cxpb mutpb d s' off,
  (forall u, In (DRandom u) d -> ltb u cxpb = false) -> (forall u, In (DRandom u) d -> ltb u mutpb = false) ->
  @gen_varAnd G F T ltb leb add one mate_o mut_o pop cxpb mutpb (start h0 d) = (s', inr off) ->
  (forall o, ~ varied (lg s') o) /\
  Forall2 (fun p o => In (EClone p o) (lg s') /\ geno (ind_at (hp s') o) = geno (ind_at h0 p)
                      /\ fit_of (hp s') o = fit_of h0 p) pop off.
Proof. exact gen_and_never. Qed.
Print Assumptions C02_gen_varAnd_probability_zero.

(* every draw below mutpb (in particular mutpb = 1): every offspring comes back invalid *)
Theorem C02_gen_varAnd_probability_one :
  forall G F T ltb leb add one mate_o mut_o h0 pop, wf_heap h0 -> pop_ok h0 pop ->
  (forall k x y, ret_distinct (ma_r1 (mate_o k x y)) (ma_r2 (mate_o k x y))) ->
  forall cxpb mutpb d s' off,
  (forall u, In (DRandom u) d -> ltb u mutpb = true) ->
  @gen_varAnd G F T ltb leb add one mate_o mut_o pop cxpb mutpb (start h0 d) = (s', inr off) ->
  forall o, In o off -> fit_of (hp s') o = None.
Proof. exact gen_and_always_mut. Qed.
Print Assumptions C02_gen_varAnd_probability_one.

(* varOr with cxpb = mutpb = 0 -- the call on which the unrepaired code returned the parents themselves:
   every offspring is an operator-free clone carrying a population member's genotype and fitness
   (and, by C02_varOr_offspring_independent, a new object) *)
Theorem C02_gen_varOr_reproduction_only :
  forall G F T ltb mate_o mut_o h0 pop, wf_heap h0 -> pop_ok h0 pop ->
  forall leb add one lambda_ cxpb mutpb d s' off,
  (forall u, In (DRandom u) d -> ltb u cxpb = false /\ ltb u (add cxpb mutpb) = false) ->
  @gen_varOr G F T ltb leb add one mate_o mut_o pop lambda_ cxpb mutpb (start h0 d) = (s', inr off) ->
  (forall o, ~ varied (lg s') o) /\
  forall o, In o off -> exists p, In p pop /\ In (EClone p o) (lg s') /\
     geno (ind_at (hp s') o) = geno (ind_at h0 p) /\ fit_of (hp s') o = fit_of h0 p.
Proof. exact gen_or_reproduction_only. Qed.
Print Assumptions C02_gen_varOr_reproduction_only.

(* varOr when every draw selects crossover or mutation (in particular cxpb + mutpb = 1): all invalid *)
Theorem C02_gen_varOr_all_varied :
  forall G F T ltb mate_o mut_o h0 pop, wf_heap h0 -> pop_ok h0 pop ->
  forall leb add one lambda_ cxpb mutpb d s' off,
  (forall u, In (DRandom u) d -> ltb u cxpb = true \/ ltb u (add cxpb mutpb) = true) ->
  @gen_varOr G F T ltb leb add one mate_o mut_o pop lambda_ cxpb mutpb (start h0 d) = (s', inr off) ->
  forall o, In o off -> fit_of (hp s') o = None.
Proof. exact gen_or_all_varied. Qed.
Print Assumptions C02_gen_varOr_all_varied.
