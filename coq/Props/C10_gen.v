(* Property C10 -- tie (T): theorems only.
   The definitions named here (cxBlend, cxSimulatedBinary, cxSimulatedBinaryBounded, mutGaussian,
   mutPolynomialBounded, cxESBlend, mutESLogNormal) are coq/Gen/C10_gen.v: regenerated on THIS run by
   harness/c10_py2coq.py from the working-tree text of deap/tools/crossover.py and deap/tools/mutation.py.
   C10_gen_source_is_model: each of them equals the hand-written model (Model/C10_RealOps.v) for every number
   record (so in particular at the float instance the correspondence runs and at the real instance the
   theorems use), every argument and every event stream.  The other theorems are the C10 property theorems
   (Props/C10.v) restated on the regenerated definitions; their reading is given there. *)
From Coq Require Import List Reals Lra Lia.
From DV Require Import Model.C10_RealOps Model.C10_PyRt Proofs.C10_RealOps Gen.C10_gen Proofs.C10_gen_equiv Proofs.C10_gen_props.
Import ListNotations.
Local Open Scope R_scope.

Theorem C10_gen_source_is_model : forall (T : Type) (O : ops T),
  (forall ind1 ind2 alpha s, cxBlend O ind1 ind2 alpha s = cx_blend O alpha ind1 ind2 s) /\
  (forall ind1 ind2 eta s, cxSimulatedBinary O ind1 ind2 eta s = cx_sbx O eta ind1 ind2 s) /\
  (forall ind1 ind2 eta low up s,
     cxSimulatedBinaryBounded O ind1 ind2 eta low up s = cx_sbx_bounded O eta low up ind1 ind2 s) /\
  (forall individual mu sigma indpb s,
     mutGaussian O individual mu sigma indpb s = mut_gaussian O mu sigma indpb individual s) /\
  (forall individual eta low up indpb s,
     mutPolynomialBounded O individual eta low up indpb s = mut_poly O eta low up indpb individual s) /\
  (forall ind1 st1 ind2 st2 alpha s,
     cxESBlend O ind1 st1 ind2 st2 alpha s = cx_es_blend O alpha ind1 st1 ind2 st2 s) /\
  (div_lawful O -> forall individual st c indpb s,
     mutESLogNormal O individual st c indpb s = mut_es_lognormal O c indpb individual st s).
Proof. exact source_is_model. Qed.
Print Assumptions C10_gen_source_is_model.

(* [div_lawful O]: a division of the number record either returns or raises ZeroDivisionError (Proofs/C10_gen_equiv.v);
   it holds for both instances the model is used at *)
Theorem C10_gen_number_records_lawful : div_lawful FOps /\ forall eps, div_lawful (ROps eps).
Proof. exact number_records_lawful. Qed.
Print Assumptions C10_gen_number_records_lawful.

Theorem C10_gen_sbx_bounded_defined_in_bounds : forall eps, 0 <= eps -> forall eta low up ind1 ind2,
  0 <= eta ->
  let size := Nat.min (length ind1) (length ind2) in
  let lows := firstn size (bvals low size) in
  let ups := firstn size (bvals up size) in
  bnd_long low size -> bnd_long up size ->
  inbl lows ups ind1 -> inbl lows ups ind2 ->
  forall us, Forall in01 us -> (3 * size <= length us)%nat ->
  exists c1 c2 us',
    cxSimulatedBinaryBounded (ROps eps) ind1 ind2 eta low up (rs us) = Ok ((c1, c2), rs us') /\
    length c1 = length ind1 /\ length c2 = length ind2 /\
    inbl lows ups c1 /\ inbl lows ups c2 /\
    (forall i, (i < size)%nat -> nth i lows 0 <= nth i c1 0 <= nth i ups 0 /\
                                 nth i lows 0 <= nth i c2 0 <= nth i ups 0) /\
    (forall i, (size <= i)%nat -> nth i c1 0 = nth i ind1 0 /\ nth i c2 0 = nth i ind2 0).
Proof. exact gen_sbx_bounded_defined_in_bounds. Qed.
Print Assumptions C10_gen_sbx_bounded_defined_in_bounds.

Theorem C10_gen_poly_defined_in_bounds : forall eps eta low up indpb ind,
  0 <= eta ->
  let size := length ind in
  let lows := bvals low size in
  let ups := bvals up size in
  bnd_long low size -> bnd_long up size ->
  ltl3 lows ups ind -> inbl lows ups ind ->
  forall us, Forall in01 us -> (2 * size <= length us)%nat ->
  exists c us',
    mutPolynomialBounded (ROps eps) ind eta low up indpb (rs us) = Ok (c, rs us') /\
    length c = length ind /\
    forall i, (i < length ind)%nat -> nth i lows 0 <= nth i c 0 <= nth i ups 0.
Proof. exact gen_poly_defined_in_bounds. Qed.
Print Assumptions C10_gen_poly_defined_in_bounds.

Theorem C10_gen_blend_sum : forall eps alpha ind1 ind2 s c1 c2 s',
  cxBlend (ROps eps) ind1 ind2 alpha s = Ok ((c1, c2), s') ->
  length c1 = length ind1 /\ length c2 = length ind2 /\
  forall i, nth i c1 0 + nth i c2 0 = nth i ind1 0 + nth i ind2 0.
Proof. exact gen_blend_sum. Qed.
Print Assumptions C10_gen_blend_sum.

Theorem C10_gen_blend_interval : forall eps alpha ind1 ind2, 0 <= alpha ->
  spec (Nat.min (length ind1) (length ind2)) (cxBlend (ROps eps) ind1 ind2 alpha)
       (fun c => blend_ok alpha ind1 ind2 (fst c) (snd c)).
Proof. exact gen_blend_interval. Qed.
Print Assumptions C10_gen_blend_interval.

Theorem C10_gen_sbx_defined_sum : forall eps eta ind1 ind2, 0 <= eta ->
  spec (Nat.min (length ind1) (length ind2)) (cxSimulatedBinary (ROps eps) ind1 ind2 eta)
       (fun c => sum_kept ind1 ind2 (fst c) (snd c)).
Proof. exact gen_sbx_defined_sum. Qed.
Print Assumptions C10_gen_sbx_defined_sum.

Theorem C10_gen_es_blend_interval : forall eps alpha g1 s1 g2 s2, 0 <= alpha ->
  spec (2 * length g1) (cxESBlend (ROps eps) g1 s1 g2 s2 alpha)
    (fun r => let '(a, b, c, d) := r in
       sum_kept g1 g2 a c /\ sum_kept s1 s2 b d /\
       (forall i, (i < min4 g1 s1 g2 s2)%nat ->
          within alpha (nth i g1 0) (nth i g2 0) (nth i a 0) /\ within alpha (nth i g1 0) (nth i g2 0) (nth i c 0) /\
          within alpha (nth i s1 0) (nth i s2 0) (nth i b 0) /\ within alpha (nth i s1 0) (nth i s2 0) (nth i d 0)) /\
       (forall i, (min4 g1 s1 g2 s2 <= i)%nat ->
          nth i a 0 = nth i g1 0 /\ nth i b 0 = nth i s1 0 /\ nth i c 0 = nth i g2 0 /\ nth i d 0 = nth i s2 0)).
Proof. exact gen_es_blend_interval. Qed.
Print Assumptions C10_gen_es_blend_interval.

Theorem C10_gen_gauss_indpb0_identity : forall eps mu sigma ind s c s', draws_ok s ->
  mutGaussian (ROps eps) ind mu sigma 0 s = Ok (c, s') -> c = ind.
Proof. exact gen_gauss_indpb0_identity. Qed.
Print Assumptions C10_gen_gauss_indpb0_identity.

Theorem C10_gen_gauss_indpb0_defined : forall eps mu sigma ind,
  bnd_long mu (length ind) -> bnd_long sigma (length ind) ->
  spec (length ind) (mutGaussian (ROps eps) ind mu sigma 0) (fun c => c = ind).
Proof. exact gen_gauss_indpb0_defined. Qed.
Print Assumptions C10_gen_gauss_indpb0_defined.

Theorem C10_gen_eslognormal_len_scaled : forall eps c indpb g st s g' st' s',
  mutESLogNormal (ROps eps) g st c indpb s = Ok ((g', st'), s') ->
  length g' = length g /\ length st' = length st /\ Forall2 scaled st st'.
Proof. exact gen_eslognormal_len_scaled. Qed.
Print Assumptions C10_gen_eslognormal_len_scaled.

Theorem C10_gen_eslognormal_strategy_pos : forall eps c indpb g st s g' st' s',
  mutESLogNormal (ROps eps) g st c indpb s = Ok ((g', st'), s') ->
  forall i, 0 < nth i st 0 -> 0 < nth i st' 0.
Proof. exact gen_eslognormal_strategy_pos. Qed.
Print Assumptions C10_gen_eslognormal_strategy_pos.

Theorem C10_gen_eslognormal_indpb0_identity : forall eps c g st s g' st' s', draws_ok s ->
  mutESLogNormal (ROps eps) g st c 0 s = Ok ((g', st'), s') -> g' = g /\ st' = st.
Proof. exact gen_eslognormal_indpb0_identity. Qed.
Print Assumptions C10_gen_eslognormal_indpb0_identity.

Theorem C10_gen_eslognormal_indpb0_defined : forall eps c g st z us,
  g <> [] -> Forall in01 us -> (length g <= length us)%nat ->
  exists us', mutESLogNormal (ROps eps) g st c 0 (EGauss 0 1 z :: rs us) = Ok ((g, st), rs us').
Proof. exact gen_eslognormal_indpb0_defined. Qed.
Print Assumptions C10_gen_eslognormal_indpb0_defined.

