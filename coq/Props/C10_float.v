(* Property C10 at the float level -- theorems only.
   [FOps] is the binary64 instance of the model (Model/C10_RealOps.v): PrimFloat arithmetic and comparisons,
   the results of ** / math.exp / random.* taken from the event stream.  [clip FOps c xl xu] is the model of the
   code's final  min(max(c, xl), xu)  (crossover.py: `c1 = min(max(c1, xl), xu)`, `c2 = min(max(c2, xl), xu)`;
   mutation.py: `x = min(max(x, xl), xu)`) with Python's two-argument min / max:
       pymax a b = if a < b then b else a        pymin a b = if b < a then b else a
   (first argument unless the second is strictly larger / smaller; comparisons with NaN are false).
   [x <=? y], [x <? y] are the IEEE comparisons of PrimFloat, [is_nan] its NaN test.
   [clamped xl xu y]  :=  is_nan y = true  \/  (xl <=? y = true /\ y <=? xu = true).

   What is NOT proved: that the value entering the clamp is never NaN (and that no exception is raised) for
   in-bounds parents in binary64; over R this is C10_sbx_bounded_defined_in_bounds / C10_poly_defined_in_bounds
   (Props/C10.v).  Closing the gap needs a rounding analysis of `**`, which the float model takes as an oracle.

   Axioms: the standard library's specification of primitive floats (FloatAxioms.ltb_spec, leb_spec, eqb_spec). *)
From Coq Require Import List Bool Floats.
From DV Require Import Model.C10_RealOps Proofs.C10_FloatClamp.
Import ListNotations.
Local Open Scope float_scope.

(* ---- the clamp, for ALL binary64 c, xl, xu with xl <= xu (so neither bound is NaN) ---- *)
Theorem C10_float_clamp : forall c xl xu, (xl <=? xu) = true ->
  (clip FOps c xl xu = c \/ clip FOps c xl xu = xl \/ clip FOps c xl xu = xu) /\
  (is_nan c = false -> (xl <=? clip FOps c xl xu) = true /\ (clip FOps c xl xu <=? xu) = true) /\
  (is_nan c = true -> is_nan (clip FOps c xl xu) = true).
Proof. exact fclip_spec. Qed.
Print Assumptions C10_float_clamp.

(* ... and a NaN before the clamp really comes out of it (the side condition is not vacuous) *)
Theorem C10_float_clamp_nan_propagates :
  clip FOps nan 0 1 = nan /\ is_nan (clip FOps nan 0 1) = true /\ (0 <=? 1) = true.
Proof. exact fclip_nan_propagates. Qed.
Print Assumptions C10_float_clamp_nan_propagates.

(* ---- one gene of mutPolynomialBounded, any event stream: the first event is the draw u of
   `random.random() <= indpb`; not selected: the gene comes back bit for bit and nothing else is consumed;
   selected: the result is a clamped value ---- *)
Theorem C10_float_poly_gene : forall eta indpb xl xu x s y s',
  poly_gene FOps eta indpb xl xu x s = Ok (y, s') ->
  exists u s1, s = ERandom u :: s1 /\
    (((u <=? indpb) = false /\ y = x /\ s' = s1) \/
     ((u <=? indpb) = true /\ exists c, y = clip FOps c xl xu)).
Proof. exact poly_gene_float. Qed.
Print Assumptions C10_float_poly_gene.

(* ---- one locus of cxSimulatedBinaryBounded, any event stream ---- *)
Theorem C10_float_sbx_bounded_gene : forall eta xl xu a b s c1 c2 s',
  sbxb_gene FOps eta xl xu a b s = Ok ((c1, c2), s') ->
  (c1 = a /\ c2 = b) \/ ((exists d, c1 = clip FOps d xl xu) /\ (exists d, c2 = clip FOps d xl xu)).
Proof. exact sbxb_gene_float. Qed.
Print Assumptions C10_float_sbx_bounded_gene.

(* ---- the operators on binary64, for every event stream (any draws, any recorded ** results), no tolerance:
   if the call returns, lengths are kept and every gene is either the input gene, bit for bit, or a clamped value,
   which is NaN or inside [low_i, up_i] in float order whenever low_i <= up_i.
   [bound_at b i] = the scalar bound, or the i-th element of the bound sequence. ---- *)
Theorem C10_float_poly_clamped : forall eta low up indpb ind s out s',
  mut_poly FOps eta low up indpb ind s = Ok (out, s') ->
  length out = length ind /\
  forall i, (i < length ind)%nat ->
    let xl := bound_at low i in let xu := bound_at up i in
    nth i out 0 = nth i ind 0 \/
    ((exists c, nth i out 0 = clip FOps c xl xu) /\ ((xl <=? xu) = true -> clamped xl xu (nth i out 0))).
Proof. exact mut_poly_float. Qed.
Print Assumptions C10_float_poly_clamped.

Theorem C10_float_sbx_bounded_clamped : forall eta low up ind1 ind2 s c1 c2 s',
  cx_sbx_bounded FOps eta low up ind1 ind2 s = Ok ((c1, c2), s') ->
  let size := Nat.min (length ind1) (length ind2) in
  length c1 = length ind1 /\ length c2 = length ind2 /\
  (forall i, (size <= i)%nat -> nth i c1 0 = nth i ind1 0 /\ nth i c2 0 = nth i ind2 0) /\
  (forall i, (i < size)%nat ->
     let xl := bound_at low i in let xu := bound_at up i in
     (nth i c1 0 = nth i ind1 0 /\ nth i c2 0 = nth i ind2 0) \/
     ((exists d, nth i c1 0 = clip FOps d xl xu) /\ (exists d, nth i c2 0 = clip FOps d xl xu) /\
      ((xl <=? xu) = true -> clamped xl xu (nth i c1 0) /\ clamped xl xu (nth i c2 0)))).
Proof. exact cx_sbx_bounded_float. Qed.
Print Assumptions C10_float_sbx_bounded_clamped.

(* ---- the NaN alternative is reachable in the float MODEL (whose ** results come from the stream): with a
   recorded power of NaN the mutant of an in-bounds parent is NaN.  CPython's pow does not return NaN for these
   arguments; proving that is the rounding analysis this file does not contain. ---- *)
Theorem C10_float_nan_alternative_not_vacuous :
  exists s out s', mut_poly FOps 1 (Scalar 0) (Scalar 1) 1 [0x1p-1] s = Ok (out, s') /\
                   is_nan (nth 0 out 0) = true.
Proof. exact mut_poly_nan_propagates. Qed.
Print Assumptions C10_float_nan_alternative_not_vacuous.
