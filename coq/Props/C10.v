(* Property C10 — theorems only.  Model: Model/C10_RealOps.v; real instance and lemmas: Proofs/C10_RealOps.v *)
From Coq Require Import List Reals.
From DV Require Import Model.C10_RealOps Proofs.C10_RealOps.
Import ListNotations.
Local Open Scope R_scope.

Theorem C10_blend_gene : forall eps alpha x1 x2, 0 <= alpha ->
  spec 1 (blend_gene (ROps eps) alpha x1 x2) (blend_post alpha x1 x2).
Proof. exact blend_gene_spec. Qed.
Print Assumptions C10_blend_gene.
