(* Property C10 — theorems only.
   Model: Model/C10_RealOps.v (deap/tools/crossover.py, deap/tools/mutation.py), here at its
   real-number instance [ROps eps] of Proofs/C10_RealOps.v: + - * / exact, x ** y = [pwR]
   (defined exactly where CPython's float ** yields a float for a base >= 0; a negative base counts
   as undefined), math.exp = exp, the guard constant 1e-14 = any eps >= 0.

   Reading of the outcomes:  [Ok]   the operator returns;
                             [Raise] Python raises (ZeroDivisionError, IndexError) or a complex
                                     number would appear;
                             [Stuck] the supplied event stream does not fit the program.
   "Finite real gene" = the model returns [Ok] with a real number (DESIGN Appendix B.6); IEEE
   rounding/overflow is outside these theorems.

   [rs us] is the event stream in which random.random() returns us_0, us_1, ...;
   [in01 u] is 0 <= u < 1.
   [spec k m Q]  :=  for every us with all draws in [0,1) and at least k of them, m (rs us) = Ok (a, rs us')
                     with us = pre ++ us', |pre| <= k and Q a        (see C10_spec_meaning). *)
From Coq Require Import List Reals Lra Lia.
From DV Require Import Model.C10_RealOps Proofs.C10_RealOps.
Import ListNotations.
Local Open Scope R_scope.

Theorem C10_spec_meaning : forall A k (m : M R A) (Q : A -> Prop), spec k m Q ->
  forall us, Forall in01 us -> (k <= length us)%nat ->
  exists a us', m (rs us) = Ok (a, rs us') /\ Q a /\ Forall in01 us' /\
                (length us' <= length us <= length us' + k)%nat.
Proof. exact @spec_elim. Qed.
Print Assumptions C10_spec_meaning.

(* ---- bounded SBX: defined (every divisor non-zero, every power base in its domain) and in bounds ----
   for any crowding degree eta >= 0, scalar or per-gene bounds (a sequence at least `size` long),
   parents inside their bounds at every locus below size = min(len); low_i <= up_i follows from that.
   [inbl lows ups l]: lows_i <= l_i <= ups_i wherever all three exist. *)
Theorem C10_sbx_bounded_defined_in_bounds : forall eps, 0 <= eps -> forall eta low up ind1 ind2,
  0 <= eta ->
  let size := Nat.min (length ind1) (length ind2) in
  let lows := firstn size (bvals low size) in
  let ups := firstn size (bvals up size) in
  bnd_long low size -> bnd_long up size ->
  inbl lows ups ind1 -> inbl lows ups ind2 ->
  forall us, Forall in01 us -> (3 * size <= length us)%nat ->
  exists c1 c2 us',
    cx_sbx_bounded (ROps eps) eta low up ind1 ind2 (rs us) = Ok ((c1, c2), rs us') /\
    length c1 = length ind1 /\ length c2 = length ind2 /\
    inbl lows ups c1 /\ inbl lows ups c2 /\
    (forall i, (i < size)%nat -> nth i lows 0 <= nth i c1 0 <= nth i ups 0 /\
                                 nth i lows 0 <= nth i c2 0 <= nth i ups 0) /\
    (forall i, (size <= i)%nat -> nth i c1 0 = nth i ind1 0 /\ nth i c2 0 = nth i ind2 0).
Proof. exact cx_sbx_bounded_defined_in_bounds. Qed.
Print Assumptions C10_sbx_bounded_defined_in_bounds.

(* ---- bounded polynomial mutation: defined and in bounds, any eta >= 0, any indpb ---- *)
Theorem C10_poly_defined_in_bounds : forall eps eta low up indpb ind,
  0 <= eta ->
  let size := length ind in
  let lows := bvals low size in
  let ups := bvals up size in
  bnd_long low size -> bnd_long up size ->
  ltl3 lows ups ind ->                       (* low_i < up_i at every gene *)
  inbl lows ups ind ->                       (* low_i <= x_i <= up_i *)
  forall us, Forall in01 us -> (2 * size <= length us)%nat ->
  exists c us',
    mut_poly (ROps eps) eta low up indpb ind (rs us) = Ok (c, rs us') /\
    length c = length ind /\
    forall i, (i < length ind)%nat -> nth i lows 0 <= nth i c 0 <= nth i ups 0.
Proof. exact mut_poly_defined_in_bounds. Qed.
Print Assumptions C10_poly_defined_in_bounds.

(* ---- over R the final clamp min(max(c, xl), xu) never acts -------------------------------------------
   bounded SBX, one locus (a, b = the parents' genes): either both are returned unchanged, or the children
   are the two UNCLIPPED values c1 <= (a+b)/2 <= c2 (in either order), already inside [xl, xu]
   (because beta_q <= beta); polynomial mutation: delta_q lies in [-delta_1, delta_2].
   So the clamp only ever corrects floating-point rounding. *)
Theorem C10_sbx_bounded_gene_shape : forall eps, 0 <= eps -> forall eta xl xu a b,
  0 <= eta -> xl <= a <= xu -> xl <= b <= xu ->
  spec 3 (sbxb_gene (ROps eps) eta xl xu a b)
    (fun c => c = (a, b) \/
              exists c1 c2, (c = (c1, c2) \/ c = (c2, c1)) /\
                            xl <= c1 <= (a + b) / 2 /\ (a + b) / 2 <= c2 <= xu).
Proof. exact sbxb_gene_shape. Qed.
Print Assumptions C10_sbx_bounded_gene_shape.

Theorem C10_poly_gene_shape : forall eps eta indpb xl xu x,
  0 <= eta -> xl < xu -> xl <= x <= xu ->
  spec 2 (poly_gene (ROps eps) eta indpb xl xu x)
    (fun y => y = x \/ exists dq, - ((x - xl) / (xu - xl)) <= dq <= (xu - x) / (xu - xl) /\
                                  y = x + dq * (xu - xl) /\ xl <= y <= xu).
Proof. exact poly_gene_shape. Qed.
Print Assumptions C10_poly_gene_shape.

(* ---- sums: c1_i + c2_i = x1_i + x2_i at every locus, for ANY event stream (any gamma / beta) ---- *)
Theorem C10_blend_sum : forall eps alpha ind1 ind2 s c1 c2 s',
  cx_blend (ROps eps) alpha ind1 ind2 s = Ok ((c1, c2), s') ->
  length c1 = length ind1 /\ length c2 = length ind2 /\
  forall i, nth i c1 0 + nth i c2 0 = nth i ind1 0 + nth i ind2 0.
Proof. exact cx_blend_sum. Qed.
Print Assumptions C10_blend_sum.

Theorem C10_sbx_sum : forall eps eta ind1 ind2 s c1 c2 s',
  cx_sbx (ROps eps) eta ind1 ind2 s = Ok ((c1, c2), s') ->
  length c1 = length ind1 /\ length c2 = length ind2 /\
  forall i, nth i c1 0 + nth i c2 0 = nth i ind1 0 + nth i ind2 0.
Proof. exact cx_sbx_sum. Qed.
Print Assumptions C10_sbx_sum.

Theorem C10_es_blend_sum : forall eps alpha g1 s1 g2 s2 s a b c d s',
  cx_es_blend (ROps eps) alpha g1 s1 g2 s2 s = Ok ((a, b, c, d), s') ->
  sum_kept g1 g2 a c /\ sum_kept s1 s2 b d.
Proof. exact cx_es_blend_sum. Qed.
Print Assumptions C10_es_blend_sum.

(* ---- blend: defined; children within [min - alpha*w, max + alpha*w]; sums kept; tails untouched ---- *)
Theorem C10_blend_interval : forall eps alpha ind1 ind2, 0 <= alpha ->
  spec (Nat.min (length ind1) (length ind2)) (cx_blend (ROps eps) alpha ind1 ind2)
       (fun c => blend_ok alpha ind1 ind2 (fst c) (snd c)).
Proof. exact cx_blend_spec. Qed.
Print Assumptions C10_blend_interval.

Theorem C10_es_blend_interval : forall eps alpha g1 s1 g2 s2, 0 <= alpha ->
  spec (2 * length g1) (cx_es_blend (ROps eps) alpha g1 s1 g2 s2)
    (fun r => let '(a, b, c, d) := r in
       sum_kept g1 g2 a c /\ sum_kept s1 s2 b d /\
       (forall i, (i < min4 g1 s1 g2 s2)%nat ->
          within alpha (nth i g1 0) (nth i g2 0) (nth i a 0) /\ within alpha (nth i g1 0) (nth i g2 0) (nth i c 0) /\
          within alpha (nth i s1 0) (nth i s2 0) (nth i b 0) /\ within alpha (nth i s1 0) (nth i s2 0) (nth i d 0)) /\
       (forall i, (min4 g1 s1 g2 s2 <= i)%nat ->
          nth i a 0 = nth i g1 0 /\ nth i b 0 = nth i s1 0 /\ nth i c 0 = nth i g2 0 /\ nth i d 0 = nth i s2 0)).
Proof. exact cx_es_blend_spec_idx. Qed.
Print Assumptions C10_es_blend_interval.

(* ---- SBX: defined for every eta >= 0 (beta's base is >= 0, exponent 1/(eta+1) > 0), sums kept ---- *)
Theorem C10_sbx_defined_sum : forall eps eta ind1 ind2, 0 <= eta ->
  spec (Nat.min (length ind1) (length ind2)) (cx_sbx (ROps eps) eta ind1 ind2)
       (fun c => sum_kept ind1 ind2 (fst c) (snd c)).
Proof. exact cx_sbx_spec. Qed.
Print Assumptions C10_sbx_defined_sum.

(* ---- Gaussian mutation ---- *)
Theorem C10_gauss_len : forall eps mu sigma indpb ind s c s',
  mut_gaussian (ROps eps) mu sigma indpb ind s = Ok (c, s') -> length c = length ind.
Proof. exact mut_gaussian_length. Qed.
Print Assumptions C10_gauss_len.

Theorem C10_gauss_indpb0_identity : forall eps mu sigma ind s c s', draws_ok s ->
  mut_gaussian (ROps eps) mu sigma 0 ind s = Ok (c, s') -> c = ind.
Proof. exact mut_gaussian_indpb0. Qed.
Print Assumptions C10_gauss_indpb0_identity.

(* ... and it does return, consuming one random() per gene and no gauss() *)
Theorem C10_gauss_indpb0_defined : forall eps mu sigma ind,
  bnd_long mu (length ind) -> bnd_long sigma (length ind) ->
  spec (length ind) (mut_gaussian (ROps eps) mu sigma 0 ind) (fun c => c = ind).
Proof. exact mut_gaussian_indpb0_spec. Qed.
Print Assumptions C10_gauss_indpb0_defined.

(* ---- log-normal self-adaptive mutation ---- *)
(* lengths kept; every strategy value is multiplied by a strictly positive factor (exp(...) or 1) *)
Theorem C10_eslognormal_len_scaled : forall eps c indpb g st s g' st' s',
  mut_es_lognormal (ROps eps) c indpb g st s = Ok ((g', st'), s') ->
  length g' = length g /\ length st' = length st /\ Forall2 scaled st st'.
Proof. exact mut_es_lognormal_inv. Qed.
Print Assumptions C10_eslognormal_len_scaled.

Theorem C10_eslognormal_strategy_pos : forall eps c indpb g st s g' st' s',
  mut_es_lognormal (ROps eps) c indpb g st s = Ok ((g', st'), s') ->
  forall i, 0 < nth i st 0 -> 0 < nth i st' 0.
Proof. exact mut_es_lognormal_strategy_pos. Qed.
Print Assumptions C10_eslognormal_strategy_pos.

Theorem C10_eslognormal_indpb0_identity : forall eps c g st s g' st' s', draws_ok s ->
  mut_es_lognormal (ROps eps) c 0 g st s = Ok ((g', st'), s') -> g' = g /\ st' = st.
Proof. exact mut_es_lognormal_indpb0. Qed.
Print Assumptions C10_eslognormal_indpb0_identity.

(* ... and with indpb = 0 it does return on every non-empty individual: the stream holds the one
   random.gauss(0, 1) drawn before the loop, then one random.random() per gene *)
Theorem C10_eslognormal_indpb0_defined : forall eps c g st z us,
  g <> [] -> Forall in01 us -> (length g <= length us)%nat ->
  exists us', mut_es_lognormal (ROps eps) c 0 g st (EGauss 0 1 z :: rs us) = Ok ((g, st), rs us').
Proof. exact mut_es_lognormal_indpb0_defined. Qed.
Print Assumptions C10_eslognormal_indpb0_defined.

(* ---- all seven operators return the very objects they were given (individual and strategy list) ---- *)
Theorem C10_same_objects : forall eps,
  (forall alpha i1 i2 s o1 o2 s', op_blend (ROps eps) alpha i1 i2 s = Ok ((o1, o2), s') ->
     same_obj i1 o1 /\ same_obj i2 o2 /\ strat o1 = strat i1 /\ strat o2 = strat i2) /\
  (forall eta i1 i2 s o1 o2 s', op_sbx (ROps eps) eta i1 i2 s = Ok ((o1, o2), s') ->
     same_obj i1 o1 /\ same_obj i2 o2 /\ strat o1 = strat i1 /\ strat o2 = strat i2) /\
  (forall eta low up i1 i2 s o1 o2 s', op_sbx_bounded (ROps eps) eta low up i1 i2 s = Ok ((o1, o2), s') ->
     same_obj i1 o1 /\ same_obj i2 o2 /\ strat o1 = strat i1 /\ strat o2 = strat i2) /\
  (forall alpha i1 i2 s o1 o2 s', op_es_blend (ROps eps) alpha i1 i2 s = Ok ((o1, o2), s') ->
     same_obj i1 o1 /\ same_obj i2 o2) /\
  (forall mu sigma indpb i s o s', op_gaussian (ROps eps) mu sigma indpb i s = Ok (o, s') ->
     same_obj i o /\ strat o = strat i) /\
  (forall eta low up indpb i s o s', op_poly (ROps eps) eta low up indpb i s = Ok (o, s') ->
     same_obj i o /\ strat o = strat i) /\
  (forall c indpb i s o s', op_es_lognormal (ROps eps) c indpb i s = Ok (o, s') -> same_obj i o).
Proof.
  intro eps. split; [|split; [|split; [|split; [|split; [|split]]]]]; intros.
  - eapply op_blend_same; eassumption.
  - eapply op_sbx_same; eassumption.
  - eapply op_sbx_bounded_same; eassumption.
  - eapply op_es_blend_same; eassumption.
  - eapply op_gaussian_same; eassumption.
  - eapply op_poly_same; eassumption.
  - eapply op_es_lognormal_same; eassumption.
Qed.
Print Assumptions C10_same_objects.

(* ---- non-vacuity: the hypotheses are satisfiable, with genes exactly on a bound and equal parents ---- *)
Example C10_nonvacuous :
  let ind1 := [0; 1; / 2] in let ind2 := [1; 1; / 4] in
  let size := Nat.min (length ind1) (length ind2) in
  bnd_long (Scalar 0) size /\ bnd_long (PerGene [1; 1; 1; 7]) size /\
  inbl (firstn size (bvals (Scalar 0) size)) (firstn size (bvals (PerGene [1; 1; 1; 7]) size)) ind1 /\
  inbl (firstn size (bvals (Scalar 0) size)) (firstn size (bvals (PerGene [1; 1; 1; 7]) size)) ind2 /\
  ltl3 (bvals (Scalar 0) 3) (bvals (PerGene [1; 1; 1; 7]) 3) ind1 /\
  Forall in01 [0; / 2; / 4; 0; 0; 0; 0; 0; / 3] /\ draws_ok (rs [0; / 2]).
Proof.
  cbn. unfold inb, in01. repeat split; try lia; try lra.
  - repeat constructor; lra.
  - repeat constructor; unfold in01; lra.
Qed.
