(* Property C13 — theorems about the EXECUTABLE list model (Model/C13_CMAexec.v, the model the
   correspondence evaluates against /repo), generic in the number type, and about its instance at
   Coq's real numbers with the real logarithm.  Proofs in Proofs/C13_CMAexec.v, Proofs/C13_WeightsR.v. *)
From Coq Require Import List Reals Permutation.
From DV Require Import Model.C13_CMAexec Proofs.C13_CMAexec Proofs.C13_WeightsR Proofs.C13_SortR.
Import ListNotations.

(* generate returns exactly one individual per drawn row (lambda_ rows), each built by the given
   initialiser from a vector of the problem dimension *)
Theorem C13_generate_count_dim :
  forall (T : Type) (Nm : Num T) (I : Type) (P : params) (st : state)
         (ind_init : list T -> I) (arz : list (list T)),
    length (s_centroid st) = p_dim P -> length (s_BD st) = p_dim P ->
    exists xs : list (list T),
      generate Nm P st ind_init arz = map ind_init xs /\
      length xs = length arz /\ Forall (fun x => length x = p_dim P) xs.
Proof. exact @generate_count_dim. Qed.
Print Assumptions C13_generate_count_dim.

(* the population sort of update: a permutation of the input ... *)
Theorem C13_sort_pop_perm :
  forall (T : Type) (Nm : Num T) (pop : list (list T * list T)),
    Permutation pop (sort_pop Nm pop).
Proof. exact @sort_pop_perm. Qed.
Print Assumptions C13_sort_pop_perm.

(* ... that does not depend on the order of the input when no two different members tie
   (pairwise distinct fitnesses), for any comparison that is asymmetric and negatively transitive
   on fitness tuples (true of CPython's tuple < on finite floats) *)
Theorem C13_sort_pop_order_independent :
  forall (T : Type) (Nm : Num T) (pop1 pop2 : list (list T * list T)),
    let klt := fun a b : list T * list T => lex_ltb Nm (fst a) (fst b) in
    (forall a b c, klt a b = false -> klt b c = false -> klt a c = false) ->
    (forall a b, klt a b = true -> klt b a = false) ->
    Permutation pop1 pop2 ->
    (forall a b, In a pop1 -> In b pop1 -> klt a b = false -> klt b a = false -> a = b) ->
    sort_pop Nm pop1 = sort_pop Nm pop2.
Proof. exact @sort_pop_order_independent. Qed.
Print Assumptions C13_sort_pop_order_independent.

(* at the real numbers CPython's tuple comparison is a strict total order, so the update of the
   executable model is independent of the order of a population with pairwise distinct fitness
   tuples -- no hypothesis on the comparison left *)
Theorem C13_update_order_independent_R :
  forall (eigh : list (list R) -> list R * list (list R)) (P : params) (st : state)
         (pop1 pop2 : list (list R * list R)),
    Permutation pop1 pop2 ->
    (forall a b, In a pop1 -> In b pop1 -> fst a = fst b -> a = b) ->
    update RNum eigh P st pop1 = update RNum eigh P st pop2.
Proof. exact update_order_independent_R. Qed.
Print Assumptions C13_update_order_independent_R.

(* the weights computed by the executable computeParams at the real numbers, with the real ln:
   mu of them, positive, non-increasing, summing to one (any scheme, any mu >= 1) *)
Theorem C13_weights_pos_noninc_sum1_R :
  forall (dim lambda_ : nat) (chiN : R) (k : kargs),
    let mu := getd (k_mu k) (Nat.div lambda_ 2) in
    (1 <= mu)%nat ->
    let w := p_weights (compute_params RNum dim lambda_ chiN k) in
    length w = mu /\
    (forall i, (i < mu)%nat -> (0 < nth i w 0)%R) /\
    (forall i j, (i <= j < mu)%nat -> (nth j w 0 <= nth i w 0)%R) /\
    vsum RNum w = 1%R.
Proof. exact weights_pos_noninc_sum1_R. Qed.
Print Assumptions C13_weights_pos_noninc_sum1_R.

Example C13_weights_R_example :
  let w := p_weights (compute_params RNum 5 4 0%R (@mkKargs R None None Superlinear None None None None None None)) in
  length w = 2%nat /\ vsum RNum w = 1%R.
Proof. exact weights_R_example. Qed.
