(* Property C13 — theorems only (placeholder, extended below). *)
From Coq Require Import List.
From DV Require Import Model.C13_CMAexec.
Theorem C13_placeholder : True. Proof. exact I. Qed.
Print Assumptions C13_placeholder.
