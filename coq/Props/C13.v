(* Property C13 — theorems only.  Algebraic model Model/C13_CMAalg.v (transcription of
   deap/cma.py Strategy), published equations Model/C13_CMAspec.v; proofs in Proofs/C13_CMAalg.v.
   R is an arbitrary real closed field, n the dimension, mu the number of parents; exp, ln, eigh,
   argsort are oracles and each theorem states the hypotheses on them it needs.
   (The theorems about the executable list model and about the real logarithm are in Props/C13_exec.v.) *)
From mathcomp Require Import all_ssreflect fingroup perm all_algebra.
From DV Require Import Model.C13_CMAalg Model.C13_CMAspec Proofs.C13_CMAalg.
Set Implicit Arguments.
Unset Strict Implicit.
Unset Printing Implicit Defensive.
Import GRing.Theory Num.Theory Order.TTheory.
Local Open Scope ring_scope.

(* the recombination weights computed by computeParams are positive, non-increasing and sum to one
   (three schemes, any mu >= 1; ln only needs to be increasing) *)
Theorem C13_weights_pos_noninc_sum1 :
  forall (R : rcfType) (n mu : nat) (ln : R -> R),
    (forall x y : R, 0 < x -> x < y -> ln x < ln y) -> (0 < mu)%N ->
    forall (chiN : R) (k : kargs R),
    let w := p_weights (compute_params n mu ln chiN k) in
    [/\ forall i : 'I_mu, 0 < w 0 i,
        forall i j : 'I_mu, (i <= j)%N -> w 0 j <= w 0 i
      & \sum_(i < mu) w 0 i = 1].
Proof. exact: weights_pos_noninc_sum1. Qed.
Print Assumptions C13_weights_pos_noninc_sum1.

(* with no user-supplied rate, computeParams returns the documented defaults (docstring table) *)
Theorem C13_computeParams_is_documented :
  forall (R : rcfType) (n mu : nat) (ln : R -> R),
    (forall x y : R, 0 < x -> x < y -> ln x < ln y) -> (0 < mu)%N ->
    forall s : scheme,
    compute_params n mu ln (chiN_of R n) (mkKargs s None None None None None)
    = default_params n mu ln s.
Proof. exact: computeParams_is_documented. Qed.
Print Assumptions C13_computeParams_is_documented.

(* the new centroid is the weighted mean of the rows of population[0:mu] ... *)
Theorem C13_centroid_is_weighted_mean :
  forall (R : rcfType) (n mu : nat) (exp : R -> R) (eigh : 'M_n -> 'rV_n * 'M_n)
         (argsort : 'rV_n -> 'S_n) (P : params R mu) (st : state R n) (X : 'M_(mu, n)),
    s_centroid (update_sorted exp eigh argsort P st X) = \sum_(i < mu) p_weights P 0 i *: row i X.
Proof. exact: centroid_is_weighted_mean. Qed.
Print Assumptions C13_centroid_is_weighted_mean.

(* ... and those rows are the mu best: the sorted population is a permutation of the input, its
   i-th row is used as row i, and every earlier element is at least as good as every later one *)
Theorem C13_best_mu_are_best :
  forall (R : rcfType) (n mu : nat) (disp : unit) (K : orderType disp)
         (pop : seq (K * 'rV[R]_n)) (d : K * 'rV[R]_n),
    perm_eq (sort_pop pop) pop /\
    (forall i : 'I_mu, (i < size pop)%N -> row i (best_mu mu pop) = (nth d (sort_pop pop) i).2) /\
    (forall i j, (i <= j < size pop)%N ->
       ((nth d (sort_pop pop) j).1 <= (nth d (sort_pop pop) i).1)%O).
Proof. exact: best_mu_are_best. Qed.
Print Assumptions C13_best_mu_are_best.

(* the transcription of Strategy.update computes exactly Hansen's equations (Spec.cma_update):
   centroid, p_sigma, p_c (with h_sigma), rank-one + rank-mu covariance, step size *)
Theorem C13_update_is_published :
  forall (R : rcfType) (n mu : nat) (exp : R -> R) (eigh : 'M_n -> 'rV_n * 'M_n)
         (argsort : 'rV_n -> 'S_n) (P : params R mu) (st : state R n) (X : 'M_(mu, n)),
    s_sigma st != 0 -> \sum_(i < mu) p_weights P 0 i = 1 ->
    let st' := update_sorted exp eigh argsort P st X in
    (s_centroid st', s_ps st', s_pc st', s_C st', s_sigma st') = cma_update exp P st X.
Proof. exact: update_is_published. Qed.
Print Assumptions C13_update_is_published.

(* the same for the complete update on an unsorted evaluated population *)
Theorem C13_update_pop_is_published :
  forall (R : rcfType) (n mu : nat) (exp : R -> R) (eigh : 'M_n -> 'rV_n * 'M_n)
         (argsort : 'rV_n -> 'S_n) (disp : unit) (K : orderType disp)
         (P : params R mu) (st : state R n) (pop : seq (K * 'rV_n)),
    s_sigma st != 0 -> \sum_(i < mu) p_weights P 0 i = 1 ->
    let st' := update exp eigh argsort P st pop in
    (s_centroid st', s_ps st', s_pc st', s_C st', s_sigma st') = cma_update exp P st (best_mu mu pop).
Proof. exact: update_pop_is_published. Qed.
Print Assumptions C13_update_pop_is_published.

(* B D^-1 B^T, which the code uses to whiten the step, is the inverse square root of C *)
Theorem C13_Cinvsqrt_correct :
  forall (R : rcfType) (n : nat) (st : state R n),
    consistent st -> (forall j, s_diagD st 0 j != 0) ->
    Cinvsqrt st *m s_C st *m Cinvsqrt st = 1%:M.
Proof. exact: Cinvsqrt_correct. Qed.
Print Assumptions C13_Cinvsqrt_correct.

(* order independence: any rearrangement of a population with pairwise distinct fitnesses gives
   the same state *)
Theorem C13_update_order_independent :
  forall (R : rcfType) (n mu : nat) (exp : R -> R) (eigh : 'M_n -> 'rV_n * 'M_n)
         (argsort : 'rV_n -> 'S_n) (disp : unit) (K : orderType disp)
         (P : params R mu) (st : state R n) (pop1 pop2 : seq (K * 'rV_n)),
    perm_eq pop1 pop2 -> uniq [seq p.1 | p <- pop1] ->
    update exp eigh argsort P st pop1 = update exp eigh argsort P st pop2.
Proof. exact: update_order_independent. Qed.
Print Assumptions C13_update_order_independent.

Theorem C13_C_symmetric_preserved :
  forall (R : rcfType) (n mu : nat) (exp : R -> R) (eigh : 'M_n -> 'rV_n * 'M_n)
         (argsort : 'rV_n -> 'S_n) (P : params R mu) (st : state R n) (X : 'M_(mu, n)),
    (s_C st)^T = s_C st ->
    (s_C (update_sorted exp eigh argsort P st X))^T = s_C (update_sorted exp eigh argsort P st X).
Proof. exact: C_symmetric_preserved. Qed.
Print Assumptions C13_C_symmetric_preserved.

Theorem C13_sigma_pos :
  forall (R : rcfType) (n mu : nat) (exp : R -> R) (eigh : 'M_n -> 'rV_n * 'M_n)
         (argsort : 'rV_n -> 'S_n) (P : params R mu) (st : state R n) (X : 'M_(mu, n)),
    (forall x, 0 < exp x) -> 0 < s_sigma st ->
    0 < s_sigma (update_sorted exp eigh argsort P st X).
Proof. exact: sigma_pos. Qed.
Print Assumptions C13_sigma_pos.

(* positive semi-definiteness is preserved for admissible rates (c1, cmu >= 0, c1 + cmu <= 1,
   0 <= cc <= 2, weights >= 0); strictly positive definite when c1 + cmu < 1 *)
Theorem C13_C_psd_preserved :
  forall (R : rcfType) (n mu : nat) (exp : R -> R) (eigh : 'M_n -> 'rV_n * 'M_n)
         (argsort : 'rV_n -> 'S_n) (P : params R mu) (st : state R n) (X : 'M_(mu, n)),
    rates_ok P -> p_ccov1 P + p_ccovmu P <= 1 -> psd (s_C st) ->
    psd (s_C (update_sorted exp eigh argsort P st X)).
Proof. exact: C_psd_preserved. Qed.
Print Assumptions C13_C_psd_preserved.

Theorem C13_C_pd_preserved :
  forall (R : rcfType) (n mu : nat) (exp : R -> R) (eigh : 'M_n -> 'rV_n * 'M_n)
         (argsort : 'rV_n -> 'S_n) (P : params R mu) (st : state R n) (X : 'M_(mu, n)),
    rates_ok P -> p_ccov1 P + p_ccovmu P < 1 -> pd (s_C st) ->
    pd (s_C (update_sorted exp eigh argsort P st X)).
Proof. exact: C_pd_preserved. Qed.
Print Assumptions C13_C_pd_preserved.

(* one update keeps the strategy consistent: C symmetric, B diag(diagD^2) B^T = C, B orthogonal,
   BD BD^T = C, sigma > 0 -- given the eigh contract on the new C *)
Theorem C13_update_consistent :
  forall (R : rcfType) (n mu : nat) (exp : R -> R) (eigh : 'M_n -> 'rV_n * 'M_n)
         (argsort : 'rV_n -> 'S_n) (P : params R mu) (st : state R n) (X : 'M_(mu, n)),
    (forall x, 0 < exp x) -> rates_ok P -> p_ccov1 P + p_ccovmu P <= 1 ->
    psd (s_C st) -> consistent st ->
    eigh_ok eigh (s_C (update_sorted exp eigh argsort P st X)) ->
    consistent (update_sorted exp eigh argsort P st X) /\
    psd (s_C (update_sorted exp eigh argsort P st X)).
Proof. exact: update_consistent. Qed.
Print Assumptions C13_update_consistent.

(* the freshly constructed strategy is consistent ... *)
Theorem C13_init_consistent :
  forall (R : rcfType) (n mu : nat) (ln : R -> R) (eigh : 'M_n -> 'rV_n * 'M_n)
         (argsort : 'rV_n -> 'S_n) (centroid : 'rV_n) (sigma : R) (cmatrix : option 'M_n) (k : kargs R),
    0 < sigma ->
    let C0 := if cmatrix is Some C0 then C0 else 1%:M in
    C0^T = C0 -> psd C0 -> eigh_ok eigh C0 ->
    consistent (init mu ln eigh argsort centroid sigma cmatrix k).2.
Proof. exact: init_consistent. Qed.
Print Assumptions C13_init_consistent.

(* ... and stays so after every sequence of updates (any length, any populations) *)
Theorem C13_run_consistent :
  forall (R : rcfType) (n mu : nat) (exp : R -> R) (eigh : 'M_n -> 'rV_n * 'M_n)
         (argsort : 'rV_n -> 'S_n) (P : params R mu) (st : state R n) (Xs : seq 'M_(mu, n)),
    (forall x, 0 < exp x) -> rates_ok P -> p_ccov1 P + p_ccovmu P <= 1 ->
    (forall C : 'M_n, C^T = C -> psd C -> eigh_ok eigh C) ->
    psd (s_C st) -> consistent st ->
    consistent (run exp eigh argsort P st Xs) /\ psd (s_C (run exp eigh argsort P st Xs)).
Proof. exact: run_consistent. Qed.
Print Assumptions C13_run_consistent.

(* the documented default rates are admissible (c1, cmu >= 0, c1 + cmu <= 1, 0 <= cc <= 2, weights >= 0),
   for every dimension n >= 1, every mu >= 1 and the three weight schemes ... *)
Theorem C13_default_rates_admissible :
  forall (R : rcfType) (n mu : nat) (ln : R -> R),
    (forall x y : R, 0 < x -> x < y -> ln x < ln y) -> (0 < mu)%N -> (0 < n)%N ->
    forall s : scheme,
    let P := default_params n mu ln s in
    rates_ok P /\ p_ccov1 P + p_ccovmu P <= 1.
Proof. exact: default_rates_admissible. Qed.
Print Assumptions C13_default_rates_admissible.

(* ... so a strategy constructed with the defaults from a symmetric positive semi-definite cmatrix
   (or the identity) is consistent after every sequence of updates *)
Theorem C13_default_run_consistent :
  forall (R : rcfType) (n mu : nat) (exp ln : R -> R) (eigh : 'M_n -> 'rV_n * 'M_n)
         (argsort : 'rV_n -> 'S_n),
    (forall x y : R, 0 < x -> x < y -> ln x < ln y) -> (0 < mu)%N -> (0 < n)%N ->
    forall (s : scheme) (centroid : 'rV_n) (sigma : R) (cmatrix : option 'M_n) (Xs : seq 'M_(mu, n)),
    (forall x, 0 < exp x) -> 0 < sigma ->
    let C0 := if cmatrix is Some C0 then C0 else 1%:M in
    C0^T = C0 -> psd C0 ->
    (forall C : 'M_n, C^T = C -> psd C -> eigh_ok eigh C) ->
    let Pst := init mu ln eigh argsort centroid sigma cmatrix (mkKargs s None None None None None) in
    consistent (run exp eigh argsort Pst.1 Pst.2 Xs).
Proof. exact: default_run_consistent. Qed.
Print Assumptions C13_default_run_consistent.

(* diagD stays strictly positive (so 1/diagD of the next update is defined) when c1 + cmu < 1 *)
Theorem C13_update_diagD_pos :
  forall (R : rcfType) (n mu : nat) (exp : R -> R) (eigh : 'M_n -> 'rV_n * 'M_n)
         (argsort : 'rV_n -> 'S_n) (P : params R mu) (st : state R n) (X : 'M_(mu, n)),
    rates_ok P -> p_ccov1 P + p_ccovmu P < 1 -> pd (s_C st) ->
    eigh_ok eigh (s_C (update_sorted exp eigh argsort P st X)) ->
    forall j, 0 < s_diagD (update_sorted exp eigh argsort P st X) 0 j.
Proof. exact: update_diagD_pos. Qed.
Print Assumptions C13_update_diagD_pos.

(* sampling: every individual is centroid + z A^T with A = sigma BD and A A^T = sigma^2 C
   (so for z ~ N(0, I) the samples have mean centroid and covariance sigma^2 C); the count and
   dimension are carried by the matrix type 'M_(lambda_, n) *)
Theorem C13_sample_cov :
  forall (R : rcfType) (n lambda_ : nat) (st : state R n) (arz : 'M_(lambda_, n)),
    consistent st ->
    let A := s_sigma st *: s_BD st in
    (forall i, row i (generate st arz) = s_centroid st + row i arz *m A^T) /\
    A *m A^T = (s_sigma st) ^+ 2 *: s_C st.
Proof. exact: sample_cov. Qed.
Print Assumptions C13_sample_cov.

(* non-vacuity: in dimension 1 the eigh contract, a consistent positive definite start state and
   admissible rates with normalised weights exist (for every real closed field) *)
Example C13_hypotheses_satisfiable :
  forall R : rcfType,
    (forall C : 'M[R]_1, eigh_contract C (eigh1 C)) /\ consistent (st1 R) /\
    (rates_ok (P1 R) /\ p_ccov1 (P1 R) + p_ccovmu (P1 R) < 1 /\ \sum_(i < 1) p_weights (P1 R) 0 i = 1).
Proof. by move=> R; split; [exact: eigh1_ok | split; [exact: st1_consistent | exact: P1_rates]]. Qed.
